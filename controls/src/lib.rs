//! Positive controls: one deliberately broken example per zero-expected rule.
//! Module and item names mimic the def paths the rules anchor on, so that the
//! very same rule code that runs on hypercore must fire here on every run.
#![allow(dead_code, unused_variables, unused_must_use, clippy::all)]

use std::future::Future;
use std::pin::Pin;

#[derive(Debug)]
pub struct HypercoreError;
#[derive(Debug)]
pub struct RandomAccessError;

pub mod random_access_storage {
    use super::*;
    pub trait RandomAccess {
        fn write(&mut self, offset: u64, data: &[u8]) -> Pin<Box<dyn Future<Output = Result<(), RandomAccessError>> + Send>>;
        fn del(&mut self, offset: u64, length: u64) -> Pin<Box<dyn Future<Output = Result<(), RandomAccessError>> + Send>>;
        fn truncate(&mut self, length: u64) -> Pin<Box<dyn Future<Output = Result<(), RandomAccessError>> + Send>>;
        fn read(&mut self, offset: u64, length: u64) -> Pin<Box<dyn Future<Output = Result<Vec<u8>, RandomAccessError>> + Send>>;
        fn len(&mut self) -> Pin<Box<dyn Future<Output = Result<u64, RandomAccessError>> + Send>>;
    }
}
use random_access_storage::RandomAccess;

pub mod storage {
    use super::*;
    pub fn map_random_access_err(_e: RandomAccessError) -> HypercoreError {
        HypercoreError
    }
    pub struct Storage {
        pub data: Box<dyn RandomAccess + Send>,
    }
    impl Storage {
        pub async fn flush_info(&mut self, index: u64, data: &[u8]) -> Result<(), HypercoreError> {
            self.data.write(index, data).await.map_err(map_random_access_err)?;
            Ok(())
        }

        /// C10.R1 control: the awaited Result of a storage operation is dropped.
        pub async fn ctl_result_dropped(&mut self) -> Result<(), HypercoreError> {
            let _ = self.data.truncate(0).await;
            Ok(())
        }

        /// C10.R1 control (discarder form): `.ok()` swallows the error.
        pub async fn ctl_result_discarded(&mut self) -> Result<(), HypercoreError> {
            self.flush_info(0, b"x").await.ok();
            Ok(())
        }

        /// C10.R2 control: the future is created and never awaited.
        pub async fn ctl_future_not_awaited(&mut self) -> Result<(), HypercoreError> {
            let _fut = self.data.del(0, 1);
            Ok(())
        }

        /// C10.R3 control: after a failed write another storage operation is issued.
        pub async fn flush_infos(&mut self, index: u64, data: &[u8]) -> Result<(), HypercoreError> {
            match self.flush_info(index, data).await {
                Ok(()) => Ok(()),
                Err(e) => {
                    self.data.truncate(0).await.map_err(map_random_access_err)?;
                    Err(e)
                }
            }
        }

    }
}

pub mod ed25519_dalek {
    pub struct SigningKey(pub [u8; 32]);
    impl SigningKey {
        pub fn to_bytes(&self) -> [u8; 32] {
            self.0
        }
    }
}

pub mod crypto {
    /// C12.R4 control: secret key bytes exported outside the one serialiser.
    pub fn ctl_secret_exported(k: &super::ed25519_dalek::SigningKey) -> Vec<u8> {
        k.to_bytes().to_vec()
    }
}

pub mod replication {
    use std::future::Future;
    pub trait CoreMethods {
        fn ctl_double_lock(&self) -> impl Future<Output = u64>;
        fn ctl_lock_in_loop(&self, batch: &[&[u8]]) -> impl Future<Output = Result<u64, ()>>;
    }
    pub mod shared_core {
        use super::super::async_lock::Mutex;
        use super::super::core::Hypercore;
        use super::CoreMethods;
        use std::future::Future;
        pub struct SharedCore(pub Mutex<Hypercore>);
        impl CoreMethods for SharedCore {
            /// C15.R1 control: two acquisitions for one operation (check-then-act).
            fn ctl_double_lock(&self) -> impl Future<Output = u64> {
                async move {
                    let a = {
                        let core = self.0.lock().await;
                        core.info()
                    };
                    let core = self.0.lock().await;
                    a + core.info()
                }
            }
            /// C15.R1 control: one lock site, but re-acquired per element: a batch is not atomic.
            fn ctl_lock_in_loop(&self, batch: &[&[u8]]) -> impl Future<Output = Result<u64, ()>> {
                async move {
                    let mut last = 0;
                    for d in batch.iter() {
                        let mut core = self.0.lock().await;
                        last = core.append(d).await?;
                    }
                    Ok(last)
                }
            }
        }
    }
    pub mod events {
        pub struct Events;
        pub struct Have;
        impl Events {
            pub fn send<T>(&self, _evt: T) -> Result<(), ()> {
                Ok(())
            }
        }
    }
}

pub mod core {
    use super::replication::events::{Events, Have};
    pub struct Hypercore {
        pub events: Events,
        pub n: u64,
    }
    impl Hypercore {
        pub fn info(&self) -> u64 {
            self.n
        }
        pub async fn append(&mut self, _d: &[u8]) -> Result<u64, ()> {
            self.n += 1;
            Ok(self.n)
        }
        /// C13.R1 control: an event sent by an operation that must stay silent.
        pub fn clear(&mut self) {
            let _ = self.events.send(Have);
        }
    }
}

pub mod async_lock {
    use std::future::Future;
    use std::ops::{Deref, DerefMut};
    use std::pin::Pin;
    use std::task::{Context, Poll};
    pub struct Mutex<T>(pub std::cell::UnsafeCell<T>);
    pub struct MutexGuard<'a, T>(pub &'a Mutex<T>);
    pub struct Lock<'a, T>(pub &'a Mutex<T>);
    impl<T> Mutex<T> {
        pub fn lock(&self) -> Lock<'_, T> {
            Lock(self)
        }
    }
    impl<'a, T> Future for Lock<'a, T> {
        type Output = MutexGuard<'a, T>;
        fn poll(self: Pin<&mut Self>, _cx: &mut Context<'_>) -> Poll<Self::Output> {
            Poll::Ready(MutexGuard(self.0))
        }
    }
    impl<T> Deref for MutexGuard<'_, T> {
        type Target = T;
        fn deref(&self) -> &T {
            unsafe { &*self.0 .0.get() }
        }
    }
    impl<T> DerefMut for MutexGuard<'_, T> {
        fn deref_mut(&mut self) -> &mut T {
            unsafe { &mut *self.0 .0.get() }
        }
    }
    impl<T> Drop for MutexGuard<'_, T> {
        fn drop(&mut self) {}
    }
}


pub mod peer {
    /// C09.R1 control: an index bounded against one collection, applied to another.
    pub fn ctl_unguarded_index(a: &[u64], b: &[u64], want: u64) -> u64 {
        let mut sum = 0;
        if let Some(r) = a.iter().position(|x| *x == want) {
            for i in 0..r {
                sum += b[i];
            }
        }
        sum
    }

    /// C09.R1 control: `len() - 1` on a possibly empty list.
    pub fn ctl_unguarded_last(a: &[u64]) -> u64 {
        a[a.len() - 1]
    }

    /// C09.R3 control: the loop condition reads `flags`, the body only changes `items`.
    pub fn ctl_loop_cannot_exit(items: &mut Vec<u64>, flags: &mut Vec<bool>) -> usize {
        while !flags.is_empty() && flags[flags.len() - 1] {
            items.pop();
        }
        items.len()
    }
}

pub mod moka {
    pub mod sync {
        pub struct Cache<K, V, S = ()>(pub std::marker::PhantomData<(K, V, S)>);
        impl<K, V, S> Cache<K, V, S> {
            pub fn insert(&self, _k: K, _v: V) {}
        }
    }
}

pub mod tree {
    /// C14.R1 control: a node that did not come from storage is put into the cache.
    pub fn ctl_cache_changeset_node(cache: &super::moka::sync::Cache<u64, u64>, index: u64, node: u64) {
        cache.insert(index, node);
    }
}
