//! Positive controls: one deliberately broken example per zero-expected rule.
//! Module and item names mimic the def paths the rules anchor on, so that the
//! very same rule code that runs on hypercore must fire here on every run.
#![allow(dead_code, unused_variables, unused_must_use, clippy::all)]

use std::future::Future;
use std::pin::Pin;

#[derive(Debug)]
pub struct HypercoreError;
#[derive(Debug)]
pub struct RandomAccessError;

pub mod random_access_storage {
    use super::*;
    pub trait RandomAccess {
        fn write(&mut self, offset: u64, data: &[u8]) -> Pin<Box<dyn Future<Output = Result<(), RandomAccessError>> + Send>>;
        fn del(&mut self, offset: u64, length: u64) -> Pin<Box<dyn Future<Output = Result<(), RandomAccessError>> + Send>>;
        fn truncate(&mut self, length: u64) -> Pin<Box<dyn Future<Output = Result<(), RandomAccessError>> + Send>>;
        fn read(&mut self, offset: u64, length: u64) -> Pin<Box<dyn Future<Output = Result<Vec<u8>, RandomAccessError>> + Send>>;
        fn len(&mut self) -> Pin<Box<dyn Future<Output = Result<u64, RandomAccessError>> + Send>>;
    }
}
use random_access_storage::RandomAccess;

pub mod storage {
    use super::*;
    pub fn map_random_access_err(_e: RandomAccessError) -> HypercoreError {
        HypercoreError
    }
    pub struct Storage {
        pub data: Box<dyn RandomAccess + Send>,
    }
    impl Storage {
        pub async fn flush_info(&mut self, index: u64, data: &[u8]) -> Result<(), HypercoreError> {
            self.data.write(index, data).await.map_err(map_random_access_err)?;
            Ok(())
        }

        /// C10.R1 control: the awaited Result of a storage operation is dropped.
        pub async fn ctl_result_dropped(&mut self) -> Result<(), HypercoreError> {
            let _ = self.data.truncate(0).await;
            Ok(())
        }

        /// C10.R1 control (discarder form): `.ok()` swallows the error.
        pub async fn ctl_result_discarded(&mut self) -> Result<(), HypercoreError> {
            self.flush_info(0, b"x").await.ok();
            Ok(())
        }

        /// C10.R2 control: the future is created and never awaited.
        pub async fn ctl_future_not_awaited(&mut self) -> Result<(), HypercoreError> {
            let _fut = self.data.del(0, 1);
            Ok(())
        }

        /// C10.R3 control: after a failed write another storage operation is issued.
        pub async fn flush_infos(&mut self, index: u64, data: &[u8]) -> Result<(), HypercoreError> {
            match self.flush_info(index, data).await {
                Ok(()) => Ok(()),
                Err(e) => {
                    self.data.truncate(0).await.map_err(map_random_access_err)?;
                    Err(e)
                }
            }
        }

    }
}
