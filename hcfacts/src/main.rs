//! hcfacts: rustc_private driver that dumps built MIR (pre-borrowck, pre-coroutine
//! transform) plus crate tables of the crate named in HC_CRATE (default
//! `hypercore`) as one JSON document written to the path in HC_FACTS.
//!
//! It only observes: compilation continues normally afterwards.
#![feature(rustc_private)]

extern crate rustc_abi;
extern crate rustc_driver;
extern crate rustc_hir;
extern crate rustc_interface;
extern crate rustc_middle;
extern crate rustc_session;
extern crate rustc_span;

use rustc_driver::{Callbacks, Compilation};
use rustc_hir::def::DefKind;
use rustc_hir::def_id::{DefId, LocalDefId, LOCAL_CRATE};
use rustc_middle::mir::{
    self, AggregateKind, AssertKind, BasicBlock, Body, BorrowKind, Const as MirConst, Operand,
    Place, ProjectionElem, Rvalue, StatementKind, TerminatorKind,
};
use rustc_middle::ty::{self, Ty, TyCtxt};
use rustc_span::Span;
use std::fmt::Write as _;

// ---------------------------------------------------------------- tiny JSON
enum J {
    Null,
    B(bool),
    N(i128),
    S(String),
    A(Vec<J>),
    O(Vec<(&'static str, J)>),
}
fn s<T: Into<String>>(x: T) -> J {
    J::S(x.into())
}
fn esc(out: &mut String, x: &str) {
    out.push('"');
    for c in x.chars() {
        match c {
            '"' => out.push_str("\\\""),
            '\\' => out.push_str("\\\\"),
            '\n' => out.push_str("\\n"),
            '\r' => out.push_str("\\r"),
            '\t' => out.push_str("\\t"),
            c if (c as u32) < 0x20 => {
                let _ = write!(out, "\\u{:04x}", c as u32);
            }
            c => out.push(c),
        }
    }
    out.push('"');
}
impl J {
    fn write(&self, out: &mut String) {
        match self {
            J::Null => out.push_str("null"),
            J::B(b) => out.push_str(if *b { "true" } else { "false" }),
            J::N(n) => {
                let _ = write!(out, "{}", n);
            }
            J::S(x) => esc(out, x),
            J::A(v) => {
                out.push('[');
                for (i, x) in v.iter().enumerate() {
                    if i > 0 {
                        out.push(',');
                    }
                    x.write(out);
                }
                out.push(']');
            }
            J::O(v) => {
                out.push('{');
                for (i, (k, x)) in v.iter().enumerate() {
                    if i > 0 {
                        out.push(',');
                    }
                    esc(out, k);
                    out.push(':');
                    x.write(out);
                }
                out.push('}');
            }
        }
    }
}

// ---------------------------------------------------------------- helpers
struct Cx<'tcx> {
    tcx: TyCtxt<'tcx>,
}

impl<'tcx> Cx<'tcx> {
    fn span(&self, sp: Span) -> J {
        let sm = self.tcx.sess.source_map();
        let exp = sp.from_expansion();
        // For macro-expanded code report the outermost call site so that the
        // location is a line of the crate's own source.
        let root = sp.source_callsite();
        let lo = sm.lookup_char_pos(root.lo());
        let file = format!("{}", lo.file.name.prefer_local_unconditionally());
        let mut v = vec![("file", s(file)), ("line", J::N(lo.line as i128)), ("exp", J::B(exp))];
        if exp {
            let ed = sp.ctxt().outer_expn_data();
            v.push(("macro", s(format!("{:?}", ed.kind))));
        }
        J::O(v)
    }

    fn def_path(&self, did: DefId) -> String {
        self.tcx.def_path_str(did)
    }

    fn ty(&self, t: Ty<'tcx>) -> J {
        s(format!("{}", t))
    }

    fn place(&self, body: &Body<'tcx>, p: &Place<'tcx>) -> J {
        let mut projs = Vec::new();
        let mut pty = mir::PlaceTy::from_ty(body.local_decls[p.local].ty);
        for elem in p.projection.iter() {
            let j = match elem {
                ProjectionElem::Deref => s("*"),
                ProjectionElem::Field(f, _fty) => {
                    let name = self.field_name(pty, f.as_usize());
                    J::O(vec![("f", J::N(f.as_usize() as i128)), ("n", s(name))])
                }
                ProjectionElem::Index(l) => J::O(vec![("i", J::N(l.as_usize() as i128))]),
                ProjectionElem::ConstantIndex { offset, min_length, from_end } => J::O(vec![
                    ("ci", J::N(offset as i128)),
                    ("min", J::N(min_length as i128)),
                    ("from_end", J::B(from_end)),
                ]),
                ProjectionElem::Subslice { from, to, from_end } => J::O(vec![
                    ("sub", J::N(from as i128)),
                    ("to", J::N(to as i128)),
                    ("from_end", J::B(from_end)),
                ]),
                ProjectionElem::Downcast(name, v) => J::O(vec![
                    ("d", J::N(v.as_usize() as i128)),
                    ("n", s(name.map(|x| x.to_string()).unwrap_or_default())),
                ]),
                ProjectionElem::OpaqueCast(_) => s("opaque"),
                ProjectionElem::UnwrapUnsafeBinder(_) => s("unbinder"),
            };
            projs.push(j);
            pty = pty.projection_ty(self.tcx, elem);
        }
        J::O(vec![("l", J::N(p.local.as_usize() as i128)), ("p", J::A(projs))])
    }

    fn field_name(&self, pty: mir::PlaceTy<'tcx>, idx: usize) -> String {
        match pty.ty.kind() {
            ty::Adt(adt, _) => {
                let variant = match pty.variant_index {
                    Some(v) => adt.variant(v),
                    None => {
                        if adt.is_enum() {
                            return format!("{}", idx);
                        }
                        adt.non_enum_variant()
                    }
                };
                variant
                    .fields
                    .iter()
                    .nth(idx)
                    .map(|f| f.name.to_string())
                    .unwrap_or_else(|| format!("{}", idx))
            }
            _ => format!("{}", idx),
        }
    }

    fn konst(&self, c: &mir::ConstOperand<'tcx>) -> J {
        let ty = c.const_.ty();
        let mut v: Vec<(&'static str, J)> = vec![("ty", self.ty(ty))];
        if let ty::FnDef(did, args) = ty.kind() {
            v.push(("fn", s(self.def_path(*did))));
            v.push(("fn_full", s(self.tcx.def_path_str_with_args(*did, args))));
            return J::O(v);
        }
        match c.const_ {
            MirConst::Unevaluated(uv, _) => {
                v.push(("def", s(self.def_path(uv.def))));
                if uv.promoted.is_some() {
                    v.push(("promoted", J::B(true)));
                }
            }
            MirConst::Val(val, _) => {
                if let Some(sc) = val.try_to_scalar_int() {
                    v.push(("v", J::N(sc.to_bits_unchecked() as i128)));
                } else {
                    v.push(("repr", s(format!("{}", c.const_))));
                    // the address of a `static` item: name the item
                    if let mir::ConstValue::Scalar(mir::interpret::Scalar::Ptr(ptr, _)) = val {
                        if let Some(rustc_middle::mir::interpret::GlobalAlloc::Static(did)) =
                            self.tcx.try_get_global_alloc(ptr.provenance.alloc_id())
                        {
                            v.push(("static", s(self.def_path(did))));
                        }
                    }
                }
            }
            MirConst::Ty(_, ct) => {
                if let Some(sc) = ct.try_to_leaf() {
                    v.push(("v", J::N(sc.to_bits_unchecked() as i128)));
                } else {
                    v.push(("repr", s(format!("{}", c.const_))));
                }
            }
        }
        J::O(v)
    }

    fn operand(&self, body: &Body<'tcx>, o: &Operand<'tcx>) -> J {
        match o {
            Operand::Copy(p) => J::O(vec![("c", self.place(body, p))]),
            Operand::Move(p) => J::O(vec![("m", self.place(body, p))]),
            Operand::Constant(c) => J::O(vec![("k", self.konst(c))]),
            #[allow(unreachable_patterns)]
            other => J::O(vec![("other", s(format!("{:?}", other)))]),
        }
    }

    fn rvalue(&self, body: &Body<'tcx>, rv: &Rvalue<'tcx>) -> J {
        match rv {
            Rvalue::Use(o, ..) => J::O(vec![("k", s("use")), ("op", self.operand(body, o))]),
            Rvalue::Repeat(o, n) => J::O(vec![
                ("k", s("repeat")),
                ("op", self.operand(body, o)),
                ("n", s(format!("{}", n))),
            ]),
            Rvalue::Ref(_, bk, p) => J::O(vec![
                ("k", s("ref")),
                ("mut", J::B(matches!(bk, BorrowKind::Mut { .. }))),
                ("fake", J::B(matches!(bk, BorrowKind::Fake(_)))),
                ("place", self.place(body, p)),
            ]),
            Rvalue::RawPtr(_, p) => J::O(vec![("k", s("rawptr")), ("place", self.place(body, p))]),
            Rvalue::Cast(ck, o, t) => J::O(vec![
                ("k", s("cast")),
                ("ck", s(format!("{:?}", ck))),
                ("op", self.operand(body, o)),
                ("ty", self.ty(*t)),
            ]),
            Rvalue::BinaryOp(op, b) => J::O(vec![
                ("k", s("bin")),
                ("op", s(format!("{:?}", op))),
                ("l", self.operand(body, &b.0)),
                ("r", self.operand(body, &b.1)),
            ]),
            Rvalue::UnaryOp(op, o) => J::O(vec![
                ("k", s("un")),
                ("op", s(format!("{:?}", op))),
                ("x", self.operand(body, o)),
            ]),
            Rvalue::Discriminant(p) => J::O(vec![("k", s("disc")), ("place", self.place(body, p))]),
            Rvalue::Aggregate(kind, ops) => {
                let mut v: Vec<(&'static str, J)> = vec![("k", s("agg"))];
                match &**kind {
                    AggregateKind::Array(t) => {
                        v.push(("kind", s("array")));
                        v.push(("ty", self.ty(*t)));
                    }
                    AggregateKind::Tuple => v.push(("kind", s("tuple"))),
                    AggregateKind::Adt(did, variant, _args, _, active) => {
                        v.push(("kind", s("adt")));
                        v.push(("name", s(self.def_path(*did))));
                        let adt = self.tcx.adt_def(*did);
                        let var = adt.variant(*variant);
                        v.push(("variant", s(var.name.to_string())));
                        v.push(("variant_idx", J::N(variant.as_usize() as i128)));
                        let names: Vec<J> = match active {
                            Some(f) => vec![s(var.fields[*f].name.to_string())],
                            None => var.fields.iter().map(|f| s(f.name.to_string())).collect(),
                        };
                        v.push(("fields", J::A(names)));
                    }
                    AggregateKind::Closure(did, _) => {
                        v.push(("kind", s("closure")));
                        v.push(("name", s(self.def_path(*did))));
                    }
                    AggregateKind::Coroutine(did, _) => {
                        v.push(("kind", s("coroutine")));
                        v.push(("name", s(self.def_path(*did))));
                    }
                    AggregateKind::CoroutineClosure(did, _) => {
                        v.push(("kind", s("coroutine_closure")));
                        v.push(("name", s(self.def_path(*did))));
                    }
                    AggregateKind::RawPtr(..) => v.push(("kind", s("rawptr"))),
                }
                v.push(("ops", J::A(ops.iter().map(|o| self.operand(body, o)).collect())));
                J::O(v)
            }
            Rvalue::CopyForDeref(p) => {
                J::O(vec![("k", s("copyderef")), ("place", self.place(body, p))])
            }
            other => J::O(vec![("k", s("other")), ("dbg", s(format!("{:?}", other)))]),
        }
    }

    fn bb(b: BasicBlock) -> J {
        J::N(b.as_usize() as i128)
    }

    fn callee(&self, owner: DefId, func: &Operand<'tcx>, body: &Body<'tcx>) -> Vec<(&'static str, J)> {
        let mut v = Vec::new();
        let fty = func.ty(&body.local_decls, self.tcx);
        if let ty::FnDef(did, args) = fty.kind() {
            v.push(("callee", s(self.def_path(*did))));
            v.push(("callee_full", s(self.tcx.def_path_str_with_args(*did, args))));
            v.push(("callee_local", J::B(did.is_local())));
            // self type of trait method calls, and first generic arg, are handy
            let targs: Vec<J> = args.iter().map(|a| s(format!("{}", a))).collect();
            v.push(("gargs", J::A(targs)));
            let tenv = ty::TypingEnv::post_analysis(self.tcx, owner);
            let res = std::panic::catch_unwind(std::panic::AssertUnwindSafe(|| {
                ty::Instance::try_resolve(self.tcx, tenv, *did, args)
            }));
            if let Ok(Ok(Some(inst))) = res {
                let rd = inst.def_id();
                v.push(("resolved", s(self.def_path(rd))));
                v.push(("resolved_local", J::B(rd.is_local())));
                v.push(("resolved_kind", s(format!("{:?}", std::mem::discriminant(&inst.def)))));
            }
        } else {
            v.push(("callee", J::Null));
            v.push(("callee_ty", self.ty(fty)));
            v.push(("func", self.operand(body, func)));
        }
        v
    }

    fn terminator(&self, owner: DefId, body: &Body<'tcx>, t: &mir::Terminator<'tcx>) -> J {
        let mut v: Vec<(&'static str, J)> = Vec::new();
        match &t.kind {
            TerminatorKind::Goto { target } => {
                v.push(("k", s("goto")));
                v.push(("target", Self::bb(*target)));
            }
            TerminatorKind::SwitchInt { discr, targets } => {
                v.push(("k", s("switch")));
                v.push(("discr", self.operand(body, discr)));
                v.push(("discr_ty", self.ty(discr.ty(&body.local_decls, self.tcx))));
                let ts: Vec<J> = targets
                    .iter()
                    .map(|(val, bb)| J::A(vec![J::N(val as i128), Self::bb(bb)]))
                    .collect();
                v.push(("targets", J::A(ts)));
                v.push(("otherwise", Self::bb(targets.otherwise())));
            }
            TerminatorKind::UnwindResume => v.push(("k", s("resume"))),
            TerminatorKind::UnwindTerminate(_) => v.push(("k", s("terminate"))),
            TerminatorKind::Return => v.push(("k", s("return"))),
            TerminatorKind::Unreachable => v.push(("k", s("unreachable"))),
            TerminatorKind::Drop { place, target, drop, .. } => {
                v.push(("k", s("drop")));
                v.push(("place", self.place(body, place)));
                v.push(("target", Self::bb(*target)));
                if let Some(d) = drop {
                    v.push(("cdrop", Self::bb(*d)));
                }
            }
            TerminatorKind::Call { func, args, destination, target, fn_span, .. } => {
                v.push(("k", s("call")));
                v.extend(self.callee(owner, func, body));
                v.push(("args", J::A(args.iter().map(|a| self.operand(body, &a.node)).collect())));
                v.push((
                    "arg_tys",
                    J::A(args
                        .iter()
                        .map(|a| self.ty(a.node.ty(&body.local_decls, self.tcx)))
                        .collect()),
                ));
                v.push(("dest", self.place(body, destination)));
                v.push(("dest_ty", self.ty(destination.ty(&body.local_decls, self.tcx).ty)));
                match target {
                    Some(t) => v.push(("target", Self::bb(*t))),
                    None => v.push(("target", J::Null)),
                }
                v.push(("fn_span", self.span(*fn_span)));
            }
            TerminatorKind::TailCall { func, args, .. } => {
                v.push(("k", s("tailcall")));
                v.extend(self.callee(owner, func, body));
                v.push(("args", J::A(args.iter().map(|a| self.operand(body, &a.node)).collect())));
            }
            TerminatorKind::Assert { cond, expected, msg, target, .. } => {
                v.push(("k", s("assert")));
                v.push(("cond", self.operand(body, cond)));
                v.push(("expected", J::B(*expected)));
                v.push(("target", Self::bb(*target)));
                let (kind, ops): (String, Vec<J>) = match &**msg {
                    AssertKind::BoundsCheck { len, index } => (
                        "BoundsCheck".into(),
                        vec![self.operand(body, len), self.operand(body, index)],
                    ),
                    AssertKind::Overflow(op, a, b) => (
                        format!("Overflow({:?})", op),
                        vec![self.operand(body, a), self.operand(body, b)],
                    ),
                    AssertKind::OverflowNeg(a) => ("OverflowNeg".into(), vec![self.operand(body, a)]),
                    AssertKind::DivisionByZero(a) => {
                        ("DivisionByZero".into(), vec![self.operand(body, a)])
                    }
                    AssertKind::RemainderByZero(a) => {
                        ("RemainderByZero".into(), vec![self.operand(body, a)])
                    }
                    other => (format!("{:?}", std::mem::discriminant(other)), vec![]),
                };
                v.push(("akind", s(kind)));
                v.push(("aops", J::A(ops)));
            }
            TerminatorKind::Yield { value, resume, resume_arg, drop } => {
                v.push(("k", s("yield")));
                v.push(("value", self.operand(body, value)));
                v.push(("target", Self::bb(*resume)));
                v.push(("resume_arg", self.place(body, resume_arg)));
                if let Some(d) = drop {
                    v.push(("cdrop", Self::bb(*d)));
                }
            }
            TerminatorKind::CoroutineDrop => v.push(("k", s("coroutine_drop"))),
            TerminatorKind::FalseEdge { real_target, imaginary_target } => {
                v.push(("k", s("false_edge")));
                v.push(("target", Self::bb(*real_target)));
                v.push(("imaginary", Self::bb(*imaginary_target)));
            }
            TerminatorKind::FalseUnwind { real_target, .. } => {
                v.push(("k", s("false_unwind")));
                v.push(("target", Self::bb(*real_target)));
            }
            TerminatorKind::InlineAsm { .. } => v.push(("k", s("asm"))),
        }
        v.push(("span", self.span(t.source_info.span)));
        J::O(v)
    }

    fn body(&self, ldid: LocalDefId, body: &Body<'tcx>) -> J {
        let did = ldid.to_def_id();
        let tcx = self.tcx;
        let kind = tcx.def_kind(did);
        let mut v: Vec<(&'static str, J)> = Vec::new();
        v.push(("name", s(self.def_path(did))));
        v.push(("kind", s(format!("{:?}", kind))));
        let parent = tcx.opt_parent(did).map(|p| self.def_path(p)).unwrap_or_default();
        v.push(("parent", s(parent)));
        v.push(("is_coroutine", J::B(body.coroutine.is_some())));
        v.push(("arg_count", J::N(body.arg_count as i128)));
        v.push(("span", self.span(body.span)));
        if matches!(kind, DefKind::Fn | DefKind::AssocFn) {
            v.push(("vis", s(format!("{:?}", tcx.visibility(did)))));
            v.push(("asyncness", J::B(tcx.asyncness(did).is_async())));
            let sig = tcx.fn_sig(did).instantiate_identity().skip_normalization().skip_binder();
            v.push(("inputs", J::A(sig.inputs().iter().map(|t| self.ty(*t)).collect())));
            v.push(("output", self.ty(sig.output())));
            if let Some(imp) = tcx.impl_of_assoc(did) {
                let self_ty = tcx.type_of(imp).instantiate_identity().skip_normalization();
                v.push(("impl_self", self.ty(self_ty)));
                if let Some(tr) = tcx.impl_opt_trait_ref(imp) {
                    let tr = tr.instantiate_identity().skip_normalization();
                    v.push(("impl_trait", s(self.def_path(tr.def_id))));
                }
            }
        }
        // locals
        let mut names: Vec<Option<String>> = vec![None; body.local_decls.len()];
        for vdi in body.var_debug_info.iter() {
            if let mir::VarDebugInfoContents::Place(p) = &vdi.value {
                if p.projection.is_empty() {
                    names[p.local.as_usize()] = Some(vdi.name.to_string());
                }
            }
        }
        // captured upvars: debug info of form (*_1).field
        let mut upvars: Vec<J> = Vec::new();
        for vdi in body.var_debug_info.iter() {
            if let mir::VarDebugInfoContents::Place(p) = &vdi.value {
                if !p.projection.is_empty() {
                    upvars.push(J::O(vec![
                        ("name", s(vdi.name.to_string())),
                        ("place", self.place(body, p)),
                    ]));
                }
            }
        }
        v.push(("upvars", J::A(upvars)));
        let locals: Vec<J> = body
            .local_decls
            .iter_enumerated()
            .map(|(l, d)| {
                J::O(vec![
                    ("i", J::N(l.as_usize() as i128)),
                    ("ty", self.ty(d.ty)),
                    ("name", names[l.as_usize()].clone().map(J::S).unwrap_or(J::Null)),
                    ("user", J::B(d.is_user_variable())),
                ])
            })
            .collect();
        v.push(("locals", J::A(locals)));
        // blocks
        let mut blocks = Vec::new();
        for (bbi, data) in body.basic_blocks.iter_enumerated() {
            let mut stmts = Vec::new();
            for st in data.statements.iter() {
                match &st.kind {
                    StatementKind::Assign(b) => {
                        stmts.push(J::O(vec![
                            ("k", s("assign")),
                            ("place", self.place(body, &b.0)),
                            ("rv", self.rvalue(body, &b.1)),
                            ("span", self.span(st.source_info.span)),
                        ]));
                    }
                    StatementKind::SetDiscriminant { place, variant_index } => {
                        stmts.push(J::O(vec![
                            ("k", s("setdisc")),
                            ("place", self.place(body, place)),
                            ("variant", J::N(variant_index.as_usize() as i128)),
                        ]));
                    }
                    StatementKind::StorageDead(l) => {
                        stmts.push(J::O(vec![
                            ("k", s("dead")),
                            ("l", J::N(l.as_usize() as i128)),
                        ]));
                    }
                    _ => {}
                }
            }
            let term = data.terminator();
            blocks.push(J::O(vec![
                ("i", J::N(bbi.as_usize() as i128)),
                ("cleanup", J::B(data.is_cleanup)),
                ("stmts", J::A(stmts)),
                ("term", self.terminator(did, body, term)),
            ]));
        }
        v.push(("blocks", J::A(blocks)));
        J::O(v)
    }

    fn const_item(&self, did: DefId) -> Option<J> {
        let tcx = self.tcx;
        let ty = tcx.type_of(did).instantiate_identity().skip_normalization();
        let mut v: Vec<(&'static str, J)> =
            vec![("name", s(self.def_path(did))), ("ty", self.ty(ty))];
        let res = std::panic::catch_unwind(std::panic::AssertUnwindSafe(|| tcx.const_eval_poly(did)));
        match res {
            Ok(Ok(val)) => {
                if let Some(sc) = val.try_to_scalar_int() {
                    v.push(("v", J::N(sc.to_bits_unchecked() as i128)));
                } else {
                    // byte arrays and the like: use the pretty printer
                    let c = MirConst::Val(val, ty);
                    v.push(("repr", s(format!("{}", c))));
                    if let mir::ConstValue::Indirect { alloc_id, offset } = val {
                        let alloc = tcx.global_alloc(alloc_id).unwrap_memory();
                        let a = alloc.inner();
                        let start = offset.bytes() as usize;
                        let bytes =
                            a.inspect_with_uninit_and_ptr_outside_interpreter(start..a.len());
                        v.push(("bytes", J::A(bytes.iter().map(|b| J::N(*b as i128)).collect())));
                    }
                }
            }
            _ => v.push(("error", J::B(true))),
        }
        Some(J::O(v))
    }

    fn adt(&self, did: DefId) -> J {
        let tcx = self.tcx;
        let adt = tcx.adt_def(did);
        let mut variants = Vec::new();
        for (vi, var) in adt.variants().iter_enumerated() {
            let fields: Vec<J> = var
                .fields
                .iter()
                .map(|f| {
                    J::O(vec![
                        ("name", s(f.name.to_string())),
                        (
                            "ty",
                            self.ty(tcx.type_of(f.did).instantiate_identity().skip_normalization()),
                        ),
                        ("vis", s(format!("{:?}", f.vis))),
                    ])
                })
                .collect();
            let mut vv = vec![("name", s(var.name.to_string())), ("fields", J::A(fields))];
            if adt.is_enum() {
                let d = adt.discriminant_for_variant(tcx, vi);
                vv.push(("discr", J::N(d.val as i128)));
            }
            variants.push(J::O(vv));
        }
        J::O(vec![
            ("name", s(self.def_path(did))),
            ("kind", s(if adt.is_enum() { "enum" } else if adt.is_struct() { "struct" } else { "union" })),
            ("vis", s(format!("{:?}", tcx.visibility(did)))),
            ("variants", J::A(variants)),
        ])
    }
}

struct Cb;

impl Callbacks for Cb {
    fn after_expansion<'tcx>(
        &mut self,
        _compiler: &rustc_interface::interface::Compiler,
        tcx: TyCtxt<'tcx>,
    ) -> Compilation {
        let want = std::env::var("HC_CRATE").unwrap_or_else(|_| "hypercore".to_string());
        let krate = tcx.crate_name(LOCAL_CRATE).to_string();
        let out = match std::env::var("HC_FACTS") {
            Ok(p) => p,
            Err(_) => return Compilation::Continue,
        };
        if krate != want {
            return Compilation::Continue;
        }
        // only the library target (cargo check builds lib + possibly tests)
        let is_test = tcx.sess.opts.test;
        if is_test {
            return Compilation::Continue;
        }
        let cx = Cx { tcx };
        let mut bodies = Vec::new();
        let mut skipped = Vec::new();
        // Pass 1: clone every built body before any query that may force
        // borrowck (and thereby steal mir_built) is issued.
        let mut cloned: Vec<(LocalDefId, Body<'tcx>)> = Vec::new();
        for ldid in tcx.mir_keys(()).iter().copied() {
            let did = ldid.to_def_id();
            let kind = tcx.def_kind(did);
            if !matches!(kind, DefKind::Fn | DefKind::AssocFn | DefKind::Closure) {
                continue;
            }
            let steal = tcx.mir_built(ldid);
            if steal.is_stolen() {
                skipped.push(s(cx.def_path(did)));
                continue;
            }
            let body = steal.borrow();
            cloned.push((ldid, (*body).clone()));
        }
        // Pass 2: emit facts
        for (ldid, body) in cloned.iter() {
            bodies.push(cx.body(*ldid, body));
        }
        // crate tables
        let mut consts = Vec::new();
        let mut adts = Vec::new();
        let mut impls = Vec::new();
        let mut traits = Vec::new();
        let mut fns = Vec::new();
        for ldid in tcx.hir_crate_items(()).definitions() {
            let did = ldid.to_def_id();
            match tcx.def_kind(did) {
                DefKind::Const { .. } | DefKind::AssocConst { .. } | DefKind::AnonConst | DefKind::InlineConst => {
                    if tcx.generics_of(did).requires_monomorphization(tcx) {
                        continue;
                    }
                    if cx.def_path(did).contains("__CALLSITE") {
                        continue;
                    }
                    if let Some(j) = cx.const_item(did) {
                        consts.push(j);
                    }
                }
                DefKind::Static { .. } => {
                    let ty = tcx.type_of(did).instantiate_identity().skip_normalization();
                    let mut v: Vec<(&'static str, J)> = vec![
                        ("name", s(cx.def_path(did))),
                        ("ty", cx.ty(ty)),
                        ("static", J::B(true)),
                    ];
                    // the initial value of an immutable integer static
                    if ty.is_integral() && !tcx.is_mutable_static(did) {
                        let res = std::panic::catch_unwind(std::panic::AssertUnwindSafe(|| tcx.eval_static_initializer(did)));
                        if let Ok(Ok(alloc)) = res {
                            let a = alloc.inner();
                            if a.len() <= 16 {
                                let bytes = a.inspect_with_uninit_and_ptr_outside_interpreter(0..a.len());
                                let mut n: u128 = 0;
                                for (i, b) in bytes.iter().enumerate() {
                                    n |= (*b as u128) << (8 * i);
                                }
                                v.push(("v", J::N(n as i128)));
                            }
                        }
                    }
                    consts.push(J::O(v));
                }
                DefKind::Struct | DefKind::Enum | DefKind::Union => adts.push(cx.adt(did)),
                DefKind::Impl { .. } => {
                    let self_ty = tcx.type_of(did).instantiate_identity().skip_normalization();
                    let tr = tcx
                        .impl_opt_trait_ref(did)
                        .map(|t| cx.def_path(t.instantiate_identity().skip_normalization().def_id));
                    let items: Vec<J> = tcx
                        .associated_items(did)
                        .in_definition_order()
                        .map(|it| s(it.opt_name().map(|n| n.to_string()).unwrap_or_default()))
                        .collect();
                    impls.push(J::O(vec![
                        ("self_ty", cx.ty(self_ty)),
                        ("trait", tr.map(J::S).unwrap_or(J::Null)),
                        ("items", J::A(items)),
                        ("span", cx.span(tcx.def_span(did))),
                    ]));
                }
                DefKind::Trait => {
                    let items: Vec<J> = tcx
                        .associated_items(did)
                        .in_definition_order()
                        .map(|it| s(it.opt_name().map(|n| n.to_string()).unwrap_or_default()))
                        .collect();
                    traits.push(J::O(vec![("name", s(cx.def_path(did))), ("items", J::A(items))]));
                }
                DefKind::Fn | DefKind::AssocFn => {
                    fns.push(s(cx.def_path(did)));
                }
                _ => {}
            }
        }
        // crate-level lint attributes, textual rendering of the crate attrs
        let mut attrs = Vec::new();
        for a in tcx.hir_krate_attrs() {
            attrs.push(s(format!("{:?}", a)));
        }
        let features: Vec<J> = tcx
            .sess
            .config
            .iter()
            .filter(|(k, _)| k.as_str() == "feature")
            .map(|(_, v)| s(v.map(|x| x.to_string()).unwrap_or_default()))
            .collect();
        let doc = J::O(vec![
            ("crate", s(krate)),
            ("cfg_features", J::A(features)),
            ("bodies", J::A(bodies)),
            ("skipped", J::A(skipped)),
            ("consts", J::A(consts)),
            ("adts", J::A(adts)),
            ("impls", J::A(impls)),
            ("traits", J::A(traits)),
            ("fns", J::A(fns)),
            ("crate_attrs", J::A(attrs)),
        ]);
        let mut text = String::new();
        doc.write(&mut text);
        std::fs::write(&out, text).expect("hcfacts: cannot write HC_FACTS");
        Compilation::Continue
    }
}

fn main() {
    let mut args: Vec<String> = std::env::args().collect();
    // RUSTC_WORKSPACE_WRAPPER passes the real rustc as argv[1]
    if args.len() > 1 && (args[1].ends_with("rustc") || args[1].contains("/rustc")) {
        args.remove(1);
    }
    rustc_driver::run_compiler(&args, &mut Cb);
}
