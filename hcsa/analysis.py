"""Per-body analyses: pruned CFG, dominators, post-dominators, natural loops,
reaching definitions and origin terms (see DESIGN.md section 4)."""
from collections import defaultdict
import re
from .facts import op_place

# ---------------------------------------------------------------------------
# transparent callees: origin(dest) is (a wrapper of) origin(arg0)
TRANSPARENT = {
    "std::ops::Deref::deref": None,
    "std::ops::DerefMut::deref_mut": None,
    "std::clone::Clone::clone": None,
    "std::borrow::Borrow::borrow": None,
    "std::borrow::BorrowMut::borrow_mut": None,
    "std::convert::AsRef::as_ref": None,
    "std::convert::AsMut::as_mut": None,
    "std::future::IntoFuture::into_future": None,
    "std::pin::Pin::<Ptr>::new_unchecked": None,
    "std::pin::Pin::<Ptr>::new": None,
    "std::convert::Into::into": None,
    "std::convert::From::from": "from",
    "std::option::Option::<T>::as_ref": None,
    "std::option::Option::<T>::as_mut": None,
    "std::option::Option::<T>::as_deref": None,
    "std::option::Option::<&T>::cloned": None,
    "std::option::Option::<&T>::copied": None,
    "std::result::Result::<T, E>::as_ref": None,
    "std::result::Result::<T, E>::map_err": None,
    "std::iter::IntoIterator::into_iter": None,
    "std::slice::<impl [T]>::iter": None,
    "core::slice::<impl [T]>::iter": None,
    "std::boxed::Box::<T>::new": None,
    "std::vec::Vec::<T>::as_slice": None,
    "std::vec::Vec::<T, A>::as_slice": None,
    "std::vec::Vec::<T, A>::as_mut_slice": None,
    "std::vec::Vec::<T, A>::into_boxed_slice": None,
    "std::slice::<impl [T]>::into_vec": None,
    "alloc::slice::<impl [T]>::into_vec": None,
    "std::slice::<impl [T]>::to_vec": None,
    "alloc::slice::<impl [T]>::to_vec": None,
    "std::borrow::ToOwned::to_owned": None,
    "std::convert::identity": None,
}
LEN_CALLEES = {
    "std::vec::Vec::<T, A>::len",
    "std::vec::Vec::<T>::len",
    "core::slice::<impl [T]>::len",
    "std::slice::<impl [T]>::len",
    "std::string::String::len",
    "std::str::<impl str>::len",
    "core::str::<impl str>::len",
}
POLL = ("std::future::Future::poll", "futures::Future::poll", "core::future::Future::poll")
BRANCH = ("std::ops::Try::branch", "core::ops::Try::branch")
FROM_RESIDUAL = ("std::ops::FromResidual::from_residual", "core::ops::FromResidual::from_residual")


def callee_of(t):
    """Preferred callee identity of a call terminator: resolved impl if the
    resolution landed in the crate, else the path as written."""
    if t.get("resolved_local"):
        return t["resolved"]
    return t.get("callee") or "<indirect>"


def callee_matches(t, names):
    c = t.get("callee")
    r = t.get("resolved")
    for n in names:
        if c == n or r == n:
            return True
    return False


class FnA:
    def __init__(self, body):
        self.body = body
        self.blocks = body.blocks
        self._build_cfg()
        self._dom = None
        self._pdom = None
        self._rd_cache = {}
        self._origin_cache = {}

    # ------------------------------------------------------------------ CFG
    def _const_local(self, l):
        """value of a bool/int local with a single constant definition."""
        ds = self.body.defs.get(l, [])
        full = [d for d in ds if not d[3]["p"]]
        if len(full) != 1 or full[0][0] != "assign":
            return None
        rv = full[0][4]
        if rv["k"] == "use" and "k" in rv["op"] and "v" in rv["op"]["k"]:
            return rv["op"]["k"]["v"]
        return None

    def _build_cfg(self):
        body = self.body
        raw = body.succ
        succ = {}
        for b in body.live_blocks():
            t = b.term
            ss = list(raw[b.i])
            if t["k"] == "switch":
                p = op_place(t["discr"])
                if p is not None and not p["p"]:
                    v = self._const_local(p["l"])
                    if v is not None:
                        tgt = None
                        for val, bb in t["targets"]:
                            if val == v:
                                tgt = bb
                        if tgt is None:
                            tgt = t["otherwise"]
                        ss = [tgt]
                elif "k" in t["discr"] and "v" in t["discr"]["k"]:
                    v = t["discr"]["k"]["v"]
                    tgt = None
                    for val, bb in t["targets"]:
                        if val == v:
                            tgt = bb
                    ss = [tgt if tgt is not None else t["otherwise"]]
            succ[b.i] = ss
        # reachability after pruning
        seen = set()
        st = [0]
        while st:
            x = st.pop()
            if x in seen:
                continue
            seen.add(x)
            st.extend(succ.get(x, []))
        self.nodes = sorted(seen)
        self.succ = {n: [s for s in succ[n] if s in seen] for n in self.nodes}
        self.pred = defaultdict(list)
        for a in self.nodes:
            for b in self.succ[a]:
                self.pred[b].append(a)
        self.returns = [n for n in self.nodes if self.blocks[n].term["k"] == "return"]

    def live(self):
        return [self.blocks[n] for n in self.nodes]

    def acyclic_view(self):
        """a copy of this analysis with every loop back edge removed: reaching definitions
        and origin terms then describe values produced within the current iteration only"""
        if getattr(self, "_acyclic", None) is None:
            v = FnA(self.body)
            back = set()
            for a in self.nodes:
                for b in self.succ[a]:
                    if self.dominates(b, a):
                        back.add((a, b))
            v.succ = {a: [b for b in ss if (a, b) not in back] for a, ss in self.succ.items()}
            v.pred = defaultdict(list)
            for a, ss in v.succ.items():
                for b in ss:
                    v.pred[b].append(a)
            v._dom = None
            v._pdom = None
            v._rd_cache = {}
            v._origin_cache = {}
            self._acyclic = v
        return self._acyclic

    def calls(self):
        for n in self.nodes:
            t = self.blocks[n].term
            if t["k"] == "call":
                yield n, t

    # ------------------------------------------------------------ dominators
    def _idom_sets(self, nodes, entry, pred):
        dom = {n: None for n in nodes}
        allset = set(nodes)
        dom = {n: set(allset) for n in nodes}
        dom[entry] = {entry}
        order = self._rpo(entry, pred_to_succ(pred, nodes))
        changed = True
        while changed:
            changed = False
            for n in order:
                if n == entry:
                    continue
                ps = [p for p in pred.get(n, []) if p in dom]
                if ps:
                    new = set.intersection(*[dom[p] for p in ps])
                else:
                    new = set()
                new = new | {n}
                if new != dom[n]:
                    dom[n] = new
                    changed = True
        return dom

    def _rpo(self, entry, succ):
        seen = set()
        order = []

        st = [(entry, iter(succ.get(entry, [])))]
        seen.add(entry)
        while st:
            n, it = st[-1]
            adv = False
            for s in it:
                if s not in seen:
                    seen.add(s)
                    st.append((s, iter(succ.get(s, []))))
                    adv = True
                    break
            if not adv:
                order.append(n)
                st.pop()
        order.reverse()
        return order

    @property
    def dom(self):
        if self._dom is None:
            self._dom = self._idom_sets(self.nodes, 0, self.pred)
        return self._dom

    def dominates(self, a, b):
        """every path from entry to b passes a (block level)."""
        return a in self.dom.get(b, ())

    @property
    def pdom(self):
        if self._pdom is None:
            EXIT = -1
            # nodes that can reach a return
            can = set()
            st = list(self.returns)
            while st:
                x = st.pop()
                if x in can:
                    continue
                can.add(x)
                st.extend(p for p in self.pred.get(x, []) if p not in can)
            nodes = sorted(can) + [EXIT]
            rpred = defaultdict(list)  # predecessor in reversed graph = successor in cfg
            for n in can:
                for s in self.succ[n]:
                    if s in can:
                        rpred[n].append(s)
            for r in self.returns:
                rpred[r].append(EXIT)
            self._pdom = self._idom_sets(nodes, EXIT, rpred)
            self._can_return = can
        return self._pdom

    def postdominates(self, a, b):
        """every path from b to a Return passes a."""
        return a in self.pdom.get(b, ())

    # ---------------------------------------------------------- reachability
    def reach(self, src, avoiding=(), include_src=False):
        """blocks reachable from src (exclusive unless a cycle returns) without
        entering blocks in `avoiding`."""
        avoiding = set(avoiding)
        seen = set()
        st = list(self.succ.get(src, [])) if not include_src else [src]
        while st:
            x = st.pop()
            if x in seen or x in avoiding:
                continue
            seen.add(x)
            st.extend(self.succ.get(x, []))
        return seen

    def can_reach(self, a, b, avoiding=()):
        return b in self.reach(a, avoiding)

    # ------------------------------------------------------------ loops
    def loops(self):
        """natural loops: list of (header, set(body blocks), [back edge sources])"""
        out = {}
        for a in self.nodes:
            for b in self.succ[a]:
                if self.dominates(b, a):
                    body = out.setdefault(b, (set([b]), []))
                    body[1].append(a)
                    st = [a]
                    while st:
                        x = st.pop()
                        if x in body[0]:
                            continue
                        body[0].add(x)
                        st.extend(self.pred.get(x, []))
        return [(h, s, be) for h, (s, be) in out.items()]

    # --------------------------------------------------- reaching definitions
    def _defs_in_block(self, l, bi):
        """full definitions of local l inside block bi, in order: (pos, rec)
        pos = statement index, or len(stmts) for the terminator."""
        out = []
        for d in self.body.defs.get(l, []):
            if d[1] != bi or d[3]["p"]:
                continue
            pos = d[2] if d[2] is not None else len(self.blocks[bi].stmts)
            # a call's dest is defined on entry of the target block; model it at
            # terminator position of the calling block
            out.append((pos, d))
        out.sort(key=lambda x: x[0])
        return out

    def reaching_defs(self, l, bi, pos):
        """full defs of local l reaching position (bi, pos) (pos = stmt index of
        the use; len(stmts) = terminator)."""
        key = (l, bi, pos)
        if key in self._rd_cache:
            return self._rd_cache[key]
        res = []
        entry = False       # does the value the local has on entry to the function (a parameter) reach as well?
        # inside the block first
        ds = [d for p, d in self._defs_in_block(l, bi) if p < pos]
        if ds:
            res = [ds[-1]]
        else:
            if bi == 0:
                entry = True
            seen = set()
            st = list(self.pred.get(bi, []))
            while st:
                x = st.pop()
                if x in seen:
                    continue
                seen.add(x)
                dd = self._defs_in_block(l, x)
                if dd:
                    if dd[-1][1] not in res:
                        res.append(dd[-1][1])
                else:
                    if x == 0:
                        entry = True
                    st.extend(self.pred.get(x, []))
        self._rd_cache[key] = res
        if not hasattr(self, "_rd_entry"):
            self._rd_entry = {}
        self._rd_entry[key] = entry
        return res

    def entry_value_reaches(self, l, bi, pos):
        self.reaching_defs(l, bi, pos)
        return self._rd_entry.get((l, bi, pos), False)

    # ---------------------------------------------------------- origin terms
    def upvar_name(self, place):
        """name of the captured variable a place is (a projection of); returns
        (name, remaining projections) or None."""
        best = None
        for u in self.body.upvars:
            up = u["place"]
            if up["l"] != place["l"]:
                continue
            n = len(up["p"])
            if len(place["p"]) >= n and proj_eq(place["p"][:n], up["p"]):
                if best is None or n > best[2]:
                    best = (u["name"], place["p"][n:], n)
            elif len(up["p"]) == len(place["p"]) + 1 and up["p"][-1] == "*" and proj_eq(up["p"][:-1], place["p"]):
                # by-ref capture used as the reference itself
                if best is None:
                    best = (u["name"], [], n)
        if best:
            return best[0], best[1]
        return None

    def origin_place(self, place, bi, pos, depth=0, seen=None):
        if depth > DEPTH_LIMIT:
            DEEP_CUTS[0] += 1
            return ("deep",)
        up = self.upvar_name(place)
        if up is not None:
            base = ("param", up[0])
            return self._project(base, up[1], bi, pos, depth, seen)
        l = place["l"]
        proj = place["p"]
        if (proj or self._local_adt(l)) and self._mut_borrowed(l) and self.body.local_name(l):
            # a named local whose address escapes by `&mut`: its fields may be
            # rewritten by callees, so do not fold through its initialiser.  It is named
            # after its type (`~NodeQueue.extra`), not after the variable, so that renaming
            # the variable changes no term.
            return self._project(("param", self.escaped_name(l)), proj, bi, pos, depth, seen)
        base = self.origin_local(l, bi, pos, depth, seen)
        # partial definitions (`_x.f = v`) reaching here refine the field
        if proj:
            parts = []
            for d in self.body.defs.get(l, []):
                if d[3]["p"] and proj_eq(d[3]["p"], proj) and d[0] == "assign":
                    # only definitions that can execute before this use
                    if (d[1] == bi and d[2] is not None and d[2] < pos) or (d[1] != bi and self.can_reach(d[1], bi)) or (d[1] == bi and bi in self.reach(bi)):
                        parts.append(d)
            if parts:
                terms = [self.origin_rvalue(d[4], d[1], d[2], depth + 1, seen) for d in parts]
                terms.append(self._project(base, proj, bi, pos, depth, seen))
                return mkjoin(terms)
        return self._project(base, proj, bi, pos, depth, seen)

    def escaped_name(self, l):
        """name under which a user variable whose address escapes by `&mut` appears in terms: a
        parameter keeps its name — also when it was first moved out of the coroutine state into a
        local — anything else is named after its type (`~NodeQueue`)"""
        if 1 <= l <= self.body.arg_count:
            return self.body.local_name(l)
        ds = [d for d in self.body.defs.get(l, []) if not d[3]["p"]]
        if len(ds) == 1 and ds[0][0] == "assign" and ds[0][4]["k"] == "use":
            src = op_place(ds[0][4]["op"])
            if src is not None:
                up = self.upvar_name(src)
                if up is not None and not up[1]:
                    return up[0]
        return self.type_name(l)

    def type_name(self, l):
        ty = self.body.local_ty(l)
        ty = re.sub(r"^(&mut |&)+", "", ty)
        ty = re.sub(r"<.*$", "", ty)
        return "~" + ty.split("::")[-1]

    def _local_adt(self, l):
        """is local l a struct / enum of the analysed crate held by value?  (a whole-value read of such
        a variable whose address escaped by `&mut` — e.g. moving it into a helper — is as opaque as
        a read of one of its fields)"""
        ty = re.sub(r"<.*$", "", self.body.local_ty(l))
        return ty in FnA.local_adts and bool(self.body.locals[l].get("user"))

    def _mut_borrowed(self, l):
        if not hasattr(self, "_mb"):
            self._mb = set()
            for b in self.live():
                for st in b.stmts:
                    if st["k"] == "assign" and st["rv"]["k"] == "ref" and st["rv"]["mut"] and not st["rv"]["place"]["p"]:
                        self._mb.add(st["rv"]["place"]["l"])
        return l in self._mb

    def _project(self, base, proj, bi, pos, depth, seen):
        t = base
        for e in proj:
            if e == "*":
                continue  # references are transparent
            if isinstance(e, str):
                continue
            if "f" in e:
                if t[0] == "call" and len(t) == 4:
                    # a field of what a constructor-like function returns (`..Self::new_x(a, b)`):
                    # read it off the function's summary — the call site itself stays a call site
                    sm = self._summary(t[2], allow_anchor=True)
                    if sm is not None and len(sm[0]) == len(t[3]):
                        t = project_field(subst_params(sm[1], dict(zip(sm[0], t[3]))), e["n"])
                        continue
                t = project_field(t, e["n"])
            elif "d" in e:
                t = ("variant", t, e["n"])
            elif "i" in e:
                idx = self.origin_local(e["i"], bi, pos, depth + 1, seen)
                t = ("index", t, idx)
            elif "ci" in e:
                t = ("index", t, ("lit", (-1 - e["ci"]) if e["from_end"] else e["ci"]))
            elif "sub" in e:
                t = ("subslice", t, e["sub"], e["to"], e["from_end"])
        return t

    def origin_local(self, l, bi, pos, depth=0, seen=None):
        key = (l, bi, pos)
        if key in self._origin_cache:
            return self._origin_cache[key]
        if seen is None:
            seen = frozenset()
        if (l, bi, pos) in seen:
            return ("cycle", l)
        seen = seen | {(l, bi, pos)}
        body = self.body
        rds = self.reaching_defs(l, bi, pos)
        if not rds:
            nm = body.local_name(l)
            if 1 <= l <= body.arg_count:
                t = ("param", nm or ("arg%d" % l))
            else:
                t = ("undef", l)
            self._origin_cache[key] = t
            return t
        terms = []
        for d in rds:
            kind, dbi, dsi, dplace, payload = d
            if kind == "assign":
                terms.append(self.origin_rvalue(payload, dbi, dsi, depth + 1, seen))
            elif kind == "call":
                terms.append(self.origin_call(dbi, payload, depth + 1, seen))
            elif kind == "yield":
                terms.append(("resume",))
            else:
                terms.append(("unknown",))
        if 1 <= l <= body.arg_count and self.entry_value_reaches(l, bi, pos):
            # a parameter that the body also assigns (`mut length: u64`): its incoming value is one
            # of the alternatives wherever no assignment intervenes
            terms.append(("param", body.local_name(l) or ("arg%d" % l)))
        t = mkjoin(terms)
        # a term cut off by the depth limit is only as deep as the query that happened to reach it
        # first: caching it would make the answer to a shallow query depend on evaluation order
        if not has_cycle(t) and (depth == 0 or not has_tag(t, "deep")):
            self._origin_cache[key] = t
        return t

    def origin_operand(self, o, bi, pos, depth=0, seen=None):
        if "k" in o:
            k = o["k"]
            if "fn" in k:
                return ("fn", k["fn"])
            if "def" in k:
                return ("const", k["def"])
            if "v" in k:
                return ("lit", k["v"])
            if "static" in k:
                # the address of a `static` item (a read of it is a deref of this constant)
                return ("const", k["static"])
            return ("litrepr", k.get("repr", k["ty"]))
        p = op_place(o)
        if p is None:
            return ("unknown",)
        return self.origin_place(p, bi, pos, depth, seen)

    def origin_rvalue(self, rv, bi, si, depth=0, seen=None):
        k = rv["k"]
        if k == "use":
            return self.origin_operand(rv["op"], bi, si, depth, seen)
        if k in ("ref", "copyderef", "rawptr"):
            return self.origin_place(rv["place"], bi, si, depth, seen)
        if k == "cast":
            inner = self.origin_operand(rv["op"], bi, si, depth, seen)
            if rv["ck"].startswith("PointerCoercion") or rv["ck"] in ("PtrToPtr", "Transmute"):
                return inner
            return ("cast", inner, rv["ty"])
        if k == "bin":
            return ("bin", rv["op"], self.origin_operand(rv["l"], bi, si, depth, seen), self.origin_operand(rv["r"], bi, si, depth, seen))
        if k == "un":
            x = self.origin_operand(rv["x"], bi, si, depth, seen)
            if rv["op"] == "PtrMetadata":
                return ("len", x)
            return ("un", rv["op"], x)
        if k == "disc":
            return ("disc", self.origin_place(rv["place"], bi, si, depth, seen))
        if k == "agg":
            ops = [self.origin_operand(o, bi, si, depth, seen) for o in rv["ops"]]
            if rv["kind"] == "adt":
                # re-wrapping a payload in its own variant is the value itself: Some(x) where x is
                # the Some-payload of X  ==  X   (likewise Ok; an Err stays an Err aggregate so that error
                # values remain recognisable as such)
                if len(ops) == 1 and rv.get("name") in ("std::option::Option", "std::result::Result") and isinstance(ops[0], tuple) and len(ops[0]) == 2 \
                        and (rv["variant"], ops[0][0]) in (("Some", "some"), ("Ok", "ok")):
                    return ops[0][1]
                return ("agg", rv["name"], rv["variant"], tuple(zip(rv["fields"], ops)))
            if rv["kind"] in ("closure", "coroutine", "coroutine_closure"):
                return ("closure", rv["name"], tuple(ops))
            return ("agg", rv["kind"], "", tuple((str(i), o) for i, o in enumerate(ops)))
        if k == "repeat":
            return ("repeat", self.origin_operand(rv["op"], bi, si, depth, seen), rv["n"])
        return ("unknown",)

    def origin_call(self, bi, t, depth=0, seen=None):
        pos = len(self.blocks[bi].stmts)
        args = t["args"]
        callee = t.get("callee")
        if callee in TRANSPARENT or (callee and callee.replace("core::", "std::") in TRANSPARENT):
            if args:
                return self.origin_operand(args[0], bi, pos, depth, seen)
        if callee == "std::iter::Iterator::map" and len(args) == 2 and "k" in args[1] and "fn" in args[1]["k"]:
            f = args[1]["k"]["fn"]
            if f in TRANSPARENT or f.replace("core::", "std::") in TRANSPARENT:
                return self.origin_operand(args[0], bi, pos, depth, seen)   # it.map(AsRef::as_ref) yields the items of it
        if callee in ("std::mem::size_of", "core::mem::size_of") and t.get("gargs"):
            sz = {"u8": 1, "i8": 1, "u16": 2, "i16": 2, "u32": 4, "i32": 4, "u64": 8, "i64": 8, "usize": 8, "isize": 8, "u128": 16, "i128": 16}.get(t["gargs"][0])
            if sz is not None:
                return ("lit", sz)   # 64-bit target, as built
        if callee in LEN_CALLEES and args:
            return ("len", self.origin_operand(args[0], bi, pos, depth, seen))
        if callee in POLL:
            return ("poll", self.origin_operand(args[0], bi, pos, depth, seen))
        if callee in BRANCH:
            return ("branch", self.origin_operand(args[0], bi, pos, depth, seen), bi)
        if callee in FROM_RESIDUAL and args:
            # what `?` returns on failure: Err(From::from(e)) with e the error of the tested value (the
            # From conversion is transparent, like map_err) — for an opaque tested value x this is x
            # itself; for Option it is None
            if (t.get("dest_ty") or "").startswith("std::option::Option<"):
                return ("agg", "std::option::Option", "None", ())
            e = self.origin_operand(args[0], bi, pos, depth, seen)
            return ("agg", "std::result::Result", "Err", (("0", e),))
        if callee == "std::boxed::box_assume_init_into_vec_unsafe" and args:
            v = self._vec_macro_contents(args[0], bi, pos, depth, seen)
            if v is not None:
                return v
        at = tuple(self.origin_operand(a, bi, pos, depth, seen) for a in args)
        c = callee_of(t)
        s = self._summary(c)
        if s is not None:
            names, ret = s
            if len(names) == len(at):
                return subst_params(ret, dict(zip(names, at)))
        return ("call", bi, c, at)

    resolver = None  # set by the engine: callee name -> FnA (crate-local bodies)
    local_adts = frozenset()  # set by the engine: names of the analysed crate's own structs / enums
    _summaries = {}

    def _summary(self, callee, allow_anchor=False):
        """(param names, return term) of a trivial crate-local function: straight-line, no calls
        other than transparent ones, returning a value built only from its parameters —
        e.g. a constructor `fn new(a, b) -> Self { Self { a, b } }`.  Lets provenance terms
        see through small helpers so that extracting one does not change a verdict."""
        if FnA.resolver is None or callee is None:
            return None
        ck = (callee, allow_anchor)
        if ck in FnA._summaries:
            return FnA._summaries[ck]
        FnA._summaries[ck] = None
        fa = FnA.resolver(callee)
        if fa is None or fa is self or fa.body.is_coroutine or len(fa.nodes) > 6 or (callee in NO_SUMMARY and not allow_anchor):
            return None
        for n, t in fa.calls():
            cal = t.get("callee")
            if not (cal in TRANSPARENT or (cal or "").replace("core::", "std::") in TRANSPARENT):
                return None
        if any(fa.blocks[n].term["k"] in ("switch", "assert", "yield") for n in fa.nodes):
            return None
        if len(fa.returns) != 1:
            return None
        r = fa.returns[0]
        ret = fa.origin_local(0, r, len(fa.blocks[r].stmts))
        names = [fa.body.local_name(i + 1) or ("arg%d" % (i + 1)) for i in range(fa.body.arg_count)]
        ok = True
        for s_ in subterms(ret):
            if isinstance(s_, tuple) and s_ and s_[0] in ("undef", "cycle", "unknown", "deep", "resume", "call"):
                ok = False
            if isinstance(s_, tuple) and s_ and s_[0] == "param" and s_[1] not in names:
                ok = False
        if not ok or ret[0] != "agg":
            return None  # only constructor-like helpers
        FnA._summaries[ck] = (names, ret)
        return FnA._summaries[ck]

    def _vec_macro_contents(self, arg, bi, pos, depth, seen):
        """`vec![a, b]` expands to Box::new_uninit(); (*box).. = [a, b];
        box_assume_init_into_vec_unsafe(box): return the array aggregate."""
        p = op_place(arg)
        if p is None or p["p"]:
            return None
        l = p["l"]
        for _ in range(6):
            ds = [d for d in self.body.defs.get(l, []) if not d[3]["p"]]
            if len(ds) != 1:
                return None
            d = ds[0]
            if d[0] == "assign" and d[4]["k"] == "use" and op_place(d[4]["op"]) is not None and not op_place(d[4]["op"])["p"]:
                l = op_place(d[4]["op"])["l"]
                continue
            if d[0] == "call":
                break
            return None
        for d in self.body.defs.get(l, []):
            if d[0] == "assign" and d[3]["p"] and d[3]["p"][0] == "*" and d[4]["k"] == "agg":
                return self.origin_rvalue(d[4], d[1], d[2], depth + 1, seen)
        return None

    def arg_origin(self, bi, i):
        """origin of the i-th argument of the call terminating block bi."""
        t = self.blocks[bi].term
        return self.origin_operand(t["args"][i], bi, len(self.blocks[bi].stmts))

    def dest_uses_root(self, bi):
        return ("call", bi)


# functions that rules anchor on as call sites: never inlined
NO_SUMMARY = set()


def subst_params(t, m):
    if not isinstance(t, tuple) or not t:
        return t
    if t[0] == "param" and len(t) == 2 and t[1] in m:
        return m[t[1]]
    if t[0] == "field" and len(t) == 3:
        return project_field(subst_params(t[1], m), t[2])
    return tuple(subst_params(x, m) if isinstance(x, tuple) else x for x in t)


def pred_to_succ(pred, nodes):
    succ = defaultdict(list)
    for n, ps in pred.items():
        for p in ps:
            succ[p].append(n)
    return succ


def proj_eq(a, b):
    if len(a) != len(b):
        return False
    for x, y in zip(a, b):
        if x == "*" or y == "*" or isinstance(x, str) or isinstance(y, str):
            if x != y:
                return False
            continue
        if "f" in x and "f" in y:
            if x["f"] != y["f"]:
                return False
        elif "d" in x and "d" in y:
            if x["d"] != y["d"]:
                return False
        elif x != y:
            return False
    return True


def mkjoin(terms):
    flat = []
    live = [t for t in terms if t != ("never",)]
    if not live:
        return ("never",)
    for t in live:
        if t[0] == "join":
            for x in t[1]:
                if x not in flat:
                    flat.append(x)
        elif t not in flat:
            flat.append(t)
    if len(flat) == 1:
        return flat[0]
    return ("join", tuple(flat))


# origin terms are cut off ("deep") beyond this nesting of definitions; large enough that no
# function of the analysed crate reaches it (the evidence reports how many terms were cut)
DEPTH_LIMIT = 150
import sys as _sys
_sys.setrecursionlimit(max(_sys.getrecursionlimit(), 20000))
DEEP_CUTS = [0]


def has_tag(t, tag):
    if not isinstance(t, tuple):
        return False
    if t and t[0] == tag:
        return True
    return any(has_tag(x, tag) for x in t if isinstance(x, tuple))


def has_cycle(t):
    if not isinstance(t, tuple):
        return False
    if t and t[0] == "cycle":
        return True
    return any(has_cycle(x) for x in t if isinstance(x, tuple))


def project_field(t, name):
    """field projection with aggregate folding and protocol wrappers."""
    if t[0] == "agg":
        for f, o in t[3]:
            if f == name:
                return o
    if t[0] == "variant":
        inner, v = t[1], t[2]
        if inner[0] == "join":
            # members built as a different variant cannot be downcast to v
            ms = [m for m in inner[1] if not (m[0] == "agg" and m[2] != v)]
            if ms:
                return mkjoin([project_field(("variant", m, v), name) for m in ms])
        if inner[0] == "agg" and inner[2] == v:
            for f, o in inner[3]:
                if f == name:
                    return o
        if name == "0":
            if inner[0] == "poll" and v == "Ready":
                return ("await", inner[1])
            if inner[0] == "branch" and v == "Continue":
                return wrap_payload("ok", inner[1])
            if inner[0] == "branch" and v == "Break":
                return wrap_payload("err", inner[1])
            if v == "Ok":
                return wrap_payload("ok", inner)
            if v == "Err":
                return wrap_payload("err", inner)
            if v == "Some":
                return wrap_payload("some", inner)
            if inner[0] == "agg" and inner[2] == v:
                for f, o in inner[3]:
                    if f == name:
                        return o
    if t[0] == "join":
        return mkjoin([project_field(x, name) for x in t[1]])
    return ("field", t, name)


_PAYLOAD_OF = {"ok": "Ok", "err": "Err", "some": "Some"}


def wrap_payload(kind, t):
    """payload of the Ok / Err / Some variant of t; folds through an aggregate that built t
    (`Ok(x)` -> x) and drops join members built as the other variant (they cannot be
    downcast): ("never",) if no member can"""
    if t[0] == "join":
        return mkjoin([wrap_payload(kind, x) for x in t[1]])
    if t[0] == "agg" and t[2] in ("Ok", "Err", "Some", "None") and t[1] in ("std::result::Result", "std::option::Option"):
        if t[2] == _PAYLOAD_OF[kind]:
            for f, o in t[3]:
                if f == "0":
                    return o
        return ("never",)
    if t[0] == "never":
        return t
    if t[0] == "call" and len(t) == 4 and t[2] in FROM_RESIDUAL and kind in ("ok", "some"):
        return ("never",)   # `?`'s from_residual only ever builds the Err / None variant
    return (kind, t)


WRAPPERS = ("await", "ok", "some", "cast")


def strip(t):
    """remove protocol wrappers (await / ok / some) to reach the producing term."""
    while isinstance(t, tuple) and t and t[0] in WRAPPERS:
        t = t[1]
    return t


def roots(t):
    """set of producing terms of t after stripping wrappers, through joins."""
    t = strip(t)
    if t[0] == "join":
        out = []
        for x in t[1]:
            out.extend(roots(x))
        return out
    return [t]


def term_sig(t):
    """rendering without block numbers: comparable across functions"""
    return re.sub(r"@bb\d+", "", term_str(t))


def term_str(t):
    if not isinstance(t, tuple):
        return str(t)
    k = t[0]
    if k == "param":
        return t[1]
    if k == "field":
        return "%s.%s" % (term_str(t[1]), t[2])
    if k == "const":
        return t[1].split("::")[-1]
    if k == "lit":
        return str(t[1])
    if k == "call":
        return "%s@bb%d(%s)" % (t[2].split("::")[-1] if "::" in t[2] else t[2], t[1], ", ".join(term_str(a) for a in t[3]))
    if k == "bin":
        return "%s(%s, %s)" % (t[1], term_str(t[2]), term_str(t[3]))
    if k == "un":
        return "%s(%s)" % (t[1], term_str(t[2]))
    if k == "len":
        return "len(%s)" % term_str(t[1])
    if k in ("await", "ok", "err", "some", "poll", "disc"):
        return "%s(%s)" % (k, term_str(t[1]))
    if k == "branch":
        return "branch(%s)" % term_str(t[1])
    if k == "cast":
        return "(%s as %s)" % (term_str(t[1]), t[2])
    if k == "variant":
        return "(%s as %s)" % (term_str(t[1]), t[2])
    if k == "index":
        return "%s[%s]" % (term_str(t[1]), term_str(t[2]))
    if k == "join":
        return "join(%s)" % " | ".join(term_str(x) for x in t[1])
    if k == "agg":
        return "%s::%s{%s}" % (t[1].split("::")[-1], t[2], ", ".join("%s: %s" % (f, term_str(o)) for f, o in t[3]))
    if k == "closure":
        return "closure(%s)" % t[1]
    return "%s%s" % (k, list(t[1:]))


def contains(t, pred):
    """does any subterm satisfy pred?"""
    for s in subterms(t):
        if pred(s):
            return True
    return False


def subterms(t):
    """all term nodes of t (a node is a tuple whose first element is a str tag;
    argument lists and (field, term) pairs are containers)."""
    if not isinstance(t, tuple) or not t:
        return
    if isinstance(t[0], str) and not (len(t) == 2 and isinstance(t[1], tuple) and t[0] not in TAGS):
        yield t
        rest = t[1:]
    else:
        rest = t
    for x in rest:
        if isinstance(x, tuple):
            yield from subterms(x)


TAGS = {"param", "field", "const", "lit", "litrepr", "fn", "call", "bin", "un", "len", "await", "ok", "err", "some", "poll", "disc",
        "branch", "cast", "variant", "index", "subslice", "join", "agg", "closure", "repeat", "undef", "cycle", "deep", "unknown", "resume", "never"}
