"""Codec sequence extraction: the ordered byte-shape classes a CompactEncoding
function produces / consumes (DESIGN.md section 4, `seq`)."""
import re
from .engine import *
from .analysis import term_str, strip, roots, subterms, callee_of, BRANCH, POLL

CE = "compact_encoding::CompactEncoding"
CE_METHODS = {CE + "::encoded_size": "size", CE + "::encode": "encode", CE + "::decode": "decode"}
VEC_METHODS = {"vec_encoded_size": "size", "vec_encode": "encode", "vec_decode": "decode"}


def classify_type(ty, local_types):
    t = ty.strip()
    while t.startswith("&"):
        t = t[1:].strip()
        if t.startswith("mut "):
            t = t[4:].strip()
    if t in ("u64", "usize", "u32", "u16", "u8"):
        return ("varint", t)
    if t in ("std::vec::Vec<u8>", "std::boxed::Box<[u8]>", "[u8]"):
        return ("bytes",)
    m = re.match(r"^\[u8; (\d+)\]$", t)
    if m:
        return ("fixed", int(m.group(1)))
    m = re.match(r"^compact_encoding::FixedWidthUint<'_, u(\d+)>$", t)
    if m:
        return ("fixedle", int(m.group(1)) // 8)
    m = re.match(r"^std::vec::Vec<(.+)>$", t)
    if m:
        inner = m.group(1)
        if inner == "std::string::String":
            return ("seq", "string")
        c = classify_type(inner, local_types)
        return ("seq",) + c[1:] if c[0] == "nested" else ("seq", inner)
    if t in local_types:
        return ("nested", local_types[t])
    return ("unclassified", t)


def self_type_of(callee_full):
    m = re.match(r"^<(.+) as compact_encoding::CompactEncoding(?:<.*>)?>::\w+$", callee_full or "")
    return m.group(1) if m else None


def rpo_index(fa):
    order = fa._rpo(0, fa.succ)
    return {b: i for i, b in enumerate(order)}


def guards_of(fa, bi):
    """controlling conditions of block bi: [(switch bb, discr term, edge label)]
    for switches (not `?`/await protocol switches) one of whose edges dominates bi
    while the switch's other edges do not."""
    out = []
    for b in fa.live():
        t = b.term
        if t["k"] != "switch":
            continue
        o = fa.origin_operand(t["discr"], b.i, len(b.stmts))
        if o[0] == "disc" and o[1][0] in ("branch", "poll"):
            continue
        edges = [(v, x) for v, x in t["targets"]] + [("otherwise", t["otherwise"])]
        doms = [(v, x) for v, x in edges if x in fa.succ and fa.dominates(x, bi) and x != bi or (x == bi)]
        if len(doms) == 1 and len(set(x for _, x in edges)) > 1:
            out.append((b.i, o, doms[0][0]))
    # innermost last
    out.sort(key=lambda g: len(fa.dom[g[0]]))
    return out


def mask_of_guard(g):
    """if the guard is `flags & K != 0` (true edge) return K"""
    _, o, edge = g
    neg = False
    while o[0] == "un" and o[1] == "Not":
        o = o[2]
        neg = not neg
    if o[0] == "bin" and o[1] in ("Ne", "Eq") and strip(o[2])[0] == "bin" and strip(o[2])[1] == "BitAnd":
        k = strip(strip(o[2])[3])
        if k[0] == "lit":
            rhs = strip(o[3])
            if rhs[0] != "lit":
                return None
            truth = (edge != 0)
            if neg:
                truth = not truth
            # Ne(x & K, 0) true  or  Eq(x & K, K) true ...
            if o[1] == "Ne" and rhs[1] == 0 and truth:
                return k[1]
            if o[1] == "Eq" and rhs[1] == 0 and not truth:
                return k[1]
            if o[1] == "Eq" and rhs[1] == k[1] and truth:
                return k[1]
            if o[1] == "Ne" and rhs[1] == k[1] and not truth:
                return k[1]
            return ("mask-with-unexpected-polarity", k[1])
    return None


class Elem:
    def __init__(self, site, cls, field, kind, ty):
        self.site = site
        self.cls = cls
        self.field = field
        self.kind = kind
        self.ty = ty
        self.guards = []
        self.mask = None

    def __repr__(self):
        return "%s:%s%s" % (self.field, self.cls, (" mask=%s" % (self.mask,)) if self.mask is not None else "")


def local_codec_types(ctx):
    """self types of local CompactEncoding impls: {type string: short name}"""
    out = {}
    for b in ctx.crate.all_bodies():
        if b.kind == "AssocFn" and b.j.get("impl_trait") == CE:
            st = b.j["impl_self"]
            out[st] = st.split("::")[-1]
    # re-exported spellings used in callee_full
    extra = {}
    for k, v in out.items():
        parts = k.split("::")
        if len(parts) > 2:
            extra[parts[0] + "::" + parts[-1]] = v
    out.update(extra)
    return out


def codec_fns(ctx):
    """{short type name: {'size'|'encode'|'decode': FnA}}"""
    out = {}
    for b in ctx.crate.all_bodies():
        if b.kind == "AssocFn" and b.j.get("impl_trait") == CE:
            nm = b.j["impl_self"].split("::")[-1]
            m = b.name.split("::")[-1]
            key = {"encoded_size": "size", "encode": "encode", "decode": "decode"}.get(m)
            if key:
                out.setdefault(nm, {})[key] = ctx.fa(b)
    return out


def field_of_term(term):
    ps = sorted(p for p in term_paths(term) if p.startswith("self."))
    if ps:
        return ps[0].split(".", 1)[1]
    return None


def seq(ctx, fa):
    """ordered codec elements of a body"""
    lt = local_codec_types(ctx)
    idx = rpo_index(fa)
    elems = []
    for s, t in sorted(fa.calls(), key=lambda x: idx.get(x[0], 1 << 30)):
        c = t.get("callee") or ""
        full = t.get("callee_full") or ""
        e = None
        if c in CE_METHODS:
            st = self_type_of(full)
            cls = classify_type(st or "?", lt)
            fld = field_of_term(fa.arg_origin(s, 0)) if CE_METHODS[c] != "decode" else None
            e = Elem(s, cls, fld, CE_METHODS[c], st)
        elif c.startswith("compact_encoding::VecEncodable::vec_") and c.split("::")[-1] in VEC_METHODS:
            # `T::vec_encode(slice, buf)` called directly is what `<Vec<T> as CompactEncoding>::encode` dispatches to
            m = re.match(r"^<(.+) as compact_encoding::VecEncodable>::\w+$", full)
            st = "std::vec::Vec<%s>" % m.group(1) if m else None
            cls = classify_type(st or "?", lt)
            kind = VEC_METHODS[c.split("::")[-1]]
            fld = field_of_term(fa.arg_origin(s, 0)) if kind != "decode" else None
            e = Elem(s, cls, fld, kind, st)
        elif c in ("compact_encoding::take_array", "compact_encoding::take_array_mut"):
            n = int(t["gargs"][0]) if t.get("gargs") and t["gargs"][0].isdigit() else None
            e = Elem(s, ("fixed", n), None, "take", "[u8; %s]" % n)
        elif c == "compact_encoding::write_array":
            cls = classify_type(t["arg_tys"][0], lt)
            e = Elem(s, cls, field_of_term(fa.arg_origin(s, 0)), "write", t["arg_tys"][0])
        elif c == "compact_encoding::encode_bytes_fixed":
            cls = classify_type(t["arg_tys"][0], lt)
            e = Elem(s, cls, field_of_term(fa.arg_origin(s, 0)), "write", t["arg_tys"][0])
        elif c == "compact_encoding::write_slice":
            o = strip(fa.arg_origin(s, 0))
            n = len(o[3]) if o[0] == "agg" and o[1] == "array" else None
            if n is None:
                m = re.match(r"^&\[u8; (\d+)\]$", t["arg_tys"][0])
                n = int(m.group(1)) if m else None
            e = Elem(s, ("fixed", n), field_of_term(fa.arg_origin(s, 0)), "write", t["arg_tys"][0])
        elif c in ("compact_encoding::decode_usize", "compact_encoding::encoded_size_usize", "compact_encoding::encode_usize"):
            e = Elem(s, ("lenprefix",), None, "len", "usize")
        if e is not None:
            e.guards = guards_of(fa, s)
            for g in reversed(e.guards):
                m = mask_of_guard(g)
                if m is not None:
                    e.mask = m
                    break
            elems.append(e)
    return elems


def bitor_flags(fa):
    """statements `x = BitOr(x, lit K)`: [(bb, si, K)]"""
    out = []
    for b in fa.live():
        for si, st in enumerate(b.stmts):
            if st["k"] == "assign" and st["rv"]["k"] == "bin" and st["rv"]["op"] == "BitOr":
                for side in ("l", "r"):
                    o = st["rv"][side]
                    if "k" in o and "v" in o["k"]:
                        out.append((b.i, si, o["k"]["v"]))
    return out


def literal_addends(fa):
    """non-zero literal operands of additions in a size function"""
    out = []
    for b in fa.live():
        for st in b.stmts:
            if st["k"] == "assign" and st["rv"]["k"] == "bin" and st["rv"]["op"] in ("Add", "AddWithOverflow"):
                for side in ("l", "r"):
                    o = st["rv"][side]
                    if "k" in o and "v" in o["k"] and o["k"]["v"] != 0:
                        out.append(o["k"]["v"])
                    elif "k" in o and "def" in o["k"]:
                        out.append(("const", o["k"]["def"]))
    # an initial `let mut out = 1`
    for b in fa.live():
        for st in b.stmts:
            if st["k"] == "assign" and st["rv"]["k"] == "use" and "k" in st["rv"]["op"] and "v" in st["rv"]["op"]["k"] and not st["place"]["p"]:
                nm = fa.body.local_name(st["place"]["l"])
                if nm and fa.body.local_ty(st["place"]["l"]) == "usize" and st["rv"]["op"]["k"]["v"] != 0 and st["rv"]["op"]["k"]["ty"] == "usize":
                    out.append(st["rv"]["op"]["k"]["v"])
    return out


def decode_field_map(ctx, fa, elems):
    """for a decode fn: {struct field: index of the element whose value flows
    into it}; also returns the constructed type name"""
    rets = [t for _, _, t in ok_returns(fa)]
    out = {}
    tyname = None
    for t in rets:
        payload = agg_field(t, "0")
        if not (is_agg(payload) and payload[1] == "tuple"):
            continue
        val = agg_field(payload, "0")
        fields = None
        if is_agg(val):
            tyname = val[1]
            fields = list(val[3])
        else:
            v = strip(val)
            if v[0] == "call":
                callee = v[2]
                cb = ctx.crate.body(callee)
                if cb is not None:
                    tyname = callee
                    names = [cb.local_name(i + 1) or ("arg%d" % i) for i in range(cb.arg_count)]
                    fields = list(zip(names, v[3]))
        if not fields:
            continue
        for f, ft in fields:
            hit = None
            for i, e in enumerate(elems):
                for s_ in subterms(ft):
                    if isinstance(s_, tuple) and len(s_) == 4 and s_[0] == "call" and s_[1] == e.site:
                        hit = i
            out[f] = hit
    return out, tyname
