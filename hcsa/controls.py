"""Positive controls: the zero-expected rules must fire on /verif/controls."""
import os
from .facts import Crate
from .engine import Ctx

ROOT = os.path.dirname(os.path.dirname(os.path.abspath(__file__)))
_cache = {}


def _ctx(extract):
    if "ctx" not in _cache:
        path = extract("controls", repo=os.path.join(ROOT, "controls"), crate="hcsa_controls", target=os.path.join(ROOT, ".cache", "target-controls"))
        crate = Crate(path)
        os.unlink(path)
        _cache["ctx_crate"] = crate
    return Ctx(_cache["ctx_crate"], "controls")


def _fired(ctx, rule, needle):
    for i in ctx.insts:
        if i.verdict == "fail" and i.rule == rule and (needle in i.anchor or needle in i.why or any(needle in s for s in i.sites) or needle in i.key):
            return True
    return False


def c10_result_dropped(ctx):
    from .rules import c10
    c10.r1(ctx)
    return _fired(ctx, "C10.R1", "ctl_result_dropped") and _fired(ctx, "C10.R1", "ctl_result_discarded"), "C10.R1 on ctl_result_dropped / ctl_result_discarded"


def c10_future_not_awaited(ctx):
    from .rules import c10
    c10.r1(ctx)
    return _fired(ctx, "C10.R2", "ctl_future_not_awaited"), "C10.R2 on ctl_future_not_awaited"


def c10_continues_after_error(ctx):
    from .rules import c10
    c10.r3(ctx)
    return _fired(ctx, "C10.R3", "flush_infos"), "C10.R3 on storage::Storage::flush_infos (storage I/O on the error arm)"


def c12_secret_exported_elsewhere(ctx):
    from .rules import c12
    c12.r4(ctx)
    return _fired(ctx, "C12.R4", "ctl_secret_exported"), "C12.R4 on crypto::ctl_secret_exported"


def c13_send_outside_owner(ctx):
    from .rules import c13
    c13.r1(ctx)
    return _fired(ctx, "C13.R1", "core::Hypercore::clear"), "C13.R1 on core::Hypercore::clear sending an event"


def c15_double_lock(ctx):
    from .rules import c15
    c15.r1(ctx)
    return _fired(ctx, "C15.R1", "ctl_double_lock"), "C15.R1 on SharedCore::ctl_double_lock"


def c15_lock_in_loop(ctx):
    from .rules import c15
    c15.r1(ctx)
    return _fired(ctx, "C15.R1", "ctl_lock_in_loop|lock in loop"), "C15.R1 on SharedCore::ctl_lock_in_loop"


def c09_unguarded_index(ctx):
    from .rules import c09
    c09.panic_rule(ctx, "C09", "C09.R1", ["peer::ctl_unguarded_index", "peer::ctl_unguarded_last"])
    return _fired(ctx, "C09.R1", "ctl_unguarded_index") and _fired(ctx, "C09.R1", "ctl_unguarded_last"), "C09.R1 on peer::ctl_unguarded_index / ctl_unguarded_last"


def c09_loop_cannot_exit(ctx):
    from .rules import c09
    c09.loops_can_exit(ctx, "C09", "C09.R3", ["peer::ctl_loop_cannot_exit", "peer::ctl_unguarded_index"])
    fired = _fired(ctx, "C09.R3", "ctl_loop_cannot_exit")
    quiet = not _fired(ctx, "C09.R3", "ctl_unguarded_index")
    return fired and quiet, "C09.R3 on peer::ctl_loop_cannot_exit (and silent on an ordinary for loop)"


def c14_cache_insert_elsewhere(ctx):
    from .rules import c14
    c14.r1(ctx)
    return _fired(ctx, "C14.R1", "ctl_cache_changeset_node"), "C14.R1 on tree::ctl_cache_changeset_node"


def run(names, extract):
    out = []
    for n in names:
        ctx = _ctx(extract)
        try:
            fired, what = globals()[n](ctx)
            out.append({"name": n, "fired": bool(fired), "why": what})
        except Exception as e:
            import traceback
            out.append({"name": n, "fired": False, "why": "control raised %r %s" % (e, traceback.format_exc()[-800:])})
    return out
