import sys
from .facts import Crate
c = Crate(sys.argv[1])
pat = sys.argv[2]
for b in c.all_bodies():
    if pat in b.name:
        if len(sys.argv) > 3 and sys.argv[3] == "-l":
            print(b.name, len(b.blocks))
        else:
            print(b.dump())
            print()
