"""Rule engine helpers: function groups, call sites, checked(), before(),
lvalue paths, result collection."""
import time
from .facts import Crate, op_place, place_str
from .analysis import (
    FnA,
    BRANCH,
    FROM_RESIDUAL,
    callee_of,
    roots,
    strip,
    term_str,
    subterms,
    contains,
)


class Inst:
    """one evaluated rule instance"""

    def __init__(self, prop, rule, anchor, verdict, why, sites=None, key=None, assumed=False):
        self.prop = prop
        self.rule = rule
        self.anchor = anchor
        self.verdict = verdict  # 'pass' | 'fail' | 'anchor-missing'
        self.why = why
        self.sites = sites or []
        self.key = key or "%s|%s|%s" % (prop, rule, anchor)
        self.assumed = assumed

    def to_json(self):
        return {
            "property": self.prop,
            "rule": self.rule,
            "anchor": self.anchor,
            "verdict": self.verdict,
            "why": self.why,
            "sites": self.sites,
            "key": self.key,
            "assumed": self.assumed,
        }


class Ctx:
    def __init__(self, crate, config="all"):
        self.crate = crate
        self.config = config
        self._fa = {}
        FnA._summaries = {}
        from .rules import names as _n
        import hcsa.analysis as _a
        _a.NO_SUMMARY.update(v for v in vars(_n).values() if isinstance(v, str))
        _a.NO_SUMMARY.update(x for v in vars(_n).values() if isinstance(v, tuple) for x in v if isinstance(x, str))
        FnA.resolver = lambda name, self=self: (self.fa(self.crate.body(name)) if self.crate.body(name) is not None and self.crate.body(name).kind in ("Fn", "AssocFn") else None)
        FnA.local_adts = frozenset(crate.adts.keys())
        self.insts = []
        self.t0 = time.time()

    # -------------------------------------------------------------- results
    def ok(self, prop, rule, anchor, why, sites=None, assumed=False):
        self.insts.append(Inst(prop, rule, anchor, "pass", why, sites, assumed=assumed))

    def fail(self, prop, rule, anchor, why, sites=None, key=None):
        self.insts.append(Inst(prop, rule, anchor, "fail", why, sites, key=key))

    def missing(self, prop, rule, anchor, why):
        self.insts.append(
            Inst(prop, rule, anchor, "anchor-missing", "ANCHOR-MISSING: " + why, key="%s|%s|%s|ANCHOR-MISSING" % (prop, rule, anchor))
        )

    def check(self, prop, rule, anchor, cond, why_ok, why_fail, sites=None, key=None):
        if cond:
            self.ok(prop, rule, anchor, why_ok, sites)
        else:
            self.fail(prop, rule, anchor, why_fail, sites, key=key)
        return bool(cond)

    # -------------------------------------------------------------- bodies
    def fa(self, body):
        k = id(body)
        if k not in self._fa:
            self._fa[k] = FnA(body)
        return self._fa[k]

    def fn(self, name):
        b = self.crate.body(name)
        return self.fa(b) if b is not None else None

    def real_body(self, fn_name, anchors=()):
        """the body of fn_name's group that contains calls to all `anchors`
        (resolved-callee names); with no anchors the body with most calls."""
        best = None
        for b in self.crate.group(fn_name):
            fa = self.fa(b)
            cs = [callee_of(t) for _, t in fa.calls()]
            cs2 = [t.get("callee") for _, t in fa.calls()]
            if all((a in cs or a in cs2) for a in anchors):
                score = len(cs)
                if best is None or score > best[0]:
                    best = (score, fa)
        return best[1] if best else None

    def all_fas(self):
        for b in self.crate.all_bodies():
            yield self.fa(b)


# ---------------------------------------------------------------- call sites
def sites(fa, name):
    """blocks whose terminator calls `name` (resolved impl or as written)."""
    out = []
    for n, t in fa.calls():
        if t.get("resolved") == name or t.get("callee") == name:
            out.append(n)
    return out


def sites_any(fa, names):
    out = []
    for n, t in fa.calls():
        if t.get("resolved") in names or t.get("callee") in names:
            out.append(n)
    return out


def loc(fa, bi, pos=None):
    return fa.body.loc(bi, pos)


def site_desc(fa, bi):
    t = fa.blocks[bi].term
    if t["k"] == "call":
        return "%s call %s" % (loc(fa, bi), callee_of(t))
    return "%s %s" % (loc(fa, bi), t["k"])


def call_root_bb(term):
    """blocks of the call sites a term was produced by (through wrappers/joins)"""
    out = []
    for r in roots(term):
        if r[0] == "call":
            out.append(r[1])
    return out


def checked(fa, s):
    """if the result of call site s is checked — by `?`, or by an explicit match / if-let whose
    Err side returns an error — returns dict(branch=bb of Try::branch or None, ok=success
    successor, err=failure successor) else None."""
    c = _checked_q(fa, s)
    if c is not None:
        return c
    e = result_edges(fa, s, _explicit_only=True)
    if e is not None and e["err"] is not None and e["ok"] is not None:
        vals = [t for bb, _, t in ret_assigns(fa) if bb in fa.reach(e["err"], include_src=True)]
        # Err(e) with e the error payload of the call's own result folds to that result itself
        errs = [t for t in vals if is_agg(t, "Err") or (t[0] == "call" and t[2] in FROM_RESIDUAL) or s in call_root_bb(t)]
        if errs and not fa.can_reach(e["err"], e["ok"]) and e["err"] != e["ok"]:
            return {"branch": None, "ok": e["ok"], "err": e["err"]}
    # the (awaited) Result is itself the function's result: `return f().await;` / tail expression —
    # the caller sees the error, nothing else of this function runs after it
    for bb, pos, t in ret_assigns(fa):
        if s in call_root_bb(t) and all((r[0] == "call" and r[1] == s) or is_agg(r, "Err") for r in roots(t)):
            after = fa.reach(bb, include_src=True)
            if not any(fa.blocks[x].term["k"] == "call" and x != s and not _is_cleanup_call(fa.blocks[x].term) for x in after if x != bb or pos is not None):
                return {"branch": None, "ok": bb, "err": bb, "how": "returned"}
    return None


def _is_cleanup_call(t):
    return (t.get("callee") or "").startswith(("std::mem::drop", "core::mem::drop"))


def _checked_q(fa, s):
    for n, t in fa.calls():
        if t.get("callee") not in BRANCH:
            continue
        a = fa.arg_origin(n, 0)
        if s not in call_root_bb(a):
            continue
        tgt = t.get("target")
        if tgt is None:
            continue
        sw = fa.blocks[tgt].term
        if sw["k"] != "switch":
            continue
        m = {v: b for v, b in sw["targets"]}
        if 0 in m and 1 in m:
            return {"branch": n, "ok": m[0], "err": m[1]}
    return None


def err_returns_directly(fa, errbb, allowed_calls=()):
    """from errbb every path reaches Return, passing from_residual and no other
    call except drops / allowed; returns (bool, offending call sites)."""
    reach = fa.reach(errbb, include_src=True)
    bad = []
    saw_residual = False
    for n in reach:
        t = fa.blocks[n].term
        if t["k"] == "call":
            c = t.get("callee")
            if c in FROM_RESIDUAL:
                saw_residual = True
                continue
            if c in allowed_calls or callee_of(t) in allowed_calls:
                continue
            bad.append(n)
    loops_back = any(n in reach for n in fa.pred.get(errbb, []) if n in reach and False)
    ok = saw_residual and not bad and any(r in reach for r in fa.returns)
    return ok, bad


def before(fa, s1, s2):
    """s2 executes only after call s1 returned success (dom(okcont(s1), s2))."""
    c = checked(fa, s1)
    if c is None:
        return False
    return fa.dominates(c["ok"], s2)


def site_dominates(fa, a, b):
    """a, b: (bb, pos) with pos None meaning terminator"""
    (ab, ap), (bb, bp) = a, b
    if ab == bb:
        ap = 10**9 if ap is None else ap
        bp = 10**9 if bp is None else bp
        return ap <= bp
    return fa.dominates(ab, bb)


# ---------------------------------------------------------------- lvalues
def lvalue_term(fa, place, bi, pos):
    return fa.origin_place(place, bi, pos)


def path_of(term):
    """dotted path of a pure param/field term, else None"""
    t = term
    parts = []
    while True:
        if t[0] == "field":
            parts.append(t[2])
            t = t[1]
        elif t[0] == "param":
            parts.append(t[1])
            break
        elif t[0] in ("ok", "some", "await"):
            t = t[1]
        else:
            return None
    return ".".join(reversed(parts))


def lvalue_path(fa, place, bi, si):
    """dotted path of an assigned place: user variable name + fields for named
    locals, else the param/field path of its origin"""
    if place["p"] and fa.upvar_name(place) is None and fa.body.local_name(place["l"]):
        l = place["l"]
        # a named local that merely holds (a reborrow of) a parameter / captured variable — `self`
        # moved out of the coroutine state, the `self` of a spliced helper — is that parameter
        if not (1 <= l <= fa.body.arg_count) and not fa._mut_borrowed(l):
            alias = path_of(lvalue_term(fa, place, bi, si))
            if alias is not None:
                return alias
        parts = [fa.escaped_name(l)]
        for e in place["p"]:
            if isinstance(e, dict) and "f" in e:
                parts.append(e["n"])
            elif e == "*" or (isinstance(e, dict) and "d" in e):
                continue
            else:
                return None
        if len(parts) > 1:
            return ".".join(parts)
    return path_of(lvalue_term(fa, place, bi, si))


def assign_sites(fa, path):
    """statements assigning to the memory place with dotted path `path`
    (e.g. 'self.header'); returns [(bb, stmt index)]"""
    out = []
    for b in fa.live():
        for si, st in enumerate(b.stmts):
            if st["k"] != "assign":
                continue
            if not st["place"]["p"] and fa.upvar_name(st["place"]) is None:
                continue
            if lvalue_path(fa, st["place"], b.i, si) == path:
                out.append((b.i, si))
    return out


def assign_sites_prefix(fa, prefix):
    """assignments to `prefix` or any field below it"""
    out = []
    for b in fa.live():
        for si, st in enumerate(b.stmts):
            if st["k"] != "assign":
                continue
            if not st["place"]["p"] and fa.upvar_name(st["place"]) is None:
                continue
            p = lvalue_path(fa, st["place"], b.i, si)
            if p is not None and (p == prefix or p.startswith(prefix + ".")):
                out.append((b.i, si, p))
    return out


def mut_borrow_sites(fa, path):
    """statements taking `&mut` of the place with dotted path `path` or of something it contains
    (what `x.take()`, `x.replace(..)`, `mem::swap(&mut x, ..)` start with): [(bb, stmt index)]"""
    out = []
    for b in fa.live():
        for si, st in enumerate(b.stmts):
            if st["k"] != "assign" or st["rv"]["k"] != "ref" or not st["rv"].get("mut") or st["rv"].get("fake"):
                continue
            p = lvalue_path(fa, st["rv"]["place"], b.i, si)
            if p is None:
                continue
            if p == path or p.startswith(path + "."):
                out.append((b.i, si))
            elif path.startswith(p + "."):
                # `&mut whole`: counts when the reference is handed to a call that is still a call
                # (a spliced helper's accesses show up as borrows of the field itself)
                tmp = st["place"]["l"]
                for b2 in fa.live():
                    t2 = b2.term
                    if t2["k"] == "call" and any((a.get("m") or a.get("c") or {}).get("l") == tmp for a in t2["args"]):
                        out.append((b.i, si))
                        break
    return out


def iteration_deciders(fa, h, body, T):
    """the branches of the loop (header h, blocks `body`) that decide whether block T runs in an
    iteration: switch blocks with one successor from which every way back to h (within the loop)
    passes T, and another from which h is reached again without T.  (T's control dependences
    relative to "the iteration continues"; exits of the loop / function are not skips.)"""
    out = []
    if T == h:
        return out
    for S in sorted(body):
        if S == T or fa.blocks[S].term["k"] != "switch":
            continue
        succ = [e for e in fa.succ.get(S, []) if e in body]
        if len(succ) < 2:
            continue
        def back_without(e):
            return e == h or (e != T and h in fa.reach(e, avoiding=[T], include_src=True))
        def runs(e):
            return e == T or T in fa.reach(e, avoiding=[h], include_src=True)
        must = [e for e in succ if runs(e) and not back_without(e)]
        skip = [e for e in succ if back_without(e)]
        if must and skip:
            out.append((S, must, skip))
    return out


def return_alternatives(fa):
    """the alternative values a function can return, each with the block that builds it:
    [(term, block)].  `return x` where x was assigned on several ways (an if/else expression, a
    spliced closure of map_or_else, ...) is split into those ways; joins are flattened."""
    alts = []
    for d in fa.body.defs.get(0, []):
        kind, bi, si, place, payload = d
        if bi not in fa.succ or place["p"]:
            continue
        if kind == "assign" and payload["k"] == "use":
            gv = guarded_values(fa, payload["op"])
            alts += [(t_, db if db is not None else bi) for t_, db in gv] or [(fa.origin_rvalue(payload, bi, si), bi)]
        elif kind == "assign":
            alts.append((fa.origin_rvalue(payload, bi, si), bi))
        else:
            alts.append((fa.origin_call(bi, payload), bi))
    flat = []
    for t_, db in alts:
        for m in (t_[1] if t_[0] == "join" else (t_,)):
            flat.append((m, db))
    return flat


def switch_edges_on(fa, pred):
    """switch terminators whose discriminant origin satisfies pred(term):
    yields (bb, term, {value: target}, otherwise)"""
    for b in fa.live():
        t = b.term
        if t["k"] != "switch":
            continue
        o = fa.origin_operand(t["discr"], b.i, len(b.stmts))
        if pred(o):
            yield b.i, o, {v: x for v, x in t["targets"]}, t["otherwise"]


def returns_value_terms(fa):
    """origin terms of _0 at each return block"""
    out = []
    for r in fa.returns:
        out.append((r, fa.origin_local(0, r, len(fa.blocks[r].stmts))))
    return out


# ---------------------------------------------------------------- term queries
def term_has_call(term, callee):
    """does the term contain a call-site subterm of `callee`?  returns its bb"""
    for s in subterms(term):
        if isinstance(s, tuple) and len(s) == 4 and s[0] == "call" and s[2] == callee:
            return s[1]
    return None


def sites_with_arg_from(fa, callee, argidx, producer):
    """sites of `callee` whose argidx-th argument derives from a call of
    `producer`; returns [(site, producer_site)]"""
    out = []
    for s in sites(fa, callee):
        t = fa.blocks[s].term
        if argidx >= len(t["args"]):
            continue
        o = fa.arg_origin(s, argidx)
        p = term_has_call(o, producer)
        if p is not None:
            out.append((s, p))
    return out


def term_is_lit(term, v=None):
    t = strip(term)
    return t[0] == "lit" and (v is None or t[1] == v)


def term_paths(term):
    """all dotted param/field paths occurring in a term"""
    out = set()
    for s in subterms(term):
        if isinstance(s, tuple) and s and s[0] in ("field", "param"):
            p = path_of(s)
            if p:
                out.add(p)
    return out


def need(ctx, prop, rule, what, value):
    """fail closed when an anchor is absent"""
    if value is None or value == [] or value is False:
        ctx.missing(prop, rule, what, "%s not found in the analysed crate" % what)
        return False
    return True


# ---------------------------------------------------------------- returns / switches
def ret_assigns(fa):
    """definitions of the return place: [(bb, pos, term)]"""
    out = []
    for d in fa.body.defs.get(0, []):
        kind, bi, si, place, payload = d
        if bi not in fa.succ:
            continue
        if place["p"]:
            continue
        if kind == "assign":
            out.append((bi, si, fa.origin_rvalue(payload, bi, si)))
        elif kind == "call":
            out.append((bi, None, fa.origin_call(bi, payload)))
    return out


def is_agg(term, variant=None, name=None):
    return isinstance(term, tuple) and term[0] == "agg" and (variant is None or term[2] == variant) and (name is None or term[1] == name)


def agg_field(term, f):
    for k, v in term[3]:
        if k == f:
            return v
    return None


def ok_returns(fa):
    return [(b, s, t) for b, s, t in ret_assigns(fa) if is_agg(t, "Ok", "std::result::Result")]


def err_returns(fa):
    return [(b, s, t) for b, s, t in ret_assigns(fa) if is_agg(t, "Err", "std::result::Result")]


_CANON_CALL = {"is_none": "is_some", "is_err": "is_ok"}


def canon_cond(o):
    """canonical form of a boolean condition term and whether its truth value was flipped:
    Not(x) -> x (flipped); Ne -> Eq (flipped); Ge(a,b) -> Lt(a,b) (flipped); Gt(a,b) -> Lt(b,a);
    Le(a,b) -> Lt(b,a) (flipped); is_none(x) -> is_some(x) (flipped); is_err -> is_ok (flipped).
    Rules therefore see one spelling of a test however the source writes it."""
    neg = False
    while True:
        if isinstance(o, tuple) and o[0] == "un" and o[1] == "Not":
            o = o[2]
            neg = not neg
            continue
        if isinstance(o, tuple) and o[0] == "bin":
            op = o[1]
            if op == "Ne":
                o, neg = ("bin", "Eq", o[2], o[3]), not neg
            elif op == "Ge":
                o, neg = ("bin", "Lt", o[2], o[3]), not neg
            elif op == "Gt":
                o = ("bin", "Lt", o[3], o[2])
            elif op == "Le":
                o, neg = ("bin", "Lt", o[3], o[2]), not neg
        elif isinstance(o, tuple) and o[0] == "call" and isinstance(o[2], str):
            head, _, last = o[2].rpartition("::")
            if last in _CANON_CALL:
                o, neg = ("call", o[1], head + "::" + _CANON_CALL[last], o[3]), not neg
        return o, neg


def bool_switches(fa, pred):
    """switches on a bool whose canonical (see canon_cond) discriminant origin satisfies
    pred; yields (bb, canonical term, target when the canonical term is true, target when false)"""
    for b in fa.live():
        t = b.term
        if t["k"] != "switch" or t.get("discr_ty") != "bool":
            continue
        o = fa.origin_operand(t["discr"], b.i, len(b.stmts))
        o, neg = canon_cond(o)
        if not pred(o):
            continue
        m = {v: x for v, x in t["targets"]}
        f = m.get(0)
        tr = t["otherwise"] if 0 in m else m.get(1)
        if f is None:
            f = t["otherwise"]
        if neg:
            tr, f = f, tr
        yield b.i, o, tr, f


def option_tests(fa, pred):
    """tests of an Option value whose origin term satisfies pred, however written — `x.is_some()` /
    `x.is_none()` (canonical is_some) or a `match` / `if let` on x: yields (bb, value term, Some
    edge, None edge)"""
    for b, o, tr, fl in bool_switches(fa, lambda o: o[0] == "call" and o[2].endswith("::is_some") and o[3] and pred(o[3][0])):
        yield b, o[3][0], tr, fl
    for b, o, tg, other in switch_edges_on(fa, lambda o: o[0] == "disc" and pred(o[1])):
        yield b, o[1], tg.get(1, other), tg.get(0, other)


def is_err_value(t, containing=None):
    """an error result: an Err(..) aggregate, or what `?` builds from one (from_residual)"""
    if not isinstance(t, tuple):
        return False
    ok = is_agg(t, "Err") or (t[0] == "call" and t[2] in FROM_RESIDUAL)
    return ok and (containing is None or containing in term_str(t))


def region(fa, start, avoiding=()):
    return fa.reach(start, avoiding=avoiding, include_src=True)


def region_has_sites(fa, start, sites_):
    r = region(fa, start)
    return [s for s in sites_ if s in r]


def edge_returns_without(fa, target, effect_blocks):
    """every block reachable from `target` avoids effect_blocks and the region
    reaches a Return"""
    r = region(fa, target)
    hit = [e for e in effect_blocks if e in r]
    return (not hit) and any(x in r for x in fa.returns), hit


def ret_values_in_region(fa, target):
    r = region(fa, target)
    return [(b, s, t) for b, s, t in ret_assigns(fa) if b in r]


# ---------------------------------------------------------------- call graph
class CallGraph:
    def __init__(self, ctx):
        self.ctx = ctx
        self.edges = {}
        self.ext = {}
        names = set(ctx.crate.bodies.keys())
        for fa in ctx.all_fas():
            out = set()
            ext = set()
            for n, t in fa.calls():
                c = callee_of(t)
                if c in names:
                    out.add(c)
                else:
                    ext.add(t.get("callee") or "<indirect>")
                    if t.get("resolved") and t.get("resolved") != t.get("callee"):
                        ext.add(t["resolved"])
                # function items passed as values (map_err(f), etc.)
                for a in t["args"]:
                    if "k" in a and "fn" in a["k"] and a["k"]["fn"] in names:
                        out.add(a["k"]["fn"])
            for b in fa.live():
                for st in b.stmts:
                    if st["k"] == "assign" and st["rv"]["k"] == "agg" and st["rv"]["kind"] in ("closure", "coroutine", "coroutine_closure"):
                        if st["rv"]["name"] in names:
                            out.add(st["rv"]["name"])
            self.edges.setdefault(fa.body.name, set()).update(out)
            self.ext.setdefault(fa.body.name, set()).update(ext)

    def reach_from(self, roots_):
        seen = set()
        st = list(roots_)
        while st:
            x = st.pop()
            if x in seen:
                continue
            seen.add(x)
            st.extend(self.edges.get(x, ()))
        return seen

    def callers_reaching_ext(self, ext_names):
        """bodies from which a call to one of ext_names is reachable"""
        ext_names = set(ext_names)
        direct = set(n for n, e in self.ext.items() if e & ext_names)
        rev = {}
        for a, bs in self.edges.items():
            for b in bs:
                rev.setdefault(b, set()).add(a)
        seen = set()
        st = list(direct)
        while st:
            x = st.pop()
            if x in seen:
                continue
            seen.add(x)
            st.extend(rev.get(x, ()))
        return seen


def cg(ctx):
    if not hasattr(ctx, "_cg"):
        ctx._cg = CallGraph(ctx)
    return ctx._cg


def fn_of(body_name):
    """the fn a closure / coroutine body belongs to"""
    i = body_name.find("::{closure")
    return body_name if i < 0 else body_name[:i]


# ---------------------------------------------------------------- uses of a local
def _op_mentions(o, l):
    p = op_place(o)
    if p is None:
        return False
    if p["l"] == l:
        return True
    return any(isinstance(e, dict) and e.get("i") == l for e in p["p"])


def _rv_operands(rv):
    k = rv["k"]
    if k in ("use", "cast", "repeat"):
        return [rv["op"]]
    if k == "bin":
        return [rv["l"], rv["r"]]
    if k == "un":
        return [rv["x"]]
    if k == "agg":
        return list(rv["ops"])
    return []


def uses_of(fa, l):
    """uses of local l: [(bb, pos, kind, detail)]
    kind: 'call-arg' (detail = term, arg index) | 'stmt' (detail = stmt) |
    'switch' | 'ref' | 'disc' | 'yield' | 'assert'"""
    out = []
    for b in fa.live():
        for si, st in enumerate(b.stmts):
            if st["k"] != "assign":
                continue
            rv = st["rv"]
            if rv["k"] in ("ref", "copyderef", "rawptr", "disc"):
                if rv["place"]["l"] == l:
                    out.append((b.i, si, "disc" if rv["k"] == "disc" else "ref", st))
            for o in _rv_operands(rv):
                if _op_mentions(o, l):
                    out.append((b.i, si, "stmt", st))
            if st["place"]["l"] == l and st["place"]["p"]:
                pass
        t = b.term
        if t["k"] == "call":
            for ai, a in enumerate(t["args"]):
                if _op_mentions(a, l):
                    out.append((b.i, None, "call-arg", (t, ai)))
        elif t["k"] == "switch":
            if _op_mentions(t["discr"], l):
                out.append((b.i, None, "switch", t))
        elif t["k"] == "yield":
            if _op_mentions(t["value"], l):
                out.append((b.i, None, "yield", t))
        elif t["k"] == "assert":
            if _op_mentions(t["cond"], l):
                out.append((b.i, None, "assert", t))
    return out


PASS_THROUGH = (
    "std::result::Result::<T, E>::map_err", "std::result::Result::<T, E>::map", "std::future::IntoFuture::into_future",
    "std::pin::Pin::<Ptr>::new_unchecked", "std::pin::Pin::<Ptr>::new", "std::result::Result::<T, E>::as_ref", "std::convert::Into::into", "std::convert::From::from",
    "std::boxed::Box::<T>::pin", "futures::FutureExt::boxed", "std::result::Result::<T, E>::and_then", "std::result::Result::<T, E>::or_else",
)
DISCARDERS = (
    "std::result::Result::<T, E>::ok", "std::result::Result::<T, E>::err", "std::result::Result::<T, E>::unwrap_or_default", "std::result::Result::<T, E>::unwrap_or",
    "std::result::Result::<T, E>::unwrap_or_else", "std::mem::drop", "std::mem::forget", "std::result::Result::<T, E>::is_ok", "std::result::Result::<T, E>::is_err",
)


def result_consumed(fa, l, depth=0, seen=None):
    """is the value held in local l examined or propagated?  returns
    (verdict, how): verdict in 'checked' | 'propagated' | 'dropped' | 'discarded'"""
    if seen is None:
        seen = set()
    if l in seen or depth > 12:
        return ("propagated", "cycle")
    seen.add(l)
    us = uses_of(fa, l)
    if l == 0:
        return ("propagated", "return value")
    verdicts = []
    is_poll = fa.body.local_ty(l).startswith("std::task::Poll<")
    for bb, pos, kind, d in us:
        if kind in ("switch", "disc"):
            if is_poll:
                continue  # the await desugaring's own Ready/Pending test
            return ("checked", "matched at %s" % fa.body.loc(bb, pos))
        if kind == "call-arg":
            t, ai = d
            c = t.get("callee")
            if c in BRANCH:
                return ("checked", "? at %s" % fa.body.loc(bb))
            if c in POLL_ or c in PASS_THROUGH or c in TRANSPARENT_:
                verdicts.append(result_consumed(fa, t["dest"]["l"], depth + 1, seen))
            elif c in DISCARDERS:
                sub = result_consumed(fa, t["dest"]["l"], depth + 1, seen)
                if sub[0] == "checked" and c.endswith(("is_ok", "is_err", "::ok", "::err")):
                    verdicts.append(sub)
                else:
                    verdicts.append(("discarded", "%s at %s" % (c.split("::")[-1], fa.body.loc(bb))))
            elif c and (c.endswith("::unwrap") or c.endswith("::expect")):
                verdicts.append(("checked", "unwrap/expect at %s" % fa.body.loc(bb)))
            else:
                verdicts.append(("propagated", "passed to %s" % c))
        elif kind in ("stmt", "ref"):
            st = d
            dl = st["place"]["l"]
            if dl == l:
                continue
            verdicts.append(result_consumed(fa, dl, depth + 1, seen))
        elif kind == "yield":
            verdicts.append(("propagated", "yielded"))
    for want in ("checked", "propagated", "discarded"):
        for v in verdicts:
            if v[0] == want:
                return v
    return ("dropped", "value is never examined")


from .analysis import POLL as POLL_, TRANSPARENT as TRANSPARENT_


def result_edges(fa, s, _explicit_only=False):
    """success / failure continuation of call site s, through `?` or through an
    explicit match on the (awaited) Result: dict(ok=, err=, how=) or None"""
    c = None if _explicit_only else _checked_q(fa, s)
    if c is not None:
        return {"ok": c["ok"], "err": c["err"], "how": "?"}
    for b in fa.live():
        t = b.term
        if t["k"] != "switch":
            continue
        o = fa.origin_operand(t["discr"], b.i, len(b.stmts))
        if o[0] != "disc":
            continue
        inner = o[1]
        if inner[0] in ("poll", "branch"):
            continue
        if s in call_root_bb(inner):
            m = {v: x for v, x in t["targets"]}
            okb = m.get(0)
            errb = m.get(1, t["otherwise"] if 1 not in m else None)
            if okb is None:
                okb = t["otherwise"]
            return {"ok": okb, "err": errb, "how": "match"}
    return None


# ---------------------------------------------------------------- constant evaluation of terms
def const_lookup(ctx, name):
    v = ctx.crate.const_val(name)
    if isinstance(v, int):
        return v
    # enum discriminant expression:  path::Enum::Variant::{constant#0}
    if name.endswith("::{constant#0}"):
        base = name[: -len("::{constant#0}")]
        en, _, var = base.rpartition("::")
        a = ctx.crate.adts.get(en)
        if a:
            for v_ in a["variants"]:
                if v_["name"] == var and "discr" in v_:
                    return v_["discr"]
    return None


def ev(ctx, t):
    """integer value of a term if it is a compile-time constant expression"""
    t0 = t
    if not isinstance(t, tuple):
        return None
    k = t[0]
    if k == "lit":
        return t[1]
    if k == "const":
        return const_lookup(ctx, t[1])
    if k == "cast":
        return ev(ctx, t[1])
    if k == "field" and t[2] == "0" and t[1][0] == "bin" and t[1][1].endswith("WithOverflow"):
        return ev(ctx, ("bin", t[1][1][: -len("WithOverflow")], t[1][2], t[1][3]))
    if k == "bin":
        a, b = ev(ctx, t[2]), ev(ctx, t[3])
        if a is None or b is None:
            return None
        op = t[1].replace("WithOverflow", "").replace("Unchecked", "")
        try:
            return {"Add": a + b, "Sub": a - b, "Mul": a * b, "Div": a // b if b else None, "Rem": a % b if b else None, "Shl": a << b, "Shr": a >> b,
                    "BitAnd": a & b, "BitOr": a | b, "BitXor": a ^ b}.get(op)
        except Exception:
            return None
    if k == "disc" and t[1][0] == "agg":
        a = ctx.crate.adts.get(t[1][1])
        if a:
            for v_ in a["variants"]:
                if v_["name"] == t[1][2] and "discr" in v_:
                    return v_["discr"]
    if k in ("ok", "some", "await"):
        return ev(ctx, t[1])
    return None


def unwrap_ovf(t):
    """normalise `(a +? b).0` to bin(Add, a, b) recursively (for matching)"""
    if not isinstance(t, tuple) or not t:
        return t
    if t[0] == "field" and t[2] == "0" and isinstance(t[1], tuple) and t[1][0] == "bin" and t[1][1].endswith("WithOverflow"):
        return ("bin", t[1][1][: -len("WithOverflow")], unwrap_ovf(t[1][2]), unwrap_ovf(t[1][3]))
    if t[0] == "cast":
        return unwrap_ovf(t[1])
    if t[0] in ("call",):
        return (t[0], t[1], t[2], tuple(unwrap_ovf(x) for x in t[3]))
    if t[0] == "join":
        return ("join", tuple(unwrap_ovf(x) for x in t[1]))
    if t[0] == "agg":
        return (t[0], t[1], t[2], tuple((f, unwrap_ovf(o)) for f, o in t[3]))
    return tuple(unwrap_ovf(x) if isinstance(x, tuple) else x for x in t)


def lin(ctx, t, depth=0):
    """linear form {symbol: coeff, 1: const} of an integer term over params /
    field paths / a generic loop symbol; None if not linear."""
    from fractions import Fraction
    t = unwrap_ovf(t)
    v = ev(ctx, t)
    if v is not None:
        return {1: Fraction(v)}
    k = t[0]
    if k == "field" and len(t) > 2 and str(t[2]) in ("0", ".0") :
        # the index of `for (i, x) in xs.iter().enumerate()`: 0 + 1 * <loop>
        if t[1][0] == "some":
            n = strip(t[1])
            if n[0] == "call" and n[2].split("::")[-1] == "next" and n[3]:
                it = strip(n[3][0])
                if it[0] == "call" and it[2].split("::")[-1] == "enumerate":
                    return {"<loop>": Fraction(1)}
    if k in ("param", "field"):
        p = path_of(t)
        if p:
            return {p: Fraction(1)}
        return {term_str(t): Fraction(1)}
    if k == "len":
        return {"len(%s)" % term_str(t[1]): Fraction(1)}
    if k in ("cycle",):
        return {"<loop>": Fraction(1)}
    if k == "call":
        return {term_str(t): Fraction(1)}
    if k in ("some", "ok", "await", "variant", "index"):
        if k == "some":
            so = stride_of(t[1]) if t[1][0] == "call" else None
            if so is not None and depth < 6:
                base = lin(ctx, so[0], depth + 1)   # an element of a..b (.step_by(s)): start + n * step
                if base is not None:
                    base = dict(base)
                    base["<loop>"] = base.get("<loop>", 0) + Fraction(1)
                    return base
        return {term_str(t): Fraction(1)}   # an opaque value (e.g. the element an iterator yields)
    if k == "join":
        non = [x for x in t[1] if not contains(x, lambda s: isinstance(s, tuple) and s and s[0] == "cycle")]
        cyc = [x for x in t[1] if x not in non]
        if non and cyc:
            base = lin(ctx, mkjoin_(non), depth + 1)
            if base is None:
                return None
            base = dict(base)
            base["<loop>"] = base.get("<loop>", 0) + Fraction(1)
            return base
        forms = [lin(ctx, x, depth + 1) for x in t[1]]
        if all(f is not None for f in forms) and all(f == forms[0] for f in forms):
            return forms[0]
        return None
    if k == "bin":
        op = t[1]
        a, b = lin(ctx, t[2], depth + 1), lin(ctx, t[3], depth + 1)
        if a is None or b is None:
            return None
        if op in ("Add", "Sub"):
            out = dict(a)
            for s, c in b.items():
                out[s] = out.get(s, 0) + (c if op == "Add" else -c)
            return {s: c for s, c in out.items() if c != 0 or s == 1}
        if op in ("Mul",) and (set(a) <= {1} or set(b) <= {1}):
            c, f = (a.get(1, 0), b) if set(a) <= {1} else (b.get(1, 0), a)
            return {s: x * c for s, x in f.items()}
        if op in ("Div",) and set(b) <= {1} and b.get(1):
            return {s: x / b[1] for s, x in a.items()}
        return None
    return None


def mkjoin_(xs):
    from .analysis import mkjoin
    return mkjoin(list(xs))


def loop_sum(term):
    """if term is the value of an accumulator `acc = init; loop { acc = acc + x }` after the loop,
    returns (init term, addend term x) else None"""
    t = unwrap_ovf(strip(term))
    if t[0] != "join":
        return None
    init, step = None, None
    for m in t[1]:
        m = unwrap_ovf(strip(m))
        if m[0] == "bin" and m[1] == "Add":
            a, b = m[2], m[3]
            ca = contains(a, lambda q: isinstance(q, tuple) and q and q[0] == "cycle")
            cb = contains(b, lambda q: isinstance(q, tuple) and q and q[0] == "cycle")
            if ca != cb:
                step = b if ca else a
                continue
        if not contains(m, lambda q: isinstance(q, tuple) and q and q[0] == "cycle"):
            init = m
    if step is None or init is None:
        return None
    return init, step


def stride_of(term):
    """(start term, step term) if term is an arithmetic progression: the value of a loop counter
    `i = a; loop { ..; i += s }`, or an element of `(a..b).step_by(s)` / `a..b` (step 1)"""
    sm = loop_sum(term)
    if sm is not None:
        return sm
    t = strip(term)
    if t[0] == "call" and t[2].split("::")[-1] == "next" and t[3]:
        it = strip(t[3][0])
        if it[0] == "call" and it[2].split("::")[-1] == "step_by" and len(it[3]) == 2:
            rng = strip(it[3][0])
            if is_agg(rng) and rng[1].split("::")[-1] == "Range":
                return agg_field(rng, "start"), it[3][1]
        if is_agg(it) and it[1].split("::")[-1] == "Range":
            return agg_field(it, "start"), ("lit", 1)
        if it[0] == "call" and it[2].split("::")[-1] == "step_by" and len(it[3]) == 2:
            rng = strip(it[3][0])
            if rng[0] == "call" and rng[2].endswith("RangeInclusive::<Idx>::new") and len(rng[3]) == 2:
                return rng[3][0], it[3][1]
        if it[0] == "call" and it[2].endswith("RangeInclusive::<Idx>::new") and len(it[3]) == 2:
            return it[3][0], ("lit", 1)
    return None


def _flowing_defs(fa, l, bb, pos):
    """full definitions of local l whose value can flow to (bb, pos): the reaching definitions there,
    closed under "this definition reads l itself" (`i += 1` brings in what reaches it)"""
    seen, out = set(), []
    work = [(bb, pos)]
    while work:
        b_, p_ = work.pop()
        for d in fa.reaching_defs(l, b_, p_):
            key = (d[1], d[2])
            if key in seen:
                continue
            seen.add(key)
            out.append(d)
            reads = False
            if d[0] == "assign":
                for o in _rv_operands(d[4]):
                    if _op_mentions(o, l):
                        reads = True
                if not reads:
                    # through a temporary: `_t = AddWithOverflow(copy l, 1); l = move _t.0`
                    for o in _rv_operands(d[4]):
                        q = op_place(o)
                        if q is not None and q["l"] != l:
                            for d2 in fa.body.defs.get(q["l"], []):
                                if d2[0] == "assign" and any(_op_mentions(o2, l) for o2 in _rv_operands(d2[4])):
                                    reads = True
            if reads:
                work.append((d[1], d[2] if d[2] is not None else len(fa.blocks[d[1]].stmts)))
    return out


def guarded_values(fa, operand, at=None):
    """The alternative values an operand can hold, each with the block that assigns it:
    [(value term, defining block)].  Follows copies / references / field projections back to the
    local that is assigned on several paths (`let x = if c { a } else { b }`, a tuple built in each
    arm, the result of a spliced helper) — without relying on variable names.  The caller asks
    which conditions dominate each defining block."""
    from .analysis import project_field
    p = op_place(operand)
    fields = []
    for _ in range(12):
        if p is None:
            return []
        if fa.upvar_name(p) is not None:
            t = fa.origin_place(p, 0, 0)   # a captured variable (a parameter of the async fn)
            for f in fields:
                t = project_field(t, f)
            return [(t, None)]
        fields = [e["n"] for e in p["p"] if isinstance(e, dict) and "f" in e] + fields
        ds = [d for d in fa.body.defs.get(p["l"], []) if not d[3]["p"] and d[1] in fa.succ]
        if at is not None and len(ds) > 1:
            flowing = _flowing_defs(fa, p["l"], at[0], at[1])
            if flowing:
                ds = [d for d in ds if any(d[1] == f[1] and d[2] == f[2] for f in flowing)]
        if not ds:
            t = fa.origin_place({"l": p["l"], "p": []}, 0, 0)   # a parameter / captured variable
            for f in fields:
                t = project_field(t, f)
            return [(t, None)]
        if len(ds) == 1 and ds[0][0] == "assign" and ds[0][4]["k"] in ("ref", "copyderef"):
            p = ds[0][4]["place"]
            continue
        if len(ds) == 1 and ds[0][0] == "assign" and ds[0][4]["k"] in ("use", "cast") and op_place(ds[0][4]["op"]) is not None:
            p = op_place(ds[0][4]["op"])
            continue
        out = []
        for d in ds:
            t = fa.origin_rvalue(d[4], d[1], d[2]) if d[0] == "assign" else (fa.origin_call(d[1], d[4]) if d[0] == "call" else ("unknown",))
            for f in fields:
                t = project_field(t, f)
            out.append((t, d[1]))
        return out
    return []


def named_local(fa, operand, bi, pos):
    """user variable an operand is a (copy of a copy of ...) of, or None"""
    p = op_place(operand)
    for _ in range(8):
        if p is None or p["p"]:
            return None
        nm = fa.body.local_name(p["l"])
        if nm:
            return nm
        ds = [d for d in fa.body.defs.get(p["l"], []) if not d[3]["p"]]
        if len(ds) != 1 or ds[0][0] != "assign" or ds[0][4]["k"] != "use":
            return None
        p = op_place(ds[0][4]["op"])
    return None


def resolve_mutlocal(fa, term):
    """A user variable whose address escapes by `&mut` is named after its type in terms
    (`~Header.key_pair`): its fields may be rewritten through the reference.  For provenance
    questions this returns the same field path applied to the variable's INITIAL value (its first
    definition), or None if the term is not rooted in such a variable / the variable is ambiguous.
    Callers must separately check that the field in question is not assigned afterwards."""
    from .analysis import project_field
    t = strip(term)
    fields = []
    while t[0] == "field":
        fields.append(t[2])
        t = strip(t[1])
    if not (t[0] == "param" and isinstance(t[1], str) and t[1].startswith("~")):
        return None
    cands = [l["i"] for l in fa.body.locals if l.get("name") and not (1 <= l["i"] <= fa.body.arg_count) and fa._mut_borrowed(l["i"]) and fa.type_name(l["i"]) == t[1]]
    if len(cands) != 1:
        return None
    ds = sorted([d for d in fa.body.defs.get(cands[0], []) if not d[3]["p"]], key=lambda d: (d[1], d[2] if d[2] is not None else 10**6))
    if not ds:
        return None
    d = ds[0]
    base = fa.origin_rvalue(d[4], d[1], d[2]) if d[0] == "assign" else (fa.origin_call(d[1], d[4]) if d[0] == "call" else None)
    if base is None:
        return None
    for f in reversed(fields):
        base = project_field(base, f)
    return base


def named_local_origin(fa, name):
    """origin term of the (first) definition of the user variable `name`"""
    for l in fa.body.locals:
        if l["name"] == name:
            ds = [d for d in fa.body.defs.get(l["i"], []) if not d[3]["p"]]
            if ds:
                d = ds[0]
                if d[0] == "assign":
                    return fa.origin_rvalue(d[4], d[1], d[2])
                if d[0] == "call":
                    return fa.origin_call(d[1], d[4])
    return None


def every_element_reaches(fa, next_site, site):
    """in an iterator loop driven by `next_site`: every element obtained (Some edge)
    passes `site` before the next element is requested or the loop is left"""
    sw = [x for x in switch_edges_on(fa, lambda o: o[0] == "disc" and next_site in call_root_bb(o[1]))]
    if not sw:
        return None
    some_t = sw[0][2].get(1)
    if some_t is None:
        return None
    if some_t == site:
        return True
    if fa.can_reach(some_t, next_site, avoiding=[site]):
        return False
    # nor leave the function normally without it
    for r in fa.returns:
        if fa.can_reach(some_t, r, avoiding=[site, next_site]):
            # leaving through an error return is fine
            vals = [t for bb, _, t in ret_assigns(fa) if bb in fa.reach(some_t, avoiding=[site, next_site], include_src=True)]
            if any(is_agg(v, "Ok") for v in vals) or not vals:
                return False
    return True


def iterator_loops(fa, over_substr):
    """next() sites whose iterator derives from a term containing over_substr"""
    out = []
    for s in sites(fa, "std::iter::Iterator::next"):
        if over_substr in term_str(fa.arg_origin(s, 0)):
            out.append(s)
    return out


# ---------------------------------------------------------------------------------------------
# path-sensitive evaluation of a flag word over boolean parameters
def flag_paths(fa, params, max_paths=512):
    """Enumerates the acyclic paths of fa from the entry to a return and evaluates the returned
    integer on each as  const | bit contributions of the boolean parameters | opaque parts.
    Yields (cond, const, bits, opaque): cond = {param: truth} fixed by the branches taken,
    bits = {(param, k)}: `param` (as 0/1) shifted left by k is or-ed in, opaque = set of strings.
    None if the function does not have this shape (a loop, too many paths)."""
    body = fa.body
    pidx = {}
    for i in range(1, body.arg_count + 1):
        nm = body.local_name(i)
        if nm in params:
            pidx[i] = nm

    def val_const(v):
        return (int(v), frozenset(), frozenset())

    def opaque(s):
        return (0, frozenset(), frozenset([s]))

    def read_place(env, pl, where):
        l, proj = pl["l"], pl["p"]
        v = env.get(l)
        if v is None:
            if l in pidx and not proj:
                return ("bool", pidx[l], True)
            return opaque("_%d%s@%s" % (l, "".join(str(x) for x in proj), where)) if proj else opaque("_%d" % l)
        for e in proj:
            if isinstance(e, dict) and "f" in e and isinstance(v, tuple) and v and v[0] == "tup" and e["f"] < len(v[1]):
                v = v[1][e["f"]]
            else:
                return opaque("_%d.." % l)
        return v

    def read_op(env, o, where):
        if "k" in o:
            k = o["k"]
            if "v" in k and isinstance(k["v"], (int, bool)):
                return val_const(k["v"])
            return opaque(str(k.get("repr") or k.get("fn") or "const"))
        pl = o.get("c") or o.get("m")
        return read_place(env, pl, where)

    def as_int(v):
        if isinstance(v, tuple) and v and v[0] == "bool":
            if v[2]:
                return (0, frozenset([(v[1], 0)]), frozenset())
            return opaque("!%s" % v[1])
        if isinstance(v, tuple) and v and v[0] == "tup":
            return opaque("tuple")
        return v

    def ev_rv(env, rv, where):
        k = rv["k"]
        if k == "use":
            return read_op(env, rv["op"], where)
        if k == "cast":
            return as_int(read_op(env, rv["op"], where)) if not rv.get("ty", "").startswith("bool") else read_op(env, rv["op"], where)
        if k == "agg" and rv.get("kind") == "tuple":
            return ("tup", [read_op(env, o, where) for o in rv["ops"]])
        if k == "un" and rv.get("op") == "Not":
            v = read_op(env, rv["operand"] if "operand" in rv else rv.get("o", {}), where) if ("operand" in rv or "o" in rv) else None
            if isinstance(v, tuple) and v and v[0] == "bool":
                return ("bool", v[1], not v[2])
            return opaque("not@%s" % where)
        if k == "bin":
            a, b = as_int(read_op(env, rv["l"], where)), as_int(read_op(env, rv["r"], where))
            op = rv["op"]
            if op == "BitOr" and len(a) == 3 and len(b) == 3:
                return (a[0] | b[0], a[1] | b[1], a[2] | b[2])
            if op in ("Shl", "ShlUnchecked") and len(a) == 3 and len(b) == 3 and not b[1] and not b[2]:
                s = b[0]
                return (a[0] << s, frozenset((p, j + s) for p, j in a[1]), frozenset("(%s)<<%d" % (x, s) for x in a[2]))
            if len(a) == 3 and len(b) == 3 and not (a[1] or a[2] or b[1] or b[2]):
                x, y = a[0], b[0]
                try:
                    r = {"Add": x + y, "Sub": x - y, "Mul": x * y, "BitAnd": x & y, "BitXor": x ^ y, "Eq": int(x == y), "Ne": int(x != y), "Lt": int(x < y), "Le": int(x <= y), "Gt": int(x > y), "Ge": int(x >= y)}.get(op)
                except Exception:
                    r = None
                if r is not None:
                    return val_const(r)
            return opaque("%s@%s" % (op, where))
        return opaque("%s@%s" % (k, where))

    out = []
    count = [0]

    def walk(bi, env, cond, seen):
        if count[0] > max_paths:
            return False
        if bi in seen:
            return False       # a loop: not the shape this evaluator is for
        seen = seen | {bi}
        b = fa.blocks[bi]
        env = dict(env)
        for si, st in enumerate(b.stmts):
            if st["k"] != "assign":
                continue
            pl = st["place"]
            if pl["p"]:
                env[pl["l"]] = opaque("_%d partial" % pl["l"])
                continue
            env[pl["l"]] = ev_rv(env, st["rv"], "bb%d" % bi)
        t = b.term
        k = t["k"]
        if k == "return":
            count[0] += 1
            v = as_int(env.get(0, opaque("ret")))
            out.append((dict(cond), v[0], set(v[1]), set(v[2])))
            return True
        if k in ("goto", "false_edge", "drop", "assert", "false_unwind"):
            tg = t.get("target")
            return walk(tg, env, cond, seen) if tg is not None else True
        if k == "call":
            tg = t.get("target")
            if tg is None:
                return True      # diverges
            d = t["dest"]
            if "From<bool>" in (t.get("callee_full") or "") and (t.get("callee") or "").endswith("::from") and len(t["args"]) == 1 and not d["p"]:
                env[d["l"]] = as_int(read_op(env, t["args"][0], "bb%d" % bi))     # uN::from(flag) is flag as uN
            else:
                env[d["l"]] = opaque("%s@bb%d" % ((t.get("callee") or "call").split("::")[-1], bi))
            return walk(tg, env, cond, seen)
        if k == "switch":
            dv = read_op(env, t["discr"], "bb%d" % bi)
            edges = [(v, x) for v, x in t["targets"]] + [(None, t["otherwise"])]
            if isinstance(dv, tuple) and dv and dv[0] == "bool" and t.get("discr_ty") == "bool":
                p, pol = dv[1], dv[2]
                m = {v: x for v, x in t["targets"]}
                f = m.get(0, t["otherwise"])
                tr = t["otherwise"] if 0 in m else m.get(1)
                if not pol:
                    tr, f = f, tr
                ok = True
                for truth, tg in ((True, tr), (False, f)):
                    if tg is None or (p in cond and cond[p] != truth):
                        continue
                    c2 = dict(cond)
                    c2[p] = truth
                    ok = walk(tg, env, c2, seen) and ok
                return ok
            if isinstance(dv, tuple) and len(dv) == 3 and not dv[1] and not dv[2]:
                m = {v: x for v, x in t["targets"]}
                return walk(m.get(dv[0], t["otherwise"]), env, cond, seen)
            ok = True
            for _, tg in edges:
                if tg is not None and tg in fa.succ:
                    ok = walk(tg, env, cond, seen) and ok
            return ok
        if k in ("unreachable", "resume", "abort", "unwind_terminate"):
            return True
        return False

    if not walk(0, {}, {}, frozenset()):
        return None
    return out


def flag_table(fa, params):
    """{(truth of params[0], truth of params[1], ..): (flag value, frozenset(opaque parts))} if every
    combination of the boolean parameters yields one value on every path, else None"""
    import itertools
    paths = flag_paths(fa, params)
    if not paths:
        return None
    table = {}
    for combo in itertools.product((False, True), repeat=len(params)):
        asg = dict(zip(params, combo))
        vals = set()
        for cond, c, bits, opq in paths:
            if any(asg[p] != v for p, v in cond.items()):
                continue
            x = c
            for p, k_ in bits:
                if asg[p]:
                    x |= 1 << k_
            vals.add((x, frozenset(opq)))
        if len(vals) != 1:
            return None
        table[combo] = next(iter(vals))
    return table
