"""Evidence / report writer and verdict."""
import json, os
from collections import OrderedDict


def finish(root, prop, tier, seed, mod, insts, counts, controls, selftests, known, wall):
    fails = [i for i in insts if i.verdict != "pass"]
    # de-duplicate across configurations by key
    by_key = OrderedDict()
    for i in fails:
        by_key.setdefault(i.key, []).append(i)
    known_hits, new = [], []
    for k, lst in by_key.items():
        if k in known and lst[0].verdict == "fail":
            known_hits.append((k, lst))
        else:
            new.append((k, lst))
    ctl_fail = [c for c in controls if not c["fired"]]
    st_fail = [s for s in (selftests or []) if s["status"] == "fail"]
    rules = OrderedDict()
    for i in insts:
        rules.setdefault(i.rule, {"instances": 0, "passed": 0, "failed": 0})
        rules[i.rule]["instances"] += 1
        rules[i.rule]["passed" if i.verdict == "pass" else "failed"] += 1
    distinct = len(set((i.rule, i.anchor) for i in insts if i.verdict == "pass" and (i.sites or True)))
    with_sites = len(set((i.rule, i.anchor) for i in insts if i.sites))
    samples = []
    seen_rules = set()
    for i in insts:
        if i.rule in seen_rules:
            continue
        seen_rules.add(i.rule)
        samples.append({"rule": i.rule, "instance": i.anchor, "verdict": i.verdict, "why": i.why[:300], "sites": i.sites[:4], "config": getattr(i, "config", "")})
    assumed = [i for i in insts if i.assumed]
    report = {
        "property": prop, "tier": tier,
        "violations": [{"key": k, "configs": sorted(set(getattr(x, "config", "") for x in lst)), **lst[0].to_json()} for k, lst in new],
        "known_findings": [{"key": k, **lst[0].to_json()} for k, lst in known_hits],
        "controls_not_fired": ctl_fail, "selftest_failures": st_fail,
        "instances": [dict(i.to_json(), config=getattr(i, "config", "")) for i in insts],
    }
    os.makedirs(os.path.join(root, "reports"), exist_ok=True)
    rep = os.path.join(root, "reports", prop + ".json")
    json.dump(report, open(rep, "w"), indent=1)
    obligations = len(insts)
    discharged = sum(1 for i in insts if i.verdict == "pass")
    ev = {
        "property_id": prop, "tier": tier, "seed": seed, "level": "other",
        "coverage": {
            "explanation": mod.EXPLANATION + " Decides these structural clauses, not the behaviour: every clause is a necessary condition of the property; passing all of them does not establish it. NOT DECIDED: " + mod.NOT_DECIDED,
            "obligations": obligations, "discharged": discharged,
            "evaluations": obligations, "distinct_nontrivial": distinct,
            "rule": "one evaluation = one rule instance (rule x anchor site x build configuration) evaluated over the MIR facts extracted from /repo on this run; distinct_nontrivial = distinct (rule, instance) pairs that passed after matching at least their anchor sites; an instance whose anchor is not found is reported as ANCHOR-MISSING (a violation), never as a pass",
            "samples": samples[:12],
            "exhaustive": True,
            "rules": rules,
            "instances_with_listed_sites": with_sites,
            "assumed_invariants": [{"rule": i.rule, "instance": i.anchor, "why": i.why} for i in assumed][:60],
            "configurations": counts,
            "controls": controls,
            "selftests": selftests,
            "checker_cmd": "./check %s%s" % (prop, " --tier thorough" if tier == "thorough" else ""),
            "trusted_base": ["rustc nightly (type check, MIR construction, trait resolution, const evaluation)", "hcfacts driver and hcsa rule engine (this repository)",
                             "dependency crates are call-graph leaves: flat_tree, compact_encoding, crc32fast, blake2, ed25519-dalek, intmap, moka, async-lock, async-broadcast, random-access-*"],
        },
        "assumptions": list(getattr(mod, "ASSUMPTIONS", [])),
        "wall_s": round(wall, 2),
        "violations": len(new) + len(ctl_fail) + len(st_fail),
    }
    os.makedirs(os.path.join(root, "evidence"), exist_ok=True)
    json.dump(ev, open(os.path.join(root, "evidence", prop + ".json"), "w"), indent=1)
    # console
    nb = next(iter(counts.values())) if counts else {}
    print("[%s %s] configs=%s bodies=%s blocks=%s call_sites=%s | rule instances=%d passed=%d | controls fired=%d/%d%s | %.1fs" % (
        prop, tier, ",".join(counts.keys()), nb.get("bodies"), nb.get("blocks"), nb.get("call_sites"), obligations, discharged,
        sum(1 for c in controls if c["fired"]), len(controls),
        (" | selftests ok=%d skipped=%d fail=%d" % (sum(1 for s in selftests if s["status"] == "ok"), sum(1 for s in selftests if s["status"] == "skipped"), len(st_fail))) if selftests is not None else "", wall))
    for r, c in rules.items():
        print("  %-8s instances=%-3d passed=%-3d failed=%d" % (r, c["instances"], c["passed"], c["failed"]))
    for k, lst in known_hits:
        print("KNOWN-FINDING: property=%s %s :: %s" % (prop, k, known[k][1] or lst[0].why[:200]))
    rc = 0
    for k, lst in new:
        i = lst[0]
        print("  FAIL %s [%s] %s\n       %s\n       sites: %s" % (i.rule, i.anchor, k, i.why[:600], "; ".join(i.sites[:4])))
        rc = 1
    for c in ctl_fail:
        print("  CONTROL-NOT-FIRED %s: %s" % (c["name"], c["why"]))
        rc = 1
    for s_ in st_fail:
        print("  SELFTEST-FAILED %s: %s" % (s_["name"], s_["why"]))
        rc = 1
    if rc:
        print("VIOLATION property=%s replay=%s" % (prop, rep))
    return rc
