"""Facts loader: wraps the JSON emitted by hcfacts into Body / Crate objects
with a per-body CFG restricted to normal (non-unwind, non-imaginary) edges."""
import json
from collections import defaultdict


def place_str(p, body=None):
    s = "_%d" % p["l"]
    if body is not None:
        nm = body.local_name(p["l"])
        if nm:
            s = nm
    for e in p["p"]:
        if e == "*":
            s = "(*%s)" % s
        elif isinstance(e, str):
            s = "%s as %s" % (s, e)
        elif "f" in e:
            s = "%s.%s" % (s, e["n"])
        elif "d" in e:
            s = "(%s as %s)" % (s, e["n"] or e["d"])
        elif "i" in e:
            s = "%s[_%d]" % (s, e["i"])
        elif "ci" in e:
            s = "%s[%s%d]" % (s, "-" if e["from_end"] else "", e["ci"])
        elif "sub" in e:
            s = "%s[%d..%s%d]" % (s, e["sub"], "-" if e["from_end"] else "", e["to"])
    return s


def op_str(o, body=None):
    if "c" in o:
        return place_str(o["c"], body)
    if "m" in o:
        return "move " + place_str(o["m"], body)
    if "k" in o:
        k = o["k"]
        if "fn" in k:
            return "fn:" + k["fn"]
        if "def" in k:
            return "const:" + k["def"]
        if "v" in k:
            return "%d_%s" % (k["v"], k["ty"])
        return "const(%s)" % k.get("repr", k["ty"])
    return str(o)


def op_place(o):
    """Place of a copy/move operand, else None."""
    if "c" in o:
        return o["c"]
    if "m" in o:
        return o["m"]
    return None


class Block:
    __slots__ = ("i", "cleanup", "stmts", "term")

    def __init__(self, j):
        self.i = j["i"]
        self.cleanup = j["cleanup"]
        self.stmts = j["stmts"]
        self.term = j["term"]


class Body:
    def __init__(self, j):
        self.j = j
        self.name = j["name"]
        self.kind = j["kind"]
        self.parent = j["parent"]
        self.is_coroutine = j["is_coroutine"]
        self.arg_count = j["arg_count"]
        self.span = j["span"]
        self.locals = j["locals"]
        self.upvars = j["upvars"]
        self.blocks = [Block(b) for b in j["blocks"]]
        self._succ = None
        self._pred = None
        self._defs = None

    # ------------------------------------------------------------ naming
    def local_name(self, l):
        d = self.locals[l]
        return d["name"]

    def local_ty(self, l):
        return self.locals[l]["ty"]

    @property
    def file(self):
        return self.span["file"]

    def loc(self, bi, si=None):
        b = self.blocks[bi]
        sp = b.term["span"] if si is None else b.stmts[si].get("span", b.term["span"])
        return "%s:%d" % (sp["file"], sp["line"])

    # ------------------------------------------------------------ CFG
    def succ_of_term(self, t):
        k = t["k"]
        if k == "goto" or k == "false_unwind" or k == "false_edge":
            return [t["target"]]
        if k == "switch":
            out = []
            for _, bb in t["targets"]:
                if bb not in out:
                    out.append(bb)
            if t["otherwise"] not in out:
                out.append(t["otherwise"])
            return out
        if k in ("call", "drop", "assert", "yield"):
            return [t["target"]] if t.get("target") is not None else []
        return []

    @property
    def succ(self):
        if self._succ is None:
            self._succ = {}
            for b in self.blocks:
                if b.cleanup:
                    self._succ[b.i] = []
                    continue
                self._succ[b.i] = [x for x in self.succ_of_term(b.term) if not self.blocks[x].cleanup]
            # drop blocks that are unreachable from entry
            seen = set()
            st = [0]
            while st:
                x = st.pop()
                if x in seen:
                    continue
                seen.add(x)
                st.extend(self._succ[x])
            self.reachable = seen
            for b in self.blocks:
                if b.i not in seen:
                    self._succ[b.i] = []
        return self._succ

    @property
    def pred(self):
        if self._pred is None:
            p = defaultdict(list)
            for a, ss in self.succ.items():
                for b in ss:
                    p[b].append(a)
            self._pred = p
        return self._pred

    def live_blocks(self):
        self.succ
        return [b for b in self.blocks if b.i in self.reachable]

    # ------------------------------------------------------------ defs
    @property
    def defs(self):
        """local -> list of definition records
        ('assign', bb, si, place, rv) | ('call', bb, term) | ('yield', bb, term)"""
        if self._defs is None:
            d = defaultdict(list)
            for b in self.live_blocks():
                for si, st in enumerate(b.stmts):
                    if st["k"] == "assign":
                        d[st["place"]["l"]].append(("assign", b.i, si, st["place"], st["rv"]))
                    elif st["k"] == "setdisc":
                        d[st["place"]["l"]].append(("setdisc", b.i, si, st["place"], None))
                t = b.term
                if t["k"] == "call":
                    d[t["dest"]["l"]].append(("call", b.i, None, t["dest"], t))
                elif t["k"] == "yield":
                    d[t["resume_arg"]["l"]].append(("yield", b.i, None, t["resume_arg"], t))
            self._defs = d
        return self._defs

    # ------------------------------------------------------------ calls
    def calls(self):
        for b in self.live_blocks():
            if b.term["k"] == "call":
                yield b.i, b.term

    # ------------------------------------------------------------ dump
    def dump(self):
        out = ["fn %s  [%s] args=%d" % (self.name, self.kind, self.arg_count)]
        for u in self.upvars:
            out.append("  upvar %s = %s" % (u["name"], place_str(u["place"])))
        for l in self.locals:
            if l["name"]:
                out.append("  let _%d: %s  // %s" % (l["i"], l["ty"], l["name"]))
        for b in self.live_blocks():
            out.append(" bb%d:%s" % (b.i, " (cleanup)" if b.cleanup else ""))
            for st in b.stmts:
                if st["k"] == "assign":
                    out.append("    %s = %s   // L%d" % (place_str(st["place"]), rv_str(st["rv"]), st["span"]["line"]))
                elif st["k"] == "setdisc":
                    out.append("    discriminant(%s) = %d" % (place_str(st["place"]), st["variant"]))
            out.append("    " + term_str(b.term) + "   // L%d" % b.term["span"]["line"])
        return "\n".join(out)


def rv_str(rv):
    k = rv["k"]
    if k == "use":
        return op_str(rv["op"])
    if k == "ref":
        return "&%s%s" % ("mut " if rv["mut"] else ("fake " if rv["fake"] else ""), place_str(rv["place"]))
    if k == "bin":
        return "%s(%s, %s)" % (rv["op"], op_str(rv["l"]), op_str(rv["r"]))
    if k == "un":
        return "%s(%s)" % (rv["op"], op_str(rv["x"]))
    if k == "cast":
        return "%s as %s [%s]" % (op_str(rv["op"]), rv["ty"], rv["ck"])
    if k == "disc":
        return "discriminant(%s)" % place_str(rv["place"])
    if k == "agg":
        nm = rv.get("name", rv["kind"])
        if rv["kind"] == "adt":
            nm = "%s::%s" % (nm, rv["variant"])
            return "%s{%s}" % (nm, ", ".join("%s: %s" % (f, op_str(o)) for f, o in zip(rv["fields"], rv["ops"])))
        return "%s(%s)" % (nm, ", ".join(op_str(o) for o in rv["ops"]))
    if k == "copyderef":
        return "copyderef(%s)" % place_str(rv["place"])
    if k == "rawptr":
        return "&raw %s" % place_str(rv["place"])
    if k == "repeat":
        return "[%s; %s]" % (op_str(rv["op"]), rv["n"])
    return rv.get("dbg", k)


def term_str(t):
    k = t["k"]
    if k == "call":
        return "%s = %s(%s) -> bb%s   {res: %s}" % (
            place_str(t["dest"]),
            t.get("callee_full") or t.get("callee_ty"),
            ", ".join(op_str(a) for a in t["args"]),
            t.get("target"),
            t.get("resolved"),
        )
    if k == "switch":
        return "switch(%s) [%s, otherwise: bb%d]" % (
            op_str(t["discr"]),
            ", ".join("%d: bb%d" % (v, b) for v, b in t["targets"]),
            t["otherwise"],
        )
    if k == "assert":
        return "assert(%s == %s, %s(%s)) -> bb%d" % (
            op_str(t["cond"]),
            t["expected"],
            t["akind"],
            ", ".join(op_str(a) for a in t["aops"]),
            t["target"],
        )
    if k == "drop":
        return "drop(%s) -> bb%d" % (place_str(t["place"]), t["target"])
    if k == "yield":
        return "%s = yield(%s) -> bb%d" % (place_str(t["resume_arg"]), op_str(t["value"]), t["target"])
    if k in ("goto", "false_edge", "false_unwind"):
        return "%s -> bb%d" % (k, t["target"])
    return k


class _All:
    def __contains__(self, x):
        return True


ALL = _All()


class Crate:
    def __init__(self, path, normalize=True):
        with open(path) as f:
            j = json.load(f)
        self.norm = None
        if normalize:
            from . import normalize as N
            # helpers unknown to the reviewed tree are spliced into their callers (hypercore
            # only: the control crate is analysed as written); bool jump threading everywhere
            self.norm = N.normalize(j, known=None if j["crate"] == "hypercore" else ALL)
        self.j = j
        self.name = j["crate"]
        self.features = j["cfg_features"]
        self.bodies = {}
        for b in j["bodies"]:
            body = Body(b)
            # duplicate names can occur for closures in macro expansions; keep all
            self.bodies.setdefault(body.name, []).append(body)
        self.consts = {c["name"]: c for c in j["consts"]}
        self.adts = {a["name"]: a for a in j["adts"]}
        self.impls = j["impls"]
        self.traits = {t["name"]: t for t in j["traits"]}
        self.fns = j["fns"]
        self.crate_attrs = j["crate_attrs"]
        self.skipped = j["skipped"]

    def all_bodies(self):
        for lst in self.bodies.values():
            for b in lst:
                yield b

    def body(self, name):
        lst = self.bodies.get(name)
        if not lst:
            return None
        return lst[0]

    def group(self, name):
        """The fn `name` together with every closure / coroutine nested in it."""
        out = []
        for b in self.all_bodies():
            if b.name == name or b.name.startswith(name + "::{closure"):
                out.append(b)
        return out

    def const_val(self, name):
        c = self.consts.get(name)
        if c is None:
            return None
        if "v" in c:
            return c["v"]
        if "bytes" in c:
            return c["bytes"]
        return None

    def counts(self):
        nb = nblk = ncall = 0
        for b in self.all_bodies():
            nb += 1
            lb = b.live_blocks()
            nblk += len(lb)
            ncall += sum(1 for x in lb if x.term["k"] == "call")
        return {"bodies": nb, "blocks": nblk, "call_sites": ncall}
