"""Entry point: python3 -m hcsa.main <PROPERTY> [--tier quick|thorough] [--facts path]
Extracts facts from /repo's working tree (unless --facts), evaluates the rules
of the property, writes evidence/<ID>.json and reports/<ID>.json."""
import sys, os, json, time, subprocess, importlib, fcntl, tempfile, shutil

ROOT = os.path.dirname(os.path.dirname(os.path.abspath(__file__)))
sys.path.insert(0, ROOT)
from hcsa.facts import Crate
from hcsa.engine import Ctx

REPO = os.environ.get("HC_REPO", "/repo")
CACHE = os.path.join(ROOT, ".cache")
WORK = os.path.join(ROOT, ".work")
DRIVER = os.path.join(ROOT, "hcfacts", "target", "release", "hcfacts")

CONFIGS = {
    # name: (cargo args, description)
    "all": (["--features", "shared-core,cache"], "default + shared-core + cache (superset configuration)"),
    "default": ([], "default features (tokio, sparse, replication)"),
    "asyncstd": (["--no-default-features", "--features", "async-std,sparse,replication"], "async-std runtime instead of tokio"),
}

PROPS = ["C01", "C02", "C03", "C04", "C05", "C06", "C07", "C08", "C09", "C10", "C11", "C12", "C13", "C14", "C15"]


def sysroot_lib():
    out = subprocess.run(["rustc", "+nightly", "--print", "sysroot"], capture_output=True, text=True, check=True).stdout.strip()
    return os.path.join(out, "lib")


def ensure_driver():
    if os.path.exists(DRIVER):
        return
    env = dict(os.environ, CARGO_NET_OFFLINE="true")
    subprocess.run(["cargo", "build", "--release", "--offline"], cwd=os.path.join(ROOT, "hcfacts"), env=env, check=True,
                   stdout=subprocess.DEVNULL, stderr=subprocess.DEVNULL)


def extract(config, repo=REPO, crate="hypercore", target=None, out=None):
    """run the driver over `repo`; returns path of the fact file (written by
    this invocation) — raises if the driver did not produce it."""
    ensure_driver()
    os.makedirs(WORK, exist_ok=True)
    os.makedirs(CACHE, exist_ok=True)
    target = target or os.path.join(CACHE, "target")
    out = out or os.path.join(WORK, "facts_%s_%s_%d.json" % (crate, config, os.getpid()))
    if os.path.exists(out):
        os.unlink(out)
    args = CONFIGS[config][0] if config in CONFIGS else []
    env = dict(os.environ)
    env.update({
        "HC_FACTS": out,
        "HC_CRATE": crate,
        "LD_LIBRARY_PATH": sysroot_lib() + ":" + env.get("LD_LIBRARY_PATH", ""),
        "RUSTC_WORKSPACE_WRAPPER": DRIVER,
        "CARGO_TARGET_DIR": target,
        "CARGO_NET_OFFLINE": "true",
    })
    env.pop("RUSTFLAGS", None)
    # one cargo invocation per target directory at a time (the driver is skipped on a warm
    # fingerprint, so fingerprints are deleted under the lock)
    lock = open(os.path.join(CACHE, "extract-%s.lock" % os.path.basename(target.rstrip("/"))), "w")
    fcntl.flock(lock, fcntl.LOCK_EX)
    try:
        fp = os.path.join(target, "debug", ".fingerprint")
        if os.path.isdir(fp):
            for d in os.listdir(fp):
                if d.startswith(crate.replace("_", "-") + "-") or d.startswith(crate + "-"):
                    shutil.rmtree(os.path.join(fp, d), ignore_errors=True)
        p = subprocess.run(["cargo", "+nightly", "check", "--offline", "--lib"] + args, cwd=repo, env=env, capture_output=True, text=True)
    finally:
        fcntl.flock(lock, fcntl.LOCK_UN)
        lock.close()
    if p.returncode != 0 or not os.path.exists(out):
        sys.stderr.write(p.stderr[-4000:])
        raise RuntimeError("fact extraction failed for config %s (cargo exit %d, fact file %s)" % (config, p.returncode, "present" if os.path.exists(out) else "missing"))
    return out


def load_known():
    path = os.path.join(ROOT, "known-findings.txt")
    known = {}
    if os.path.exists(path):
        for line in open(path):
            line = line.strip()
            if line.startswith("finding:"):
                # finding: property=C02 key=<key> :: description
                body = line[len("finding:"):].strip()
                head, _, desc = body.partition("::")
                kv = dict(x.split("=", 1) for x in head.split() if "=" in x)
                if "key" in kv:
                    known[kv["key"].replace("%20", " ")] = (kv.get("property"), desc.strip())
    return known


def rules_for(prop):
    m = importlib.import_module("hcsa.rules." + prop.lower())
    return m


def run_property(prop, tier, facts_override=None, quiet=False):
    t0 = time.time()
    mod = rules_for(prop)
    configs = list(getattr(mod, "CONFIGS_QUICK", ["all"]))
    if tier == "thorough":
        configs = list(getattr(mod, "CONFIGS_THOROUGH", ["all", "default", "asyncstd"]))
    all_insts = []
    per_config = {}
    counts = {}
    made = []
    for cfg in configs:
        if facts_override:
            path = facts_override
        else:
            path = extract(cfg)
            made.append(path)
        crate = Crate(path)
        ctx = Ctx(crate, cfg)
        for r in mod.RULES:
            feat = getattr(r, "needs_feature", None)
            if feat and feat not in crate.features:
                continue
            try:
                r(ctx)
            except Exception as e:  # a crashing rule must not pass silently
                import traceback
                ctx.fail(prop, getattr(r, "__name__", "rule"), "rule evaluation", "internal error while evaluating rule: %r\n%s" % (e, traceback.format_exc()[-1500:]),
                         key="%s|%s|INTERNAL-ERROR" % (prop, r.__name__))
        for i in ctx.insts:
            i.config = cfg
        per_config[cfg] = ctx.insts
        all_insts.extend(ctx.insts)
        counts[cfg] = crate.counts()
        counts[cfg]["features"] = crate.features
        if crate.norm is not None:
            counts[cfg]["normalisation"] = {"helpers_spliced": ["%s <- %s (%s)" % (x["caller"], x["callee"], x["kind"]) for x in crate.norm["inlined"]],
                                            "helpers_absorbed": crate.norm["absorbed"], "splice_refused": crate.norm["refused"],
                                            "bool_edges_threaded": crate.norm["threaded_edges"], "variant_edges_threaded": crate.norm["threaded_variant_edges"]}
    for p in made:
        try:
            os.unlink(p)
        except OSError:
            pass
    # controls: zero-expected rules must fire on the control crate
    controls = []
    if hasattr(mod, "CONTROLS"):
        from hcsa import controls as ctl
        controls = ctl.run(mod.CONTROLS, extract)
    return mod, all_insts, counts, controls, time.time() - t0


def main():
    args = sys.argv[1:]
    if not args:
        print("usage: check <PROPERTY|all> [--tier quick|thorough]")
        sys.exit(2)
    prop = args[0]
    tier = os.environ.get("VERIF_TIER", "quick")
    facts_override = None
    i = 1
    while i < len(args):
        if args[i] == "--tier":
            tier = args[i + 1]
            i += 2
        elif args[i] == "--facts":
            facts_override = args[i + 1]
            i += 2
        else:
            i += 1
    if tier not in ("quick", "thorough"):
        tier = "quick"
    seed = int(os.environ.get("VERIF_SEED", "0") or 0)
    props = PROPS if prop == "all" else [prop]
    rc = 0
    for p in props:
        rc |= one(p, tier, seed, facts_override)
    sys.exit(rc)


def one(prop, tier, seed, facts_override):
    from hcsa import evidence
    known = load_known()
    try:
        mod, insts, counts, controls, wall = run_property(prop, tier, facts_override)
    except Exception as e:
        import traceback
        traceback.print_exc()
        rep = os.path.join(ROOT, "reports", prop + ".json")
        os.makedirs(os.path.dirname(rep), exist_ok=True)
        json.dump({"property": prop, "error": repr(e)}, open(rep, "w"), indent=1)
        print("check could not run: %r" % (e,))
        print("VIOLATION property=%s replay=%s" % (prop, rep))
        return 1
    t_extra = time.time()
    selftests = None
    if tier == "thorough":
        from hcsa import selftest, witness
        selftests = selftest.run(prop, extract)
        if prop in ("C12", "C13", "C15"):
            selftests = selftests + witness.run(prop)
    wall += time.time() - t_extra
    out_root = ROOT
    if os.path.realpath(REPO) != "/repo":
        # evaluating a scratch copy (seeded change, experiment): never touch the committed evidence
        out_root = os.path.join(WORK, "alt")
        print("note: HC_REPO=%s — evidence and report go to %s, not to /verif/evidence" % (REPO, out_root))
    return evidence.finish(out_root, prop, tier, seed, mod, insts, counts, controls, selftests, known, wall)


if __name__ == "__main__":
    main()
