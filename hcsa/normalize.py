"""Fact-level normalisations applied before any rule runs (DESIGN.md section 11.5).

The rules anchor on the functions of the reviewed tree.  A behaviour-preserving edit that
moves part of such a function into a *new* helper (sync or async) must not change a
verdict, so every call to a crate-local function that the reviewed tree does not know
(`rules/known_fns.json`) is spliced into its caller's MIR: the helper is analysed as part
of every function that calls it, with the caller's guards, dominators and origin terms.
A helper all of whose call sites were spliced (and that is not public API) is then dropped
from the set of stand-alone bodies.

Everything here is a semantics-preserving program transformation on the MIR facts:
  inline_helpers   call-by-value splice of a callee body (args copied to the callee's
                   parameter locals, `return` becomes an assignment of the destination and a
                   goto); for an `async fn` helper the coroutine body is spliced at the
                   `.await` (the poll result becomes `Poll::Ready(<callee result>)`)
  thread_jumps     a block that only switches on a bool local is bypassed from predecessors
                   that have just assigned that local a constant (`let ok = a && b; if !ok`)
"""
import copy
import json
import os

from .facts import Body, op_place
from .analysis import FnA, POLL, strip

ROOT = os.path.dirname(os.path.dirname(os.path.abspath(__file__)))
KNOWN_PATH = os.path.join(ROOT, "rules", "known_fns.json")
MAX_ROUNDS = 4
MAX_CALLEE_BLOCKS = 400


def load_known():
    with open(KNOWN_PATH) as f:
        return set(json.load(f)["functions"])


def load_params():
    with open(KNOWN_PATH) as f:
        return json.load(f).get("params", {})


def load_sigs():
    with open(KNOWN_PATH) as f:
        return json.load(f).get("sigs", {})


def alias_renamed_fns(j, sigs):
    """A function of the reviewed tree that is gone, while a function the reviewed tree does not
    know has appeared in the same module / impl with the same parameter types, return type and
    asyncness — uniquely both ways — is a RENAME: the new name is mapped back to the reviewed one
    everywhere (body names, closures nested in it, every callee / resolved reference), so renaming
    a private function changes no verdict.  Returns [(new name, reviewed name)]."""
    present = {b["name"]: b for b in j["bodies"] if b["kind"] in ("Fn", "AssocFn")}
    missing = [n for n in sigs if n not in present]
    unknown = [n for n in present if n not in sigs]
    if not missing or not unknown:
        return []
    def sig_of(b):
        return (b.get("parent"), tuple(b.get("inputs") or ()), b.get("output"), bool(b.get("asyncness")), b.get("impl_trait"))
    def sig_known(n):
        s_ = sigs[n]
        return (s_.get("parent"), tuple(s_.get("inputs") or ()), s_.get("output"), bool(s_.get("async")), s_.get("impl_trait"))
    by_sig_m, by_sig_u = {}, {}
    for n in missing:
        by_sig_m.setdefault(sig_known(n), []).append(n)
    for n in unknown:
        by_sig_u.setdefault(sig_of(present[n]), []).append(n)
    ren = {}
    for sg, ms in by_sig_m.items():
        us = by_sig_u.get(sg, [])
        if len(ms) == 1 and len(us) == 1:
            ren[us[0]] = ms[0]
    # moved, not renamed: same function name and signature under another module / impl path
    left_m = [n for n in missing if n not in ren.values()]
    left_u = [n for n in unknown if n not in ren]
    mv_m, mv_u = {}, {}
    for n in left_m:
        mv_m.setdefault((n.split("::")[-1],) + sig_known(n)[1:], []).append(n)
    for n in left_u:
        mv_u.setdefault((n.split("::")[-1],) + sig_of(present[n])[1:], []).append(n)
    for sg, ms in mv_m.items():
        us = mv_u.get(sg, [])
        if len(ms) == 1 and len(us) == 1:
            ren[us[0]] = ms[0]
    if not ren:
        return []
    import re as _re
    keys = sorted(ren, key=len, reverse=True)
    pat = _re.compile("|".join(_re.escape(k) + r"(?![\w])" for k in keys))
    def fix(sv):
        return pat.sub(lambda m: ren[m.group(0)], sv)
    def walk(x):
        if isinstance(x, list):
            return [walk(e) for e in x]
        if isinstance(x, dict):
            out = {}
            for k, v in x.items():
                if k in ("span", "fn_span"):
                    out[k] = v
                elif isinstance(v, str) and k in ("name", "callee", "callee_full", "resolved", "fn", "parent", "def"):
                    out[k] = fix(v)
                else:
                    out[k] = walk(v)
            return out
        return x
    j["bodies"] = walk(j["bodies"])
    return sorted(ren.items())


def alias_params(j, params):
    """Parameters are identified by position: a function of the reviewed tree whose parameter was
    renamed keeps the reviewed name in every term (`self.x`, `changeset.fork`), so renaming a
    parameter changes no verdict.  Applies to fn bodies (argument locals) and to the coroutine
    bodies of async fns (captured parameters and the locals they are moved into)."""
    n = 0
    for b in j["bodies"]:
        ref = params.get(b["name"])
        if not ref:
            continue
        if "args" in ref and b["kind"] in ("Fn", "AssocFn") and len(ref["args"]) == b["arg_count"]:
            for i, nm in enumerate(ref["args"]):
                loc = b["locals"][i + 1]
                if nm and loc.get("name") and loc["name"] != nm:
                    loc["name"] = nm
                    n += 1
        if "upvars" in ref and b.get("is_coroutine") and len(ref["upvars"]) == len(b["upvars"]):
            ren = {}
            for u, nm in zip(b["upvars"], ref["upvars"]):
                if nm and u["name"] != nm:
                    ren[u["name"]] = nm
                    u["name"] = nm
                    n += 1
            if ren:
                for loc in b["locals"]:
                    if loc.get("name") in ren:
                        loc["name"] = ren[loc["name"]]
                # closures nested in the coroutine (e.g. #[instrument]) capture the parameters by
                # name, in order of first use: rename them by name
                for nb in j["bodies"]:
                    if nb["name"].startswith(b["name"] + "::"):
                        for u in nb["upvars"]:
                            if u["name"] in ren:
                                u["name"] = ren[u["name"]]
                        for loc in nb["locals"]:
                            if loc.get("name") in ren:
                                loc["name"] = ren[loc["name"]]
    return n


# --------------------------------------------------------------------------- generic remapping
BLOCK_KEYS = ("target", "otherwise", "imaginary", "cdrop")


def assign(place_l, operand, span):
    return {"k": "assign", "place": {"l": place_l, "p": []}, "rv": {"k": "use", "op": operand}, "span": span}


# --------------------------------------------------------------------------- helper inlining
def _simple_async_shell(fb):
    """an `async fn` is a shell `_0 = coroutine{params}; return`: returns (coroutine body
    name, [param local per upvar]) or None"""
    blocks = [b for b in fb["blocks"] if not b["cleanup"]]
    if not blocks:
        return None
    b0 = fb["blocks"][0]
    st = [s for s in b0["stmts"] if s["k"] == "assign"]
    if len(st) != 1 or b0["term"]["k"] != "return":
        return None
    rv = st[0]["rv"]
    if rv["k"] != "agg" or rv["kind"] != "coroutine" or st[0]["place"]["l"] != 0 or st[0]["place"]["p"]:
        return None
    params = []
    for o in rv["ops"]:
        p = op_place(o)
        if p is None or p["p"] or not (1 <= p["l"] <= fb["arg_count"]):
            return None
        params.append(p["l"])
    return rv["name"], params


def _await_of(fa, b):
    """the poll site and Ready continuation of the `.await` consuming the future returned by
    the call terminating block b: (poll bb, ready target bb, poll dest place) or None"""
    hit = []
    for n, t in fa.calls():
        if t.get("callee") not in POLL or not t["args"]:
            continue
        o = strip(fa.arg_origin(n, 0))
        if o[0] == "call" and o[1] == b:
            hit.append(n)
    if len(hit) != 1:
        return None
    p = hit[0]
    pt = fa.blocks[p].term
    if pt.get("target") is None or pt["dest"]["p"]:
        return None
    sw = fa.blocks[pt["target"]].term
    if sw["k"] != "switch":
        return None
    ready = None
    for v, bb in sw["targets"]:
        if v == 0:
            ready = bb
    if ready is None:
        return None
    return p, ready, pt["dest"]


class Inliner:
    def __init__(self, j, known):
        self.j = j
        self.known = known
        self.by_name = {}
        for b in j["bodies"]:
            self.by_name.setdefault(b["name"], b)
        self.log = []          # (caller, callee, kind)
        self.refused = []      # (caller, callee, reason)

    def unknown_helper(self, name):
        b = self.by_name.get(name)
        if b is None or b["kind"] not in ("Fn", "AssocFn"):
            return None
        if name in self.known:
            return None
        if b.get("impl_trait"):
            return None  # a trait method implementation is an interface, not a private helper
        return b

    def run(self):
        for _ in range(MAX_ROUNDS):
            changed = False
            for body in list(self.j["bodies"]):
                if self.inline_in(body):
                    changed = True
            if not changed:
                break
        # helpers with no remaining call site (and not public) are analysed only inside their callers
        still_called = set()
        for body in self.j["bodies"]:
            for blk in body["blocks"]:
                t = blk["term"]
                if t["k"] == "call" and not blk.get("dead_by_inline"):
                    for k in ("callee", "resolved"):
                        if t.get(k):
                            still_called.add(t[k])
                    for a in t["args"]:
                        if "k" in a and "fn" in a["k"]:
                            still_called.add(a["k"]["fn"])
        absorbed = set()
        for caller, callee, kind in self.log:
            fb = self.by_name[callee]
            if callee in still_called or fb.get("vis") == "Public":
                continue
            absorbed.add(callee)
        if absorbed:
            drop = set()
            for a in absorbed:
                drop.add(a)
                sh = _simple_async_shell(self.by_name[a]) if self.by_name[a].get("asyncness") else None
                if sh:
                    drop.add(sh[0])
            self.j["bodies"] = [b for b in self.j["bodies"] if b["name"] not in drop]
        self.absorbed = sorted(absorbed)
        return self

    # ---------------------------------------------------------------------------------
    def inline_in(self, body):
        changed = False
        # candidates are recomputed after every splice (block indices of later sites are stable
        # because blocks are only appended, but the analysis object is not)
        while True:
            site = None
            for blk in body["blocks"]:
                t = blk["term"]
                if blk["cleanup"] or t["k"] != "call" or not t.get("resolved_local") or blk.get("no_inline"):
                    continue
                callee = t.get("resolved")
                fb = self.unknown_helper(callee)
                if fb is None:
                    continue
                chain = blk.get("inl", ())
                if callee == body["name"] or callee in chain or body["name"].startswith(callee + "::{closure"):
                    blk["no_inline"] = True
                    self.refused.append((body["name"], callee, "recursive"))
                    continue
                site = (blk, fb, callee)
                break
            if site is None:
                return changed
            blk, fb, callee = site
            ok = self.splice_async(body, blk, fb, callee) if fb.get("asyncness") else self.splice_sync(body, blk, fb, callee)
            if not ok:
                blk["no_inline"] = True
            else:
                changed = True

    @staticmethod
    def generic_map(fb, gargs):
        """type-parameter names of a generic helper -> the call's type arguments.  The facts do not
        list generic parameters by name, so they are taken from the helper's signature and body types
        in order of first appearance (single capital letters / CamelCase identifiers that are not
        paths); used only when the counts agree."""
        import re as _re
        args = [g for g in (gargs or []) if not g.startswith("'")]
        if not args:
            return {}
        seen = []
        texts = list(fb.get("inputs") or []) + [fb.get("output") or ""]
        for blk_ in fb["blocks"]:
            tt = blk_["term"]
            if tt["k"] == "call":
                texts += [tt.get("callee_full") or ""] + list(tt.get("arg_tys") or []) + [tt.get("dest_ty") or ""]
        for tx in texts:
            for m in _re.finditer(r"(?<![\w:'])([A-Z][A-Za-z0-9]*)(?![\w:(<])", tx):
                nm = m.group(1)
                if nm not in seen and nm not in ("Self",):
                    seen.append(nm)
        if len(seen) != len(args):
            return {}
        return dict(zip(seen, args))

    @staticmethod
    def subst_types(x, gm):
        import re as _re
        if not gm:
            return x
        pat = _re.compile(r"(?<![\w:'])(%s)(?![\w:(])" % "|".join(_re.escape(k) for k in gm))
        def walk(v):
            if isinstance(v, list):
                return [walk(e) for e in v]
            if isinstance(v, dict):
                out = {}
                for k, e in v.items():
                    if k in ("callee_full", "dest_ty", "ty") and isinstance(e, str):
                        out[k] = pat.sub(lambda m: gm[m.group(1)], e)
                    elif k in ("arg_tys", "gargs") and isinstance(e, list):
                        out[k] = [pat.sub(lambda m: gm[m.group(1)], a) if isinstance(a, str) else a for a in e]
                    elif k in ("span", "fn_span"):
                        out[k] = e
                    else:
                        out[k] = walk(e)
                return out
            return v
        return walk(x)

    def splice_sync(self, body, blk, fb, callee):
        t = blk["term"]
        gm = self.generic_map(fb, t.get("gargs"))
        if gm:
            fb = dict(fb, blocks=self.subst_types(fb["blocks"], gm), locals=self.subst_types(fb["locals"], gm))
        if len(fb["blocks"]) > MAX_CALLEE_BLOCKS or fb.get("is_coroutine"):
            self.refused.append((body["name"], callee, "too large / coroutine"))
            return False
        if len(t["args"]) != fb["arg_count"]:
            self.refused.append((body["name"], callee, "arity"))
            return False
        chain = tuple(blk.get("inl", ())) + (callee,)
        lmap, boff, rets = self._append_callee_marked(body, fb, chain, ctx_local=None)
        span = t["span"]
        for i, a in enumerate(t["args"]):
            blk["stmts"].append(assign(lmap(i + 1), a, span))
        for rb in rets:
            rb["stmts"].append({"k": "assign", "place": copy.deepcopy(t["dest"]), "rv": {"k": "use", "op": {"m": {"l": lmap(0), "p": []}}}, "span": rb["term"]["span"]})
            if t.get("target") is not None:
                rb["term"] = {"k": "goto", "target": t["target"], "span": rb["term"]["span"]}
            else:
                rb["term"] = {"k": "unreachable", "span": rb["term"]["span"]}
        blk["term"] = {"k": "goto", "target": boff, "span": span, "inlined_call": callee}
        self.log.append((body["name"], callee, "sync"))
        return True

    def splice_async(self, body, blk, fb, callee):
        t = blk["term"]
        sh = _simple_async_shell(fb)
        if sh is None or not body.get("is_coroutine"):
            self.refused.append((body["name"], callee, "async helper without the plain shell / caller not a coroutine"))
            return False
        cname, params = sh
        cb = self.by_name.get(cname)
        if cb is None or len(cb["blocks"]) > MAX_CALLEE_BLOCKS or len(t["args"]) != fb["arg_count"]:
            self.refused.append((body["name"], callee, "coroutine body missing / too large"))
            return False
        fa = FnA(Body(body))
        aw = _await_of(fa, blk["i"])
        if aw is None:
            self.refused.append((body["name"], callee, "future is not awaited exactly once in the caller"))
            return False
        poll_bb, ready_bb, poll_dest = aw
        chain = tuple(blk.get("inl", ())) + (callee,)
        # one fresh local per upvar, holding the corresponding call argument
        n0 = len(body["locals"])
        upmap = {}
        for k, pl in enumerate(params):
            src = fb["locals"][pl]
            body["locals"].append({"i": n0 + k, "ty": src["ty"], "name": None, "user": False, "inl": callee})
            upmap[k] = n0 + k
        cb2 = copy.deepcopy(cb)
        cb2["blocks"] = [subst_upvars_marked(b, upmap) for b in cb2["blocks"]]
        lmap, boff, rets = self._append_callee_marked(body, cb2, chain, ctx_local=2)
        span = t["span"]
        for k, pl in enumerate(params):
            blk["stmts"].append(assign(upmap[k], t["args"][pl - 1], span))
        for rb in rets:
            rb["stmts"].append({"k": "assign", "place": copy.deepcopy(poll_dest), "span": rb["term"]["span"],
                                "rv": {"k": "agg", "kind": "adt", "name": "std::task::Poll", "variant": "Ready", "variant_idx": 0, "ty": "std::task::Poll",
                                       "fields": ["0"], "ops": [{"m": {"l": lmap(0), "p": []}}]}})
            rb["term"] = {"k": "goto", "target": ready_bb, "span": rb["term"]["span"]}
        blk["term"] = {"k": "goto", "target": boff, "span": span, "inlined_call": callee}
        self.log.append((body["name"], callee, "async"))
        return True

    def _append_callee_marked(self, body, cb, chain, ctx_local):
        """like _append_callee, for a body whose upvar places were already rewritten to caller
        locals (marked {'abs': n})"""
        n_loc = len(body["locals"])
        n_blk = len(body["blocks"])

        def lmap(l):
            if isinstance(l, tuple):
                return l[1]
            if ctx_local is not None and l == 2:
                return ctx_local  # the callee coroutine's task context is the caller's
            return n_loc + l

        def bmap(b):
            return n_blk + b

        for loc in cb["locals"]:
            nl = dict(loc)
            nl["i"] = n_loc + loc["i"]
            nl["inl"] = cb["name"]
            body["locals"].append(nl)
        rets = []
        for blk in cb["blocks"]:
            nb = remap_marked({"stmts": blk["stmts"], "term": blk["term"]}, lmap, bmap)
            nb["i"] = n_blk + blk["i"]
            nb["cleanup"] = blk["cleanup"]
            nb["inl"] = chain
            if nb["term"]["k"] == "return" and not blk["cleanup"]:
                rets.append(nb)
            body["blocks"].append(nb)
        return lmap, n_blk, rets


def subst_upvars_marked(x, upmap):
    """as subst_upvars, but the substituted local is marked absolute ({'abs': n})"""
    if isinstance(x, list):
        return [subst_upvars_marked(e, upmap) for e in x]
    if not isinstance(x, dict):
        return x
    if isinstance(x.get("l"), int) and "p" in x and len(x) == 2:
        if x["l"] == 1 and x["p"] and isinstance(x["p"][0], dict) and "f" in x["p"][0] and x["p"][0]["f"] in upmap:
            return {"l": {"abs": upmap[x["p"][0]["f"]]}, "p": subst_upvars_marked(x["p"][1:], upmap)}
        return {"l": x["l"], "p": subst_upvars_marked(x["p"], upmap)}
    return {k: (v if k in ("span", "fn_span") else subst_upvars_marked(v, upmap)) for k, v in x.items()}


def remap_marked(x, lmap, bmap):
    if isinstance(x, list):
        return [remap_marked(e, lmap, bmap) for e in x]
    if not isinstance(x, dict):
        return x
    if "l" in x and "p" in x and len(x) == 2 and (isinstance(x["l"], int) or (isinstance(x["l"], dict) and "abs" in x["l"])):
        l = x["l"]["abs"] if isinstance(x["l"], dict) else lmap(x["l"])
        return {"l": l, "p": [({**e, "i": lmap(e["i"])} if isinstance(e, dict) and "i" in e else copy.copy(e)) for e in x["p"]]}
    out = {}
    for k, v in x.items():
        if k in BLOCK_KEYS and isinstance(v, int):
            out[k] = bmap(v)
        elif k == "targets" and isinstance(v, list):
            out[k] = [[a, bmap(b)] for a, b in v]
        elif k == "l" and isinstance(v, int) and x.get("k") == "dead":
            out[k] = lmap(v)
        elif k in ("span", "fn_span"):
            out[k] = v
        else:
            out[k] = remap_marked(v, lmap, bmap)
    return out


# --------------------------------------------------------------------------- adaptor desugaring
OPT, RES = "std::option::Option", "std::result::Result"
VIDX = {"None": 0, "Some": 1, "Ok": 0, "Err": 1, "Continue": 0, "Break": 1}

ADAPTORS = {
    "std::iter::Iterator::for_each": "for_each",
    "std::iter::Iterator::fold": "fold",
    "std::iter::Iterator::try_fold": "try_fold",
    "std::iter::Iterator::sum": "sum",
    "std::iter::Iterator::find_map": "find_map",
    "std::iter::Iterator::any": "any",
    "std::iter::Iterator::all": "all",
    "std::iter::Iterator::collect": "collect",
    "std::option::Option::<T>::map": "opt_map",
    "std::option::Option::<T>::and_then": "opt_and_then",
    "std::option::Option::<T>::map_or": "opt_map_or",
    "std::option::Option::<T>::map_or_else": "opt_map_or_else",
    "std::option::Option::<T>::unwrap_or_else": "opt_unwrap_or_else",
    "std::option::Option::<T>::unwrap_or": "opt_unwrap_or",
    "std::option::Option::<T>::ok_or": "opt_ok_or",
    "std::option::Option::<T>::ok_or_else": "opt_ok_or_else",
    "std::option::Option::<T>::filter": "opt_filter",
    "std::option::Option::<T>::take_if": "opt_take_if",
    "std::option::Option::<std::result::Result<T, E>>::transpose": "opt_transpose",
    "std::option::Option::<std::option::Option<T>>::flatten": "opt_flatten",
    "core::bool::<impl bool>::then": "bool_then",
    "std::bool::<impl bool>::then": "bool_then",
    "core::bool::<impl bool>::then_some": "bool_then_some",
    "std::bool::<impl bool>::then_some": "bool_then_some",
    "std::result::Result::<T, E>::map": "res_map",
    "std::result::Result::<T, E>::and_then": "res_and_then",
    "std::result::Result::<T, E>::unwrap_or_else": "res_unwrap_or_else",
    "std::result::Result::<T, E>::or_else": "res_or_else",
    "std::result::Result::<T, E>::map_or_else": "res_map_or_else",
    "std::result::Result::<T, E>::map_or": "res_map_or",
    "std::option::Option::<T>::or_else": "opt_or_else",
}
ITER_MAP = "std::iter::Iterator::map"
CLOSURE_CALLS = ("std::ops::Fn::call", "std::ops::FnMut::call_mut", "std::ops::FnOnce::call_once")


def _mv(l):
    return {"m": {"l": l, "p": []}}


def _cp(l):
    return {"c": {"l": l, "p": []}}


def _payload(l, variant, field="0"):
    return {"m": {"l": l, "p": [{"d": VIDX[variant], "n": variant}, {"f": int(field), "n": field}]}}


def _agg(enum, variant, ops):
    return {"k": "agg", "kind": "adt", "name": enum, "variant": variant, "variant_idx": VIDX[variant], "fields": [str(i) for i in range(len(ops))], "ops": ops}


UNIT = {"k": {"ty": "()", "repr": "()"}}


class Desugar:
    """Rewrites calls of the std iterator / Option / Result adaptors that take a closure defined in
    the same function into the explicit control flow they stand for, with the closure body
    spliced in (models of the std functions; listed in ADAPTORS).  `for x in it { f(x) }` and
    `it.for_each(|x| f(x))`, `match o { Some(x) => Some(g(x)), None => None }` and `o.map(g)`
    then present the same CFG, guards and origin terms to the rules.  A closure all of whose
    construction sites were consumed this way is no longer analysed as a stand-alone body."""

    def __init__(self, j):
        self.j = j
        self.by_name = {}
        for b in j["bodies"]:
            self.by_name.setdefault(b["name"], b)
        self.log = []
        self.consumed = {}     # closure name -> number of construction sites consumed

    # ------------------------------------------------------------------ small builders
    def new_local(self, body, ty, name=None):
        i = len(body["locals"])
        body["locals"].append({"i": i, "ty": ty, "name": name, "user": False, "synth": True})
        return i

    def new_block(self, body, stmts, term, chain=()):
        i = len(body["blocks"])
        body["blocks"].append({"i": i, "cleanup": False, "stmts": stmts, "term": term, "synth": True, "inl": tuple(chain)})
        return i

    def st(self, place_l, rv, span):
        return {"k": "assign", "place": {"l": place_l, "p": []}, "rv": rv, "span": span}

    def use(self, place_l, operand, span):
        return self.st(place_l, {"k": "use", "op": operand}, span)

    def goto(self, target, span):
        return {"k": "goto", "target": target, "span": span}

    def unreachable(self, body, span):
        return self.new_block(body, [], {"k": "unreachable", "span": span})

    def switch2(self, body, local, b0, b1, span, pre=()):
        """block: d = discriminant(local); switch d [0: b0, 1: b1]"""
        d = self.new_local(body, "isize")
        u = self.unreachable(body, span)
        return list(pre) + [self.st(d, {"k": "disc", "place": {"l": local, "p": []}}, span)], \
            {"k": "switch", "discr": _mv(d), "discr_ty": "isize", "targets": [[0, b0], [1, b1]], "otherwise": u, "span": span}

    # ------------------------------------------------------------------ callables
    def callable_of(self, body, operand):
        """('closure', name, captured operands, defining (block, stmt index)) | ('fn', name) | None"""
        if "k" in operand and "fn" in operand["k"]:
            return ("fn", operand["k"]["fn"])
        l = _plain(operand)
        for _ in range(5):
            if l is None:
                return None
            defs = []
            for blk in body["blocks"]:
                if blk["cleanup"]:
                    continue
                for si, st in enumerate(blk["stmts"]):
                    if st["k"] == "assign" and st["place"]["l"] == l and not st["place"]["p"]:
                        defs.append((blk, si, st))
                t = blk["term"]
                if t["k"] == "call" and t["dest"]["l"] == l:
                    return None
            if len(defs) != 1:
                return None
            blk, si, st = defs[0]
            rv = st["rv"]
            if rv["k"] == "agg" and rv["kind"] == "closure":
                cb = self.by_name.get(rv["name"])
                if cb is None or cb.get("is_coroutine") or len(cb["blocks"]) > MAX_CALLEE_BLOCKS:
                    return None
                return ("closure", rv["name"], rv["ops"], (blk["i"], si))
            if rv["k"] == "use":
                l = _plain(rv["op"])
                continue
            return None
        return None

    def emit_callable(self, body, call, args, result_local, nxt, span, chain):
        """blocks that evaluate call(args) into result_local and continue at nxt; returns entry"""
        if call[0] == "fn":
            name = call[1]
            t = {"k": "call", "callee": name, "callee_full": name, "callee_local": name in self.by_name, "gargs": [], "resolved": name,
                 "resolved_local": name in self.by_name, "resolved_kind": "synthetic", "args": list(args), "arg_tys": ["?"] * len(args),
                 "dest": {"l": result_local, "p": []}, "dest_ty": "?", "target": nxt, "fn_span": span, "span": span, "synth": True}
            return self.new_block(body, [], t, chain)
        _, name, captured, _site = call
        cb = self.by_name[name]
        self.consumed[name] = self.consumed.get(name, 0) + 1
        # upvars: one caller local per captured operand
        upmap = {}
        pre = []
        for k, op in enumerate(captured):
            u = self.new_local(body, "?upvar")
            upmap[k] = u
            pre.append(self.use(u, copy.deepcopy(op), span))
        n_loc = len(body["locals"])
        n_blk = len(body["blocks"]) + 1      # +1: the parameter block created below comes first
        cb2 = {"blocks": [subst_closure_upvars(b, upmap) for b in cb["blocks"]]}

        def lmap(l):
            return n_loc + l

        def bmap(b):
            return n_blk + b

        for loc in cb["locals"]:
            nl = dict(loc)
            nl["i"] = n_loc + loc["i"]
            nl["inl"] = name
            body["locals"].append(nl)
        if len(args) != cb["arg_count"] - 1:
            raise _Skip("closure arity")
        for k, a in enumerate(args):
            pre.append(self.use(lmap(2 + k), a, span))
        entry = self.new_block(body, pre, self.goto(n_blk, span), chain)
        assert entry == n_blk - 1
        cchain = tuple(chain) + (name,)
        for blk in cb2["blocks"]:
            nb = remap_marked({"stmts": blk["stmts"], "term": blk["term"]}, lmap, bmap)
            nb["i"] = n_blk + blk["i"]
            nb["cleanup"] = blk["cleanup"]
            nb["inl"] = cchain
            if nb["term"]["k"] == "return" and not blk["cleanup"]:
                nb["stmts"].append(self.use(result_local, _mv(lmap(0)), nb["term"]["span"]))
                nb["term"] = self.goto(nxt, nb["term"]["span"])
            body["blocks"].append(nb)
        return entry

    # ------------------------------------------------------------------ driver
    def run(self):
        for body in sorted(self.j["bodies"], key=lambda b: -len(b["name"])):
            guard = 0
            while guard < 60 and self.step(body):
                guard += 1
        # closures whose every construction site was consumed
        built = {}
        for body in self.j["bodies"]:
            for blk in body["blocks"]:
                for st in blk["stmts"]:
                    if st["k"] == "assign" and st["rv"]["k"] == "agg" and st["rv"]["kind"] == "closure" and not st.get("consumed"):
                        built[st["rv"]["name"]] = built.get(st["rv"]["name"], 0) + 1
        gone = set(n for n in self.consumed if built.get(n, 0) == 0)
        if gone:
            self.j["bodies"] = [b for b in self.j["bodies"] if b["name"] not in gone]
        self.absorbed = sorted(gone)
        return self

    def step(self, body):
        for blk in body["blocks"]:
            t = blk["term"]
            if blk["cleanup"] or t["k"] != "call" or blk.get("no_desugar") or t.get("target") is None or t["dest"]["p"]:
                continue
            kind = ADAPTORS.get(t.get("callee"))
            if kind is None and t.get("callee") in CLOSURE_CALLS and t.get("resolved_local"):
                kind = "closure_call"
            if kind is None:
                continue
            n_loc, n_blk = len(body["locals"]), len(body["blocks"])
            saved = (copy.deepcopy(blk["stmts"]), blk["term"], dict(self.consumed))
            marks = []
            try:
                getattr(self, "d_" + kind)(body, blk, t, marks)
            except _Skip as e:
                del body["locals"][n_loc:]
                del body["blocks"][n_blk:]
                blk["stmts"], blk["term"] = saved[0], saved[1]
                self.consumed = saved[2]
                blk["no_desugar"] = True
                continue
            for (bi, si) in marks:
                body["blocks"][bi]["stmts"][si]["consumed"] = True
            self.log.append((body["name"], t.get("callee"), blk["i"]))
            return True
        return False

    def need_callable(self, body, op, marks):
        c = self.callable_of(body, op)
        if c is None:
            raise _Skip("callable not resolvable")
        if c[0] == "closure":
            marks.append(c[3])
        return c

    # ------------------------------------------------------------------ direct closure calls
    def d_closure_call(self, body, blk, t, marks):
        """`(|| ..)()` / `let f = |x| ..; f(a)`: the closure body runs in place of the call"""
        def single_def(l):
            d = None
            n = 0
            for b_ in body["blocks"]:
                if b_["cleanup"]:
                    continue
                for si, st in enumerate(b_["stmts"]):
                    if st["k"] == "assign" and st["place"]["l"] == l and not st["place"]["p"]:
                        d = st
                        n += 1
                if b_["term"]["k"] == "call" and b_["term"]["dest"]["l"] == l:
                    n += 1
            return d if n == 1 else None
        l = _plain(t["args"][0])
        d = single_def(l) if l is not None else None
        op = t["args"][0]
        if d is not None and d["rv"]["k"] == "ref" and not d["rv"]["place"]["p"]:
            op = _mv(d["rv"]["place"]["l"])
        f = self.need_callable(body, op, marks)
        if f[0] != "closure" or f[1] != t.get("resolved"):
            raise _Skip("closure value not resolvable")
        # untuple the arguments
        al = _plain(t["args"][1]) if len(t["args"]) > 1 else None
        ad = single_def(al) if al is not None else None
        if ad is None or ad["rv"]["k"] != "agg" or ad["rv"]["kind"] != "tuple":
            raise _Skip("argument tuple not resolvable")
        span, chain = t["span"], blk.get("inl", ())
        entry = self.emit_callable(body, f, list(ad["rv"]["ops"]), t["dest"]["l"], t["target"], span, chain)
        blk["term"] = dict(self.goto(entry, span), desugared=t.get("callee"))
        # a named closure may be called several times: its construction stays "unconsumed" unless
        # this was the only use — decided by the construction count in run()
        marks[:] = [m for m in marks]

    # ------------------------------------------------------------------ Option / Result
    def _two_way(self, body, blk, t, enum, on0, on1):
        """b: X = arg0; switch disc(X) [0: on0(X), 1: on1(X)]; both continue at the call's target
        after assigning the destination.  on*(X, done) -> entry block; done(rv) builds the block
        that assigns dest and jumps to the target."""
        span = t["span"]
        chain = blk.get("inl", ())
        dest, target = t["dest"]["l"], t["target"]
        X = self.new_local(body, t["arg_tys"][0] if t.get("arg_tys") else "?")

        def done(rv):
            return self.new_block(body, [self.st(dest, rv, span)], self.goto(target, span), chain)

        b0 = on0(X, done)
        b1 = on1(X, done)
        stmts, term = self.switch2(body, X, b0, b1, span, pre=[self.use(X, t["args"][0], span)])
        blk["stmts"].extend(stmts)
        blk["term"] = dict(term, desugared=t.get("callee"))

    def _call_then(self, body, blk, t, call, args, wrap):
        """evaluate call(args) into R, then dest = wrap(R)"""
        span = t["span"]
        chain = blk.get("inl", ())
        R = self.new_local(body, "?")
        fin = self.new_block(body, [self.st(t["dest"]["l"], wrap(R), span)], self.goto(t["target"], span), chain)
        return self.emit_callable(body, call, args, R, fin, span, chain)

    def d_opt_map(self, body, blk, t, marks):
        f = self.need_callable(body, t["args"][1], marks)
        self._two_way(body, blk, t, OPT,
                      lambda X, done: done(_agg(OPT, "None", [])),
                      lambda X, done: self._call_then(body, blk, t, f, [_payload(X, "Some")], lambda R: _agg(OPT, "Some", [_mv(R)])))

    def d_opt_and_then(self, body, blk, t, marks):
        f = self.need_callable(body, t["args"][1], marks)
        self._two_way(body, blk, t, OPT,
                      lambda X, done: done(_agg(OPT, "None", [])),
                      lambda X, done: self._call_then(body, blk, t, f, [_payload(X, "Some")], lambda R: {"k": "use", "op": _mv(R)}))

    def d_opt_map_or(self, body, blk, t, marks):
        f = self.need_callable(body, t["args"][2], marks)
        self._two_way(body, blk, t, OPT,
                      lambda X, done: done({"k": "use", "op": t["args"][1]}),
                      lambda X, done: self._call_then(body, blk, t, f, [_payload(X, "Some")], lambda R: {"k": "use", "op": _mv(R)}))

    def d_opt_map_or_else(self, body, blk, t, marks):
        d = self.need_callable(body, t["args"][1], marks)
        f = self.need_callable(body, t["args"][2], marks)
        self._two_way(body, blk, t, OPT,
                      lambda X, done: self._call_then(body, blk, t, d, [], lambda R: {"k": "use", "op": _mv(R)}),
                      lambda X, done: self._call_then(body, blk, t, f, [_payload(X, "Some")], lambda R: {"k": "use", "op": _mv(R)}))

    def d_opt_unwrap_or_else(self, body, blk, t, marks):
        d = self.need_callable(body, t["args"][1], marks)
        self._two_way(body, blk, t, OPT,
                      lambda X, done: self._call_then(body, blk, t, d, [], lambda R: {"k": "use", "op": _mv(R)}),
                      lambda X, done: done({"k": "use", "op": _payload(X, "Some")}))

    def d_opt_unwrap_or(self, body, blk, t, marks):
        self._two_way(body, blk, t, OPT,
                      lambda X, done: done({"k": "use", "op": t["args"][1]}),
                      lambda X, done: done({"k": "use", "op": _payload(X, "Some")}))

    def d_opt_ok_or(self, body, blk, t, marks):
        self._two_way(body, blk, t, OPT,
                      lambda X, done: done(_agg(RES, "Err", [t["args"][1]])),
                      lambda X, done: done(_agg(RES, "Ok", [_payload(X, "Some")])))

    def d_opt_ok_or_else(self, body, blk, t, marks):
        e = self.need_callable(body, t["args"][1], marks)
        self._two_way(body, blk, t, OPT,
                      lambda X, done: self._call_then(body, blk, t, e, [], lambda R: _agg(RES, "Err", [_mv(R)])),
                      lambda X, done: done(_agg(RES, "Ok", [_payload(X, "Some")])))

    def d_opt_filter(self, body, blk, t, marks):
        """o.filter(p): Some(x) if p(&x) { Some(x) } else { None }"""
        f = self.need_callable(body, t["args"][1], marks)
        span, chain = t["span"], blk.get("inl", ())
        dest, target = t["dest"]["l"], t["target"]

        def some_arm(X, done):
            R = self.new_local(body, "bool")
            REF = self.new_local(body, "&?")
            keep = done(_agg(OPT, "Some", [_payload(X, "Some")]))
            drop_ = done(_agg(OPT, "None", []))
            sw = self.new_block(body, [], {"k": "switch", "discr": _mv(R), "discr_ty": "bool", "targets": [[0, drop_]], "otherwise": keep, "span": span}, chain)
            entry = self.emit_callable(body, f, [_mv(REF)], R, sw, span, chain)
            body["blocks"][entry]["stmts"].insert(0, self.st(REF, {"k": "ref", "mut": False, "fake": False, "place": {"l": X, "p": [{"d": 1, "n": "Some"}, {"f": 0, "n": "0"}]}}, span))
            return entry
        self._two_way(body, blk, t, OPT, lambda X, done: done(_agg(OPT, "None", [])), some_arm)

    def d_opt_take_if(self, body, blk, t, marks):
        """o.take_if(p) with o: &mut Option<T>: if let Some(x) = o { if p(x) { return o.take() } } None"""
        f = self.need_callable(body, t["args"][1], marks)
        span, chain = t["span"], blk.get("inl", ())
        dest, target = t["dest"]["l"], t["target"]
        X = self.new_local(body, t["arg_tys"][0] if t.get("arg_tys") else "&mut ?")
        deref = {"l": X, "p": ["*"]}
        payload = {"l": X, "p": ["*", {"d": 1, "n": "Some"}, {"f": 0, "n": "0"}]}
        R = self.new_local(body, "bool")
        REF = self.new_local(body, "&mut ?")
        none_b = self.new_block(body, [self.st(dest, _agg(OPT, "None", []), span)], self.goto(target, span), chain)
        none_b2 = self.new_block(body, [self.st(dest, _agg(OPT, "None", []), span)], self.goto(target, span), chain)
        take_b = self.new_block(body, [self.st(dest, _agg(OPT, "Some", [{"m": payload}]), span),
                                       {"k": "assign", "place": copy.deepcopy(deref), "rv": _agg(OPT, "None", []), "span": span}], self.goto(target, span), chain)
        sw = self.new_block(body, [], {"k": "switch", "discr": _mv(R), "discr_ty": "bool", "targets": [[0, none_b2]], "otherwise": take_b, "span": span}, chain)
        entry = self.emit_callable(body, f, [_mv(REF)], R, sw, span, chain)
        body["blocks"][entry]["stmts"].insert(0, self.st(REF, {"k": "ref", "mut": True, "fake": False, "place": copy.deepcopy(payload)}, span))
        d = self.new_local(body, "isize")
        u = self.unreachable(body, span)
        blk["stmts"].append(self.use(X, t["args"][0], span))
        blk["stmts"].append(self.st(d, {"k": "disc", "place": copy.deepcopy(deref)}, span))
        blk["term"] = {"k": "switch", "discr": _mv(d), "discr_ty": "isize", "targets": [[0, none_b], [1, entry]], "otherwise": u, "span": span, "desugared": t.get("callee")}

    def _bool_two_way(self, body, blk, t, on_true):
        span, chain = t["span"], blk.get("inl", ())
        dest, target = t["dest"]["l"], t["target"]
        B = self.new_local(body, "bool")
        none_b = self.new_block(body, [self.st(dest, _agg(OPT, "None", []), span)], self.goto(target, span), chain)
        some_b = on_true(lambda rv: self.new_block(body, [self.st(dest, rv, span)], self.goto(target, span), chain))
        blk["stmts"].append(self.use(B, t["args"][0], span))
        blk["term"] = {"k": "switch", "discr": _mv(B), "discr_ty": "bool", "targets": [[0, none_b]], "otherwise": some_b, "span": span, "desugared": t.get("callee")}

    def d_bool_then(self, body, blk, t, marks):
        """b.then(f): if b { Some(f()) } else { None }"""
        f = self.need_callable(body, t["args"][1], marks)
        self._bool_two_way(body, blk, t, lambda done: self._call_then(body, blk, t, f, [], lambda R: _agg(OPT, "Some", [_mv(R)])))

    def d_bool_then_some(self, body, blk, t, marks):
        """b.then_some(v): if b { Some(v) } else { None }  (v is evaluated before the call either way)"""
        self._bool_two_way(body, blk, t, lambda done: done(_agg(OPT, "Some", [t["args"][1]])))

    def d_opt_flatten(self, body, blk, t, marks):
        """Option<Option<T>>::flatten: Some(x) => x, None => None"""
        self._two_way(body, blk, t, OPT,
                      lambda X, done: done(_agg(OPT, "None", [])),
                      lambda X, done: done({"k": "use", "op": _payload(X, "Some")}))

    def d_opt_transpose(self, body, blk, t, marks):
        """Option<Result<T, E>>::transpose: None => Ok(None), Some(Ok(x)) => Ok(Some(x)), Some(Err(e)) => Err(e)"""
        span, chain = t["span"], blk.get("inl", ())

        def some_arm(X, done):
            Y = self.new_local(body, "std::result::Result<?, ?>")
            # Ok(x): dest = Ok(Some(x))
            inner = self.new_local(body, "std::option::Option<?>")
            okb = self.new_block(body, [self.st(inner, _agg(OPT, "Some", [_payload(Y, "Ok")]), span)], None, chain)
            fin = done(_agg(RES, "Ok", [_mv(inner)]))
            body["blocks"][okb]["term"] = self.goto(fin, span)
            errb = done(_agg(RES, "Err", [_payload(Y, "Err")]))
            stmts, term = self.switch2(body, Y, okb, errb, span, pre=[self.use(Y, _payload(X, "Some"), span)])
            return self.new_block(body, stmts, term, chain)

        def none_arm(X, done):
            inner = self.new_local(body, "std::option::Option<?>")
            nb = self.new_block(body, [self.st(inner, _agg(OPT, "None", []), span)], None, chain)
            fin = done(_agg(RES, "Ok", [_mv(inner)]))
            body["blocks"][nb]["term"] = self.goto(fin, span)
            return nb
        self._two_way(body, blk, t, OPT, none_arm, some_arm)

    def d_res_map(self, body, blk, t, marks):
        f = self.need_callable(body, t["args"][1], marks)
        self._two_way(body, blk, t, RES,
                      lambda X, done: self._call_then(body, blk, t, f, [_payload(X, "Ok")], lambda R: _agg(RES, "Ok", [_mv(R)])),
                      lambda X, done: done(_agg(RES, "Err", [_payload(X, "Err")])))

    def d_res_and_then(self, body, blk, t, marks):
        f = self.need_callable(body, t["args"][1], marks)
        self._two_way(body, blk, t, RES,
                      lambda X, done: self._call_then(body, blk, t, f, [_payload(X, "Ok")], lambda R: {"k": "use", "op": _mv(R)}),
                      lambda X, done: done(_agg(RES, "Err", [_payload(X, "Err")])))

    def d_res_unwrap_or_else(self, body, blk, t, marks):
        f = self.need_callable(body, t["args"][1], marks)
        self._two_way(body, blk, t, RES,
                      lambda X, done: done({"k": "use", "op": _payload(X, "Ok")}),
                      lambda X, done: self._call_then(body, blk, t, f, [_payload(X, "Err")], lambda R: {"k": "use", "op": _mv(R)}))

    def d_res_or_else(self, body, blk, t, marks):
        f = self.need_callable(body, t["args"][1], marks)
        self._two_way(body, blk, t, RES,
                      lambda X, done: done(_agg(RES, "Ok", [_payload(X, "Ok")])),
                      lambda X, done: self._call_then(body, blk, t, f, [_payload(X, "Err")], lambda R: {"k": "use", "op": _mv(R)}))

    def d_res_map_or_else(self, body, blk, t, marks):
        d = self.need_callable(body, t["args"][1], marks)
        f = self.need_callable(body, t["args"][2], marks)
        self._two_way(body, blk, t, RES,
                      lambda X, done: self._call_then(body, blk, t, f, [_payload(X, "Ok")], lambda R: {"k": "use", "op": _mv(R)}),
                      lambda X, done: self._call_then(body, blk, t, d, [_payload(X, "Err")], lambda R: {"k": "use", "op": _mv(R)}))

    def d_res_map_or(self, body, blk, t, marks):
        f = self.need_callable(body, t["args"][2], marks)
        self._two_way(body, blk, t, RES,
                      lambda X, done: self._call_then(body, blk, t, f, [_payload(X, "Ok")], lambda R: {"k": "use", "op": _mv(R)}),
                      lambda X, done: done({"k": "use", "op": t["args"][1]}))

    def d_opt_or_else(self, body, blk, t, marks):
        d = self.need_callable(body, t["args"][1], marks)
        self._two_way(body, blk, t, OPT,
                      lambda X, done: self._call_then(body, blk, t, d, [], lambda R: {"k": "use", "op": _mv(R)}),
                      lambda X, done: done(_agg(OPT, "Some", [_payload(X, "Some")])))

    # ------------------------------------------------------------------ iterators
    def iter_source(self, body, operand, marks):
        """(source operand, [map stages innermost first], [blocks of the map calls])"""
        stages, calls = [], []
        op = operand
        for _ in range(4):
            l = _plain(op)
            if l is None:
                break
            prod = None
            moved = None
            n = 0
            for blk in body["blocks"]:
                if blk["cleanup"]:
                    continue
                for st in blk["stmts"]:
                    if st["k"] == "assign" and st["place"]["l"] == l and not st["place"]["p"]:
                        n += 1
                        if st["rv"]["k"] == "use":
                            moved = st["rv"]["op"]
                t = blk["term"]
                if t["k"] == "call" and t["dest"]["l"] == l and not t["dest"]["p"]:
                    n += 1
                    prod = blk
            if n != 1:
                break
            if moved is not None:
                op = moved
                continue
            if prod is not None and prod["term"].get("callee") == ITER_MAP and not prod.get("synth_dead"):
                g = self.callable_of(body, prod["term"]["args"][1])
                if g is None:
                    break
                if g[0] == "closure":
                    marks.append(g[3])
                stages.insert(0, g)
                calls.append(prod)
                op = prod["term"]["args"][0]
                continue
            break
        return op, stages, calls

    def _loop(self, body, blk, t, marks, it_operand, per_item, on_exit, init=()):
        """b: IT = source; init; goto H.  H: NX = next(&mut IT); switch: None -> on_exit(), Some ->
        item through the map stages -> per_item(item local, back-to-H block) """
        span = t["span"]
        chain = blk.get("inl", ())
        src, stages, mapcalls = self.iter_source(body, it_operand, marks)
        IT = self.new_local(body, "?iter")
        NX = self.new_local(body, "std::option::Option<?>")
        R = self.new_local(body, "&mut ?iter")
        H = self.new_block(body, [self.st(R, {"k": "ref", "mut": True, "fake": False, "place": {"l": IT, "p": []}}, span)], None, chain)
        exit_b = on_exit()
        item = self.new_local(body, "?item")
        cont = per_item(item, H)
        # stages: item_k+1 = g_k(item_k)
        entry = cont
        cur_out = item
        for g in reversed(stages):
            cur_in = self.new_local(body, "?item")
            entry = self.emit_callable(body, g, [_mv(cur_in)], cur_out, entry, span, chain)
            cur_out = cur_in
        B = self.new_block(body, [self.use(cur_out, _payload(NX, "Some"), span)], self.goto(entry, span), chain)
        stmts, term = self.switch2(body, NX, exit_b, B, span)
        T = self.new_block(body, stmts, term, chain)
        body["blocks"][H]["term"] = {"k": "call", "callee": "std::iter::Iterator::next", "callee_full": "<?iter as std::iter::Iterator>::next", "callee_local": False, "gargs": [],
                                     "resolved": "std::iter::Iterator::next", "resolved_local": False, "resolved_kind": "synthetic", "args": [_mv(R)], "arg_tys": ["&mut ?iter"],
                                     "dest": {"l": NX, "p": []}, "dest_ty": "std::option::Option<?>", "target": T, "fn_span": span, "span": span, "synth": True}
        blk["stmts"].append(self.use(IT, copy.deepcopy(src), span))
        blk["stmts"].extend(init)
        blk["term"] = dict(self.goto(H, span), desugared=t.get("callee"))
        for mc in mapcalls:
            mc["term"] = dict(self.goto(mc["term"]["target"], mc["term"]["span"]), desugared=ITER_MAP)
            mc["synth_dead"] = True

    def d_for_each(self, body, blk, t, marks):
        f = self.need_callable(body, t["args"][1], marks)
        span, chain = t["span"], blk.get("inl", ())
        dest, target = t["dest"]["l"], t["target"]
        ign = self.new_local(body, "()")
        self._loop(body, blk, t, marks, t["args"][0],
                   lambda item, H: self.emit_callable(body, f, [_mv(item)], ign, H, span, chain),
                   lambda: self.new_block(body, [self.use(dest, UNIT, span)], self.goto(target, span), chain))

    def d_fold(self, body, blk, t, marks):
        f = self.need_callable(body, t["args"][2], marks)
        span, chain = t["span"], blk.get("inl", ())
        dest, target = t["dest"]["l"], t["target"]
        ACC = self.new_local(body, t.get("dest_ty", "?"))
        self._loop(body, blk, t, marks, t["args"][0],
                   lambda item, H: self.emit_callable(body, f, [_mv(ACC), _mv(item)], ACC, H, span, chain),
                   lambda: self.new_block(body, [self.use(dest, _mv(ACC), span)], self.goto(target, span), chain),
                   init=[self.use(ACC, t["args"][1], span)])

    def d_sum(self, body, blk, t, marks):
        span, chain = t["span"], blk.get("inl", ())
        dest, target = t["dest"]["l"], t["target"]
        ty = t.get("dest_ty", "?")
        if ty not in ("u64", "usize", "u32", "u8", "u16", "i64", "i32", "isize"):
            raise _Skip("sum of a non-integer")
        src, stages, _ = self.iter_source(body, t["args"][0], [])
        if not stages:
            raise _Skip("sum without a map stage: nothing to splice")
        ACC = self.new_local(body, ty)
        self._loop(body, blk, t, marks, t["args"][0],
                   lambda item, H: self.new_block(body, [self.st(ACC, {"k": "bin", "op": "Add", "l": _cp(ACC), "r": _mv(item)}, span)], self.goto(H, span), chain),
                   lambda: self.new_block(body, [self.use(dest, _mv(ACC), span)], self.goto(target, span), chain),
                   init=[self.use(ACC, {"k": {"v": 0, "ty": ty}}, span)])

    def d_collect(self, body, blk, t, marks):
        span, chain = t["span"], blk.get("inl", ())
        dest, target = t["dest"]["l"], t["target"]
        ty = t.get("dest_ty", "?")
        if not ty.startswith(("std::vec::Vec<", "std::boxed::Box<[")):
            raise _Skip("collect into something other than a Vec / boxed slice")
        src, stages, _ = self.iter_source(body, t["args"][0], [])
        if not stages:
            raise _Skip("collect without a map stage: nothing to splice")
        OUT = self.new_local(body, ty)
        ign = self.new_local(body, "()")

        def push(item, H):
            r = self.new_local(body, "&mut " + ty)
            return self.new_block(body, [self.st(r, {"k": "ref", "mut": True, "fake": False, "place": {"l": OUT, "p": []}}, span)],
                                  {"k": "call", "callee": "std::vec::Vec::<T, A>::push", "callee_full": "std::vec::Vec::<?>::push", "callee_local": False, "gargs": [], "resolved": "std::vec::Vec::<T, A>::push",
                                   "resolved_local": False, "resolved_kind": "synthetic", "args": [_mv(r), _mv(item)], "arg_tys": ["&mut " + ty, "?"], "dest": {"l": ign, "p": []}, "dest_ty": "()",
                                   "target": H, "fn_span": span, "span": span, "synth": True}, chain)
        newv = {"k": "call", "callee": "std::vec::Vec::<T>::new", "callee_full": "std::vec::Vec::<?>::new", "callee_local": False, "gargs": [], "resolved": "std::vec::Vec::<T>::new",
                "resolved_local": False, "resolved_kind": "synthetic", "args": [], "arg_tys": [], "dest": {"l": OUT, "p": []}, "dest_ty": ty, "target": None, "fn_span": span, "span": span, "synth": True}
        # b -> [OUT = Vec::new()] -> loop
        self._loop(body, blk, t, marks, t["args"][0], push,
                   lambda: self.new_block(body, [self.use(dest, _mv(OUT), span)], self.goto(target, span), chain))
        loop_entry = blk["term"]["target"]
        nb = self.new_block(body, [], dict(newv, target=loop_entry), chain)
        blk["term"] = dict(blk["term"], target=nb)

    def d_try_fold(self, body, blk, t, marks):
        f = self.need_callable(body, t["args"][2], marks)
        span, chain = t["span"], blk.get("inl", ())
        dest, target = t["dest"]["l"], t["target"]
        ty = t.get("dest_ty", "?")
        if not ty.startswith("std::result::Result<"):
            raise _Skip("try_fold over a non-Result")
        ACC = self.new_local(body, "?acc")
        RR = self.new_local(body, ty)
        BR = self.new_local(body, "std::ops::ControlFlow<?, ?>")
        RES_ = self.new_local(body, "?residual")

        def per_item(item, H):
            bc = self.new_block(body, [self.use(ACC, _payload(BR, "Continue"), span)], self.goto(H, span), chain)
            bb = self.new_block(body, [self.use(RES_, _payload(BR, "Break"), span)],
                                {"k": "call", "callee": "std::ops::FromResidual::from_residual", "callee_full": "<%s as std::ops::FromResidual>::from_residual" % ty, "callee_local": False, "gargs": [],
                                 "resolved": "std::ops::FromResidual::from_residual", "resolved_local": False, "resolved_kind": "synthetic", "args": [_mv(RES_)], "arg_tys": ["?"],
                                 "dest": {"l": dest, "p": []}, "dest_ty": ty, "target": target, "fn_span": span, "span": span, "synth": True}, chain)
            stmts, term = self.switch2(body, BR, bc, bb, span)
            sw = self.new_block(body, stmts, term, chain)
            br = self.new_block(body, [], {"k": "call", "callee": "std::ops::Try::branch", "callee_full": "<%s as std::ops::Try>::branch" % ty, "callee_local": False, "gargs": [],
                                           "resolved": "std::ops::Try::branch", "resolved_local": False, "resolved_kind": "synthetic", "args": [_mv(RR)], "arg_tys": [ty],
                                           "dest": {"l": BR, "p": []}, "dest_ty": "std::ops::ControlFlow<?, ?>", "target": sw, "fn_span": span, "span": span, "synth": True}, chain)
            return self.emit_callable(body, f, [_mv(ACC), _mv(item)], RR, br, span, chain)

        self._loop(body, blk, t, marks, t["args"][0], per_item,
                   lambda: self.new_block(body, [self.st(dest, _agg(RES, "Ok", [_mv(ACC)]), span)], self.goto(target, span), chain),
                   init=[self.use(ACC, t["args"][1], span)])


    def d_find_map(self, body, blk, t, marks):
        """it.find_map(f): for x in it { if let Some(r) = f(x) { break Some(r) } } else None"""
        f = self.need_callable(body, t["args"][1], marks)
        span, chain = t["span"], blk.get("inl", ())
        dest, target = t["dest"]["l"], t["target"]
        R = self.new_local(body, t.get("dest_ty", "std::option::Option<?>"))

        def per_item(item, H):
            found = self.new_block(body, [self.st(dest, _agg(OPT, "Some", [_payload(R, "Some")]), span)], self.goto(target, span), chain)
            stmts, term = self.switch2(body, R, H, found, span)
            sw = self.new_block(body, stmts, term, chain)
            return self.emit_callable(body, f, [_mv(item)], R, sw, span, chain)

        self._loop(body, blk, t, marks, t["args"][0], per_item,
                   lambda: self.new_block(body, [self.st(dest, _agg(OPT, "None", []), span)], self.goto(target, span), chain))

    def _bool_search(self, body, blk, t, marks, stop_on, result_on_stop):
        f = self.need_callable(body, t["args"][1], marks)
        span, chain = t["span"], blk.get("inl", ())
        dest, target = t["dest"]["l"], t["target"]
        Bv = self.new_local(body, "bool")

        def lit(v):
            return {"k": {"v": v, "ty": "bool"}}

        def per_item(item, H):
            stop = self.new_block(body, [self.use(dest, lit(result_on_stop), span)], self.goto(target, span), chain)
            tg = [[0, stop if not stop_on else H]]
            sw = self.new_block(body, [], {"k": "switch", "discr": _mv(Bv), "discr_ty": "bool", "targets": tg, "otherwise": (H if not stop_on else stop), "span": span}, chain)
            return self.emit_callable(body, f, [_mv(item)], Bv, sw, span, chain)

        self._loop(body, blk, t, marks, t["args"][0], per_item,
                   lambda: self.new_block(body, [self.use(dest, lit(not result_on_stop), span)], self.goto(target, span), chain))

    def d_any(self, body, blk, t, marks):
        """it.any(f): for x in it { if f(x) { break true } } else false"""
        self._bool_search(body, blk, t, marks, True, True)

    def d_all(self, body, blk, t, marks):
        """it.all(f): for x in it { if !f(x) { break false } } else true"""
        self._bool_search(body, blk, t, marks, False, False)


class _Skip(Exception):
    pass


def subst_closure_upvars(x, upmap):
    """replace a closure body's captured-variable places (`(*_1).k` / `_1.k`) by the caller
    local holding capture k (marked absolute for remap_marked)"""
    if isinstance(x, list):
        return [subst_closure_upvars(e, upmap) for e in x]
    if not isinstance(x, dict):
        return x
    if isinstance(x.get("l"), int) and "p" in x and len(x) == 2:
        p = x["p"]
        if x["l"] == 1:
            k = 0
            if p and p[0] == "*":
                k = 1
            if len(p) > k and isinstance(p[k], dict) and "f" in p[k] and p[k]["f"] in upmap:
                return {"l": {"abs": upmap[p[k]["f"]]}, "p": subst_closure_upvars(p[k + 1:], upmap)}
        return {"l": x["l"], "p": subst_closure_upvars(p, upmap)}
    return {k: (v if k in ("span", "fn_span") else subst_closure_upvars(v, upmap)) for k, v in x.items()}


# --------------------------------------------------------------------------- jump threading
def _const_bool_assign(st, l):
    if st["k"] != "assign" or st["place"]["l"] != l or st["place"]["p"]:
        return None
    rv = st["rv"]
    if rv["k"] == "use" and "k" in rv["op"] and "v" in rv["op"]["k"] and rv["op"]["k"].get("ty") == "bool":
        return rv["op"]["k"]["v"]
    return None


def thread_jumps(body):
    """Bypass a switch on a bool local from predecessors that end by assigning the local a
    constant.  Shape handled (what `let x = a && b;` / `a || b` lower to, then `if x` /
    `if !x`):   P: x = const c; goto J      J: [t = copy x | t = Not(copy x)]* ; switch(t)
    P's goto is redirected to the switch target selected by c.  J keeps its other
    predecessors.  Returns the number of redirected edges."""
    blocks = body["blocks"]
    n = 0
    # straight-line joins: follow gotos through blocks without statements
    def skip_empty(bi, lim=6):
        while lim > 0:
            b = blocks[bi]
            if b["cleanup"] or b["stmts"] or b["term"]["k"] not in ("goto", "false_edge"):
                return bi
            bi = b["term"]["target"]
            lim -= 1
        return bi

    def switch_on(bi):
        """if block bi only computes (a negation chain of) a bool local and switches on it:
        (local, negated, {0: bb, 1: bb}) else None"""
        b = blocks[bi]
        t = b["term"]
        if b["cleanup"] or t["k"] != "switch" or t.get("discr_ty") != "bool":
            return None
        p = op_place(t["discr"])
        if p is None or p["p"]:
            return None
        cur = p["l"]
        neg = False
        for st in reversed(b["stmts"]):
            if st["k"] == "dead":
                continue
            if st["k"] != "assign" or st["place"]["p"] or st["place"]["l"] != cur:
                return None
            rv = st["rv"]
            if rv["k"] == "use":
                q = op_place(rv["op"])
            elif rv["k"] == "un" and rv["op"] == "Not":
                q = op_place(rv["x"])
                neg = not neg
            else:
                return None
            if q is None or q["p"]:
                return None
            cur = q["l"]
        m = {}
        for v, bb in t["targets"]:
            m[v] = bb
        f = m.get(0, t["otherwise"])
        tr = m.get(1, t["otherwise"])
        if neg:
            f, tr = tr, f
        return cur, {0: f, 1: tr}

    for P in blocks:
        if P["cleanup"] or P["term"]["k"] != "goto":
            continue
        j = skip_empty(P["term"]["target"])
        sw = switch_on(j)
        if sw is None:
            continue
        l, tg = sw
        c = None
        for st in reversed(P["stmts"]):
            if st["k"] == "dead":
                continue
            c = _const_bool_assign(st, l)
            break
        if c is None:
            continue
        # the switch block's temporaries must not be used elsewhere: they are defined only there
        P["term"] = dict(P["term"], target=tg[1 if c else 0], threaded=j)
        n += 1
    return n


# --------------------------------------------------------------------------- variant threading
DISC = {"Ok": 0, "Err": 1, "None": 0, "Some": 1, "Continue": 0, "Break": 1, "Ready": 0, "Pending": 1}
ENUMS = ("std::result::Result", "std::option::Option", "std::ops::ControlFlow", "std::task::Poll", "core::ops::ControlFlow")
IDENT = lambda c: c
XFER = {
    # callee -> class of the result given the class of argument 0
    "std::ops::Try::branch": {"Ok": "Continue", "Err": "Break", "Some": "Continue", "None": "Break"}.get,
    "std::result::Result::<T, E>::map_err": IDENT,
    "std::result::Result::<T, E>::map": IDENT,
    "std::option::Option::<T>::map": IDENT,
    "std::result::Result::<T, E>::as_ref": IDENT,
    "std::result::Result::<T, E>::as_mut": IDENT,
    "std::option::Option::<T>::as_ref": IDENT,
    "std::option::Option::<T>::as_mut": IDENT,
    "std::option::Option::<&T>::cloned": IDENT,
    "std::option::Option::<&T>::copied": IDENT,
    "std::option::Option::<T>::ok_or": {"Some": "Ok", "None": "Err"}.get,
    "std::option::Option::<T>::ok_or_else": {"Some": "Ok", "None": "Err"}.get,
    "std::result::Result::<T, E>::ok": {"Ok": "Some", "Err": "None"}.get,
    "std::result::Result::<T, E>::err": {"Ok": "None", "Err": "Some"}.get,
}
RESIDUAL = ("std::ops::FromResidual::from_residual", "core::ops::FromResidual::from_residual")


def _succs(t):
    k = t["k"]
    if k in ("goto", "false_unwind", "false_edge"):
        return [t["target"]]
    if k == "switch":
        return [bb for _, bb in t["targets"]] + [t["otherwise"]]
    if k in ("call", "drop", "assert", "yield"):
        return [t["target"]] if t.get("target") is not None else []
    return []


def _graph(body):
    blocks = body["blocks"]
    seen = set()
    st = [0]
    preds = {}
    while st:
        x = st.pop()
        if x in seen:
            continue
        seen.add(x)
        for s_ in set(_succs(blocks[x]["term"])):
            if blocks[s_]["cleanup"]:
                continue
            preds.setdefault(s_, []).append(x)
            st.append(s_)
    return seen, preds


def _plain(o):
    """local of a move/copy operand without projections"""
    p = op_place(o)
    if p is None or p["p"]:
        return None
    return p["l"]


class _Track:
    """backward tracker of the enum value whose discriminant a switch tests"""

    def __init__(self, local):
        self.local = local
        self.fs = []          # transfer functions, innermost (closest to the definition) first
        self.payload = None   # (variant, field) when tracking the payload of an aggregate

    def klass(self, c):
        for f in self.fs:
            if c is None:
                return None
            c = f(c)
        return c

    def step_stmt(self, st):
        """returns 'skip' | 'cont' | ('class', C) | 'stop'"""
        if st["k"] != "assign" or st["place"]["l"] != self.local:
            return "skip"
        if st["place"]["p"]:
            return "stop"
        rv = st["rv"]
        if rv["k"] == "use":
            p = op_place(rv["op"])
            if p is None:
                return "stop"
            if not p["p"]:
                self.local = p["l"]
                return "cont"
            if self.payload is None and len(p["p"]) == 2 and isinstance(p["p"][0], dict) and "d" in p["p"][0] and isinstance(p["p"][1], dict) and "f" in p["p"][1]:
                self.payload = (p["p"][0]["n"], p["p"][1]["n"])
                self.local = p["l"]
                return "cont"
            return "stop"
        if rv["k"] == "agg" and rv["kind"] == "adt" and rv.get("name") in ENUMS:
            if self.payload is not None:
                want = self.payload[0] if isinstance(self.payload[0], (set, frozenset, tuple)) else (self.payload[0],)
                if rv["variant"] not in want or self.payload[1] not in rv["fields"]:
                    return "stop"
                l = _plain(rv["ops"][rv["fields"].index(self.payload[1])])
                if l is None:
                    return "stop"
                self.payload = None
                self.local = l
                return "cont"
            if rv["variant"] in DISC:
                return ("class", rv["variant"])
        return "stop"

    def step_call(self, t):
        if t["k"] != "call" or t["dest"]["l"] != self.local:
            return "skip"
        c = t.get("callee")
        if not t["dest"]["p"] and self.payload is not None and c in ("std::ops::Try::branch", "core::ops::Try::branch") and t["args"] \
                and self.payload[1] == "0" and self.payload[0] in ("Continue", "Break") and not self.fs:
            # the Continue payload of `x?` is the Ok / Some payload of x (Break: the Err payload)
            l = _plain(t["args"][0])
            if l is None:
                return "stop"
            self.payload = (("Ok", "Some") if self.payload[0] == "Continue" else ("Err",), "0")
            self.local = l
            return "cont"
        if t["dest"]["p"] or self.payload is not None:
            return "stop"
        if c in RESIDUAL:
            ty = t.get("dest_ty", "")
            if ty.startswith("std::result::Result<"):
                return ("class", "Err")
            if ty.startswith("std::option::Option<"):
                return ("class", "None")
            return "stop"
        f = XFER.get(c) or XFER.get((c or "").replace("core::", "std::"))
        if f is not None and t["args"]:
            l = _plain(t["args"][0])
            if l is None:
                return "stop"
            self.fs.insert(0, f)
            self.local = l
            return "cont"
        return "stop"

    def scan_block(self, blk, upto=None, with_term=True):
        """scan a block backwards (terminator first); returns ('class', C) | 'stop' | None (no
        definition in this block: keep walking)"""
        if with_term:
            r = self.step_call(blk["term"])
            if r == "stop" or isinstance(r, tuple):
                return r
        stmts = blk["stmts"] if upto is None else blk["stmts"][:upto]
        for st in reversed(stmts):
            r = self.step_stmt(st)
            if r == "stop" or isinstance(r, tuple):
                return r
        return None


def _retarget(term, old, new):
    t = dict(term)
    for k in ("target", "otherwise"):
        if t.get(k) == old:
            t[k] = new
    if "targets" in t:
        t["targets"] = [[v, new if b == old else b] for v, b in t["targets"]]
    return t


def thread_variants(body, limit=150):
    """Jump threading over known enum variants.  For a switch S on `discriminant(x)`, every
    straight path D -> b1 -> .. -> S (each b_i has S-ward a single successor; joins are allowed)
    on which x is defined in D with a known variant — an `Ok{..}`/`Err{..}`/`Some`/`None`
    aggregate, a `from_residual` call — and only moved / passed through map_err / `?`'s `branch`
    on the way, gets a private copy b1'..S' ending in a goto to the switch target selected by
    that variant.  This is what makes `match r { Ok(v) => Ok(v), Err(e) => Err(f(e)) }?` and a
    spliced helper's own `?` exits flow to the right side of the caller's `?` instead of merging
    at the join.  Semantics-preserving (tail duplication + branch folding)."""
    blocks = body["blocks"]
    done = 0
    for _pass in range(2):
        reach, preds = _graph(body)
        any_progress = False
        for S in sorted(reach):
            if done >= limit:
                break
            sb = blocks[S]
            t = sb["term"]
            if sb["cleanup"] or t["k"] != "switch" or sb.get("thr"):
                continue
            d = _plain(t["discr"])
            if d is None:
                continue
            di = None
            for i in range(len(sb["stmts"]) - 1, -1, -1):
                st = sb["stmts"][i]
                if st["k"] == "assign" and st["place"]["l"] == d and not st["place"]["p"]:
                    if st["rv"]["k"] == "disc" and not st["rv"]["place"]["p"]:
                        di = i
                    break
            if di is None:
                continue
            tr0 = _Track(sb["stmts"][di]["rv"]["place"]["l"])
            if tr0.scan_block(sb, upto=di, with_term=False) is not None:
                continue
            found = []     # (D, [b1..S], class)
            budget = [64]

            def explore(x, tr, path):
                """x: block whose predecessors are examined; path: x..S"""
                if budget[0] <= 0 or len(path) > 28:
                    return
                for p in dict.fromkeys(preds.get(x, [])):
                    if p in path:
                        continue
                    budget[0] -= 1
                    pb = blocks[p]
                    t2 = _Track(tr.local)
                    t2.fs = list(tr.fs)
                    t2.payload = tr.payload
                    r = t2.scan_block(pb)
                    if isinstance(r, tuple):
                        cls = t2.klass(r[1])
                        if cls in DISC:
                            found.append((p, list(path), cls))
                        continue
                    if r == "stop":
                        continue
                    succs = set(y for y in _succs(pb["term"]) if not blocks[y]["cleanup"])
                    if len(succs) != 1 or pb["term"]["k"] == "yield":
                        continue
                    explore(p, t2, [p] + path)

            explore(S, tr0, [S])
            # a path of length 1 straight from a defining predecessor that is S's only way in is
            # ordinary code (`match Ok(x) {..}` never occurs); thread only when S has a join upstream
            for D, path, cls in found:
                if done >= limit:
                    break
                val = DISC[cls]
                tgt = None
                for v, bb in t["targets"]:
                    if v == val:
                        tgt = bb
                if tgt is None:
                    tgt = t["otherwise"]
                base = len(blocks)
                idx = {b: base + k for k, b in enumerate(path)}
                for k, b in enumerate(path):
                    ob = blocks[b]
                    nb = {"i": idx[b], "cleanup": False, "stmts": copy.deepcopy(ob["stmts"]), "thr": True}
                    if "inl" in ob:
                        nb["inl"] = ob["inl"]
                    if b == S:
                        nb["term"] = {"k": "goto", "target": tgt, "span": ob["term"]["span"], "threaded_variant": cls}
                    else:
                        nxt = path[k + 1]
                        nb["term"] = _retarget(copy.deepcopy(ob["term"]), nxt, idx[nxt])
                    blocks.append(nb)
                blocks[D]["term"] = _retarget(blocks[D]["term"], path[0], idx[path[0]])
                done += 1
                any_progress = True
            if found:
                reach, preds = _graph(body)
        if not any_progress:
            break
    return done


# --------------------------------------------------------------------------- loops over literal arrays
def unroll_array_loops(body, max_n=8):
    """`for x in [a, b, c] { body }` (an array literal of at most max_n elements) is replaced by the
    body once per element, in order: each copy starts with `next_result = Some(element_k)` and its
    back edges lead to the next copy (the last one to the loop exit).  `break` / `return` / `?` edges
    keep their targets.  Returns the number of loops unrolled."""
    done = 0
    for _round in range(4):
        fa = FnA(Body(body))
        blocks = body["blocks"]
        cand = None
        for H, t in fa.calls():
            if t.get("callee") != "std::iter::Iterator::next" or not t["args"] or t.get("target") is None or blocks[H].get("unrolled"):
                continue
            # iterator local behind the `&mut it` argument
            p = op_place(t["args"][0])
            it_l = None
            for _ in range(6):
                if p is None:
                    break
                ds = [d for d in fa.body.defs.get(p["l"], []) if not d[3]["p"]]
                if len(ds) != 1 or ds[0][0] != "assign":
                    break
                rv = ds[0][4]
                if rv["k"] == "ref" and not rv["place"]["p"]:
                    it_l = rv["place"]["l"]
                    break
                if rv["k"] == "ref" and all(e == "*" for e in rv["place"]["p"]):
                    p = {"l": rv["place"]["l"], "p": []}    # reborrow `&mut *r`
                    continue
                if rv["k"] == "use":
                    p = op_place(rv["op"])
                    continue
                break
            if it_l is None:
                continue
            # it = into_iter(move ARR) ; ARR = [ops]
            ops = None
            l = it_l
            for _ in range(5):
                ds = [d for d in fa.body.defs.get(l, []) if not d[3]["p"]]
                if len(ds) != 1:
                    break
                d = ds[0]
                if d[0] == "call" and (d[4].get("callee") or "").endswith("IntoIterator::into_iter") and d[4]["args"]:
                    q = op_place(d[4]["args"][0])
                    if q is None or q["p"]:
                        break
                    l = q["l"]
                    continue
                if d[0] == "assign" and d[4]["k"] == "use" and op_place(d[4]["op"]) is not None and not op_place(d[4]["op"])["p"]:
                    l = op_place(d[4]["op"])["l"]
                    continue
                if d[0] == "assign" and d[4]["k"] == "agg" and d[4]["kind"] == "array":
                    ops = d[4]["ops"]
                break
            if ops is None or not (1 <= len(ops) <= max_n):
                continue
            T = t["target"]
            sw = blocks[T]["term"]
            if sw["k"] != "switch" or t["dest"]["p"]:
                continue
            m = {v: b for v, b in sw["targets"]}
            if 0 not in m or 1 not in m:
                continue
            loops = [(h, bs, be) for h, bs, be in fa.loops() if H in bs and T in bs and m[1] in bs and m[0] not in bs]
            if not loops:
                continue
            h, bs, be = min(loops, key=lambda x: len(x[1]))
            # the header part: blocks of the loop from which H is reached before the body (header chain h..H, T)
            head = set()
            x = h
            for _ in range(6):
                head.add(x)
                if x == H:
                    break
                ss = fa.succ.get(x, [])
                if len(ss) != 1:
                    break
                x = ss[0]
            if H not in head:
                continue
            head.add(T)
            cand = (H, T, h, bs, m, ops, t["dest"]["l"], head)
            break
        if cand is None:
            return done
        H, T, h, bs, m, ops, NX, head = cand
        inner = sorted(b for b in bs if b not in head)
        n = len(ops)
        span = blocks[H]["term"]["span"]
        entries = []
        maps = []
        for k in range(n):
            base = len(blocks)
            idx = {b: base + i for i, b in enumerate(inner)}
            maps.append(idx)
            for b in inner:
                ob = blocks[b]
                blocks.append({"i": idx[b], "cleanup": ob["cleanup"], "stmts": copy.deepcopy(ob["stmts"]), "term": copy.deepcopy(ob["term"]), "inl": ob.get("inl", ()), "unrolled": True})
            e = len(blocks)
            blocks.append({"i": e, "cleanup": False, "unrolled": True, "inl": blocks[H].get("inl", ()),
                           "stmts": [{"k": "assign", "place": {"l": NX, "p": []}, "span": span,
                                      "rv": {"k": "agg", "kind": "adt", "name": "std::option::Option", "variant": "Some", "variant_idx": 1, "fields": ["0"], "ops": [copy.deepcopy(ops[k])]}}],
                           "term": {"k": "goto", "target": idx[m[1]], "span": span}})
            entries.append(e)
        exit_b = m[0]
        for k in range(n):
            idx = maps[k]
            nxt = entries[k + 1] if k + 1 < n else exit_b
            def bmap(b, idx=idx, nxt=nxt):
                if b in idx:
                    return idx[b]
                if b in head:
                    return nxt          # back edge / continue: on to the next element
                return b
            for b in inner:
                nb = blocks[idx[b]]
                nb["term"] = remap_marked(nb["term"], lambda l: l, bmap)
        # entry edges into the loop header now start the first copy
        for b in range(len(blocks)):
            if b in bs or blocks[b].get("unrolled"):
                continue
            blocks[b]["term"] = _retarget(blocks[b]["term"], h, entries[0])
        blocks[H]["unrolled"] = True
        done += 1
    return done


# --------------------------------------------------------------------------- named constants
def fold_consts(j):
    """An operand naming a scalar `const` item is replaced by its value (the compiler's own
    evaluation, recorded by the driver): `flags |= ENTRY_FLAG_TREE_NODES` and `flags |= 2` are the
    same program.  The name is kept beside the value (`was`) for messages."""
    vals = {c["name"]: c for c in j["consts"] if isinstance(c.get("v"), int) and not isinstance(c.get("v"), bool)}
    n = [0]

    def walk(x):
        if isinstance(x, list):
            for e in x:
                walk(e)
        elif isinstance(x, dict):
            k = x.get("k")
            if isinstance(k, dict) and "def" in k and k["def"] in vals:
                c = vals[k["def"]]
                x["k"] = {"ty": k.get("ty", c.get("ty")), "v": c["v"], "was": k["def"]}
                n[0] += 1
                return
            for kk, v in x.items():
                if kk not in ("span", "fn_span"):
                    walk(v)
    for b in j["bodies"]:
        walk(b["blocks"])
    return n[0]


# --------------------------------------------------------------------------- entry point
def normalize(j, known=None):
    """mutates the loaded fact dict; returns a summary for the evidence"""
    folded = fold_consts(j)
    fn_renames = alias_renamed_fns(j, load_sigs()) if known is None else []
    renamed = alias_params(j, load_params()) if known is None else 0
    known = load_known() if known is None else known
    unrolled = sum(unroll_array_loops(b) for b in j["bodies"])
    inl = Inliner(j, known).run()
    des = Desugar(j).run()
    unrolled += sum(unroll_array_loops(b) for b in j["bodies"])
    threaded = 0
    vthreaded = 0
    for b in j["bodies"]:
        threaded += thread_jumps(b)
        vthreaded += thread_variants(b)
    return {
        "inlined": [{"caller": a, "callee": b, "kind": k} for a, b, k in inl.log],
        "absorbed": inl.absorbed,
        "refused": [{"caller": a, "callee": b, "reason": r} for a, b, r in inl.refused],
        "named_constants_folded": folded,
        "functions_renamed": ["%s -> %s" % (a_, b_) for a_, b_ in fn_renames],
        "parameters_aliased": renamed,
        "array_loops_unrolled": unrolled,
        "adaptors_desugared": len(des.log),
        "closures_absorbed": des.absorbed,
        "threaded_edges": threaded,
        "threaded_variant_edges": vthreaded,
    }
