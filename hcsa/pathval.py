"""Path-sensitive dataflow over an affine + min value domain.

`walk(fa, start, stops)` enumerates the acyclic ways through a region of one function's CFG — from
the beginning of block `start` until a block in `stops` is about to be entered (or the function
returns / diverges) — and evaluates integer locals along each way as

    linear forms over the values the locals had at `start`      {symbol: coeff, 1: const}
    min(linear form, linear form)
    opaque symbols named after the call / operation that produced them (same inputs, same name)

Nothing is executed and no solver is involved: it is constant/copy propagation extended to affine
expressions, run once per path instead of once per join.  Rules use it for clauses of the kind
"on every way round this loop the cursor advances by exactly what was consumed".
"""
from fractions import Fraction


class Stop(Exception):
    pass


def lf_const(c):
    return ("lf", {1: Fraction(c)})


def lf_sym(s):
    return ("lf", {s: Fraction(1)})


def is_lf(v):
    return isinstance(v, tuple) and v and v[0] == "lf"


def lf_add(a, b, sign=1):
    out = dict(a[1])
    for k, c in b[1].items():
        out[k] = out.get(k, 0) + sign * c
    return ("lf", {k: c for k, c in out.items() if c != 0})


def lf_scale(a, c):
    return ("lf", {k: v * c for k, v in a[1].items() if v * c != 0})


def lf_is_const(a):
    return is_lf(a) and set(a[1]) <= {1}


def lf_value(a):
    return a[1].get(1, Fraction(0))


def render(v):
    if is_lf(v):
        items = sorted(v[1].items(), key=lambda kv: (kv[0] != 1, str(kv[0])))
        if not items:
            return "0"
        out = []
        for k, c in items:
            c_ = str(c.numerator) if c.denominator == 1 else str(c)
            out.append(c_ if k == 1 else ("%s" % k if c == 1 else "%s*%s" % (c_, k)))
        return " + ".join(out)
    if isinstance(v, tuple) and v:
        if v[0] == "min":
            return "min(%s)" % ", ".join(sorted(render(x) for x in v[1:]))
        if v[0] == "opq":
            return v[1]
        if v[0] == "bool":
            return ("" if v[2] else "!") + v[1]
        if v[0] == "cmp":
            return "%s(%s, %s)" % (v[1], render(v[2]), render(v[3]))
        if v[0] == "tup":
            return "(%s)" % ", ".join(render(x) for x in v[1])
    return str(v)


def opq(s):
    return ("opq", s)


TRANSPARENT = ("try_into", "try_from", "into", "from", "expect", "unwrap", "clone", "borrow", "borrow_mut", "deref", "deref_mut", "as_ref", "as_mut")
NEG = {"Lt": "Ge", "Ge": "Lt", "Le": "Gt", "Gt": "Le", "Eq": "Ne", "Ne": "Eq"}


class Path:
    def __init__(self, env, cond, calls, end, at):
        self.env, self.cond, self.calls, self.end, self.at = env, cond, calls, end, at

    def value(self, l):
        return self.env.get(l)


def walk(fa, start, stops, names=None, max_paths=600, init=None):
    """[Path] — every acyclic way from the start of block `start` to the first block of `stops`
    (end == "stop", at = that block), to a return (end == "return") or into a diverging call
    (end == "diverge").  None if a block other than a stop repeats (an inner loop) or there are
    too many ways.  `init`: values known at `start` ({local: value}), e.g. loop-invariant constants."""
    body = fa.body
    names = names or {}

    def sym_of(l):
        nm = names.get(l) or body.local_name(l)
        return nm if nm else "_%d" % l

    def read_place(env, pl):
        l, proj = pl["l"], pl["p"]
        v = env.get(l)
        if v is None:
            v = lf_sym(sym_of(l)) if not proj or all(e == "*" for e in proj) else None
        if v is None:
            v = opq(sym_of(l))
        for e in proj:
            if e == "*":
                continue
            if isinstance(e, dict) and "f" in e:
                if isinstance(v, tuple) and v and v[0] == "tup" and e["f"] < len(v[1]):
                    v = v[1][e["f"]]
                else:
                    v = opq("%s.%s" % (render(v), e.get("n", e["f"])))
            elif isinstance(e, dict) and "d" in e:
                continue
            else:
                v = opq("%s[..]" % render(v))
        return v

    def read_op(env, o):
        if "k" in o:
            k = o["k"]
            if "v" in k and isinstance(k["v"], bool):
                return lf_const(int(k["v"]))
            if "v" in k and isinstance(k["v"], int):
                return lf_const(k["v"])
            return opq(str(k.get("repr") or k.get("fn") or k.get("ty") or "const"))
        return read_place(env, o.get("c") or o.get("m"))

    def arith(op, a, b):
        base = op[:-len("WithOverflow")] if op.endswith("WithOverflow") else op
        base = base[:-len("Unchecked")] if base.endswith("Unchecked") else base
        r = None
        if base in ("Add", "Sub", "Mul"):
            # an opaque integer is a symbol of the linear form: `h + 2 * (x.index - h + 1)` and
            # `2 * x.index - h + 2` are one value however they are spelled
            if isinstance(a, tuple) and a and a[0] == "opq":
                a = lf_sym(a[1])
            if isinstance(b, tuple) and b and b[0] == "opq":
                b = lf_sym(b[1])
        if base in ("Add", "Sub"):
            sg = 1 if base == "Add" else -1
            if is_lf(a) and is_lf(b):
                r = lf_add(a, b, sg)
            elif isinstance(a, tuple) and a[0] == "min" and is_lf(b) and all(is_lf(x) for x in a[1:]):
                r = ("min",) + tuple(lf_add(x, b, sg) for x in a[1:])
            elif base == "Add" and isinstance(b, tuple) and b[0] == "min" and is_lf(a) and all(is_lf(x) for x in b[1:]):
                r = ("min",) + tuple(lf_add(x, a, 1) for x in b[1:])
        elif base == "Mul":
            if lf_is_const(a) and is_lf(b):
                r = lf_scale(b, lf_value(a))
            elif lf_is_const(b) and is_lf(a):
                r = lf_scale(a, lf_value(b))
        elif base in ("Lt", "Le", "Gt", "Ge", "Eq", "Ne"):
            if lf_is_const(a) and lf_is_const(b):
                x, y = lf_value(a), lf_value(b)
                r = lf_const(int({"Lt": x < y, "Le": x <= y, "Gt": x > y, "Ge": x >= y, "Eq": x == y, "Ne": x != y}[base]))
            else:
                r = ("cmp", base, a, b)
        if r is None:
            if lf_is_const(a) and lf_is_const(b) and lf_value(a).denominator == 1 and lf_value(b).denominator == 1:
                x, y = int(lf_value(a)), int(lf_value(b))
                try:
                    c = {"BitAnd": x & y, "BitOr": x | y, "BitXor": x ^ y, "Shl": x << y, "Shr": x >> y, "Div": x // y if y else None, "Rem": x % y if y else None}.get(base)
                except Exception:
                    c = None
                if c is not None:
                    r = lf_const(c)
        if r is None:
            r = opq("%s(%s, %s)" % (base, render(a), render(b)))
        if op.endswith("WithOverflow"):
            return ("tup", [r, opq("ovf(%s)" % render(r))])
        return r

    def ev_rv(env, rv):
        k = rv["k"]
        if k == "use":
            return read_op(env, rv["op"])
        if k == "cast":
            return read_op(env, rv["op"])
        if k == "ref" or k == "addr":
            return read_place(env, rv["place"])
        if k == "agg" and rv.get("kind") == "tuple":
            return ("tup", [read_op(env, o) for o in rv["ops"]])
        if k == "bin":
            return arith(rv["op"], read_op(env, rv["l"]), read_op(env, rv["r"]))
        if k == "un":
            o = rv.get("operand") or rv.get("o") or rv.get("x")
            v = read_op(env, o) if isinstance(o, dict) else opq("?")
            if rv.get("op") == "Not":
                if isinstance(v, tuple) and v[0] == "bool":
                    return ("bool", v[1], not v[2])
                if isinstance(v, tuple) and v[0] == "cmp":
                    return ("cmp", NEG[v[1]], v[2], v[3])
                if isinstance(v, tuple) and v[0] == "opq":
                    return ("bool", v[1], False)
            return opq("%s(%s)" % (rv.get("op"), render(v)))
        if k == "len":
            return opq("len(%s)" % render(read_place(env, rv["place"])))
        if k == "disc":
            return opq("disc(%s)" % render(read_place(env, rv["place"])))
        return opq("%s?" % k)

    out = []
    budget = [0]

    def cond_key(v):
        """(canonical text, polarity) of a tested boolean"""
        if isinstance(v, tuple) and v[0] == "bool":
            return v[1], v[2]
        if isinstance(v, tuple) and v[0] == "cmp":
            if v[1] in ("Ge", "Gt", "Ne"):
                return render(("cmp", NEG[v[1]], v[2], v[3])), False
            return render(v), True
        return render(v), True

    def go(bi, env, cond, calls, seen, first=False):
        if budget[0] > max_paths:
            raise Stop()
        if bi in stops and not first:
            budget[0] += 1
            out.append(Path(env, cond, calls, "stop", bi))
            return
        if bi in seen:
            raise Stop()
        seen = seen | {bi}
        b = fa.blocks[bi]
        env = dict(env)
        for st in b.stmts:
            if st["k"] != "assign":
                continue
            pl = st["place"]
            if pl["p"] and not all(e == "*" for e in pl["p"]):
                continue       # a field store: the whole value stays what it was for our purposes
            env[pl["l"]] = ev_rv(env, st["rv"])
        t = b.term
        k = t["k"]
        if k == "return":
            budget[0] += 1
            out.append(Path(env, cond, calls, "return", bi))
            return
        if k in ("goto", "false_edge", "drop", "assert", "false_unwind"):
            if t.get("target") is None:
                out.append(Path(env, cond, calls, "diverge", bi))
                return
            return go(t["target"], env, cond, calls, seen)
        if k == "call":
            args = [read_op(env, a) for a in t["args"]]
            short = (t.get("callee") or "call").split("::")[-1]
            calls = calls + [(t.get("callee") or "", args, bi)]
            if t.get("target") is None:
                budget[0] += 1
                out.append(Path(env, cond, calls, "diverge", bi))
                return
            if short in TRANSPARENT and args:
                v = args[0]
            elif short == "min" and len(args) == 2 and all(is_lf(a) for a in args):
                v = ("min", args[0], args[1])
            else:
                v = opq("%s(%s)" % (short, ", ".join(render(a) for a in args)))
            d = t["dest"]
            if not d["p"]:
                env[d["l"]] = v
            return go(t["target"], env, cond, calls, seen)
        if k == "switch":
            dv = read_op(env, t["discr"])
            m = {v: x for v, x in t["targets"]}
            if lf_is_const(dv):
                return go(m.get(int(lf_value(dv)), t["otherwise"]), env, cond, calls, seen)
            if t.get("discr_ty") == "bool":
                if isinstance(dv, tuple) and dv[0] == "opq":
                    dv = ("bool", dv[1], True)
                if is_lf(dv):
                    dv = ("bool", render(dv), True)
                key, pol = cond_key(dv)
                f = m.get(0, t["otherwise"])
                tr = t["otherwise"] if 0 in m else m.get(1)
                for truth, tg in ((True, tr), (False, f)):
                    if tg is None or tg not in fa.succ:
                        continue
                    want = truth if pol else (not truth)
                    if key in cond and cond[key] != want:
                        continue
                    c2 = dict(cond)
                    c2[key] = want
                    go(tg, env, c2, calls, seen)
                return
            key = render(dv)
            for val, tg in list(m.items()) + [(None, t["otherwise"])]:
                if tg is None or tg not in fa.succ:
                    continue
                c2 = dict(cond)
                c2["%s==%s" % (key, val)] = True
                go(tg, env, c2, calls, seen)
            return
        if k in ("unreachable", "resume", "abort", "unwind_terminate"):
            return
        raise Stop()

    try:
        go(start, dict(init or {}), {}, [], frozenset(), first=True)
    except Stop:
        return None
    return out


def loop_constants(ctx, fa, h, body):
    """{local: constant} for the named locals that are only assigned outside the loop (h, body) and
    whose value at the loop header is a compile-time constant"""
    from .engine import ev
    out = {}
    for l in fa.body.locals:
        i = l["i"]
        if not l.get("name"):
            continue
        ds = fa.body.defs.get(i, [])
        if not ds or any(d[1] in body for d in ds):
            continue
        v = ev(ctx, fa.origin_local(i, h, 0))
        if isinstance(v, int) and not isinstance(v, bool):
            out[i] = lf_const(v)
    return out
