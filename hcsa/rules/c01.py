"""C01 — list-model equivalence across reopen: replay codec, replay
completeness, read gate, append placement, observation provenance."""
from ..engine import *
from ..analysis import term_str, strip, roots, subterms, contains, callee_of, term_sig
from .codec_rules import entry_flags
from .names import *

P = "C01"


def r1(ctx):
    entry_flags(ctx, P, "C01.R1")


def r2(ctx, P=P, rule="C01.R2"):
    fa = ctx.real_body(NEW, [OPLOG_OPEN])
    if not need(ctx, P, rule, NEW, fa):
        return
    a = ctx.crate.adts.get("oplog::entry::Entry")
    if not need(ctx, P, rule, "struct oplog::entry::Entry", a):
        return
    fields = [f["name"] for f in a["variants"][0]["fields"]]
    EXEMPT = {"user_data": "user data is not used by the v10 port (always written empty)"}
    consumers = {
        "tree_nodes": [(MT_ADD_NODE, 1)],
        "bitfield": [(BF_UPDATE, 1), (UCL, 2)],
        "tree_upgrade": [(MT_TRUNCATE, 1), (MT_TRUNCATE, 2)],
    }
    def reads_field(term, f):
        for s in subterms(term):
            if isinstance(s, tuple) and s[0] == "field" and s[2] == f and "entries" in term_str(s[1]):
                return True
        return False
    loops = fa.loops()
    for f in fields:
        if f in EXEMPT:
            ctx.ok(P, rule, "Entry.%s exempt from replay" % f, EXEMPT[f], assumed=True)
            continue
        if f not in consumers:
            ctx.fail(P, rule, "Entry.%s is replayed" % f, "Entry has a field `%s` for which no replay consumer is known: an operation persisted in it would be lost on reopen" % f, key=("%s|%s|" % (P, rule)) + "Entry.%s|no consumer" % f)
            continue
        for callee, idx in consumers[f]:
            hit = [s for s in sites(fa, callee) if reads_field(fa.arg_origin(s, idx), f) and any(s in body for _, body, _ in loops)]
            ctx.check(P, rule, "replay: entry.%s reaches %s" % (f, callee.split("::")[-1]), bool(hit), "inside the entry loop, %s(arg %d) is fed from entry.%s" % (callee.split("::")[-1], idx, f),
                      "Hypercore::new does not pass entry.%s to %s while replaying the oplog: the logged operation is not re-applied on reopen" % (f, callee), key=("%s|%s|" % (P, rule)) + "%s -> %s" % (f, callee))
            # ... for every entry: whether the consumer runs in an iteration of the entry loop may
            # depend on entry.<f> itself (is it present / its elements), never on another field
            if hit:
                s0 = hit[0]
                outer = sorted([(h, body) for h, body, _ in loops if s0 in body], key=lambda hb: -len(hb[1]))
                h, body = outer[0]
                inner = sorted([(h2, b2) for h2, b2, _ in loops if s0 in b2 and h2 != h], key=lambda hb: -len(hb[1]))
                T = inner[0][0] if inner else s0     # a consumer inside `for x in entry.f`: the target is that loop
                foreign = []
                for S, must, skip in iteration_deciders(fa, h, body, T):
                    o = fa.origin_operand(fa.blocks[S].term["discr"], S, len(fa.blocks[S].stmts))
                    if not reads_field(o, f):
                        foreign.append((S, term_str(o)[:80]))
                ctx.check(P, rule, "replay: %s runs for every entry that has %s" % (callee.split("::")[-1], f), not foreign, "whether it runs in an iteration depends only on entry.%s" % f,
                          "while replaying the oplog, %s for entry.%s is skipped depending on %s: an entry carrying %s without that is not re-applied on reopen" % (callee.split("::")[-1], f, [d for _, d in foreign], f),
                          [loc(fa, S) for S, _ in foreign], key=("%s|%s|" % (P, rule)) + "%s -> %s|unconditional" % (f, callee))
    # the changeset built from tree_upgrade is completed and committed
    tr = sites(fa, MT_TRUNCATE)
    cm = sites(fa, MT_COMMIT)
    uh = sites(fa, UPDATE_HDR)
    if need(ctx, P, rule, "new: truncate / update_header_with_changeset / commit", tr and cm and uh):
        cs_c = fa.arg_origin(cm[0], 1)
        cs_h = fa.arg_origin(uh[0], 1)
        ctx.check(P, rule, "replay: the truncated changeset is what is committed and copied into the header", term_has_call(cs_c, MT_TRUNCATE) is not None and term_has_call(cs_h, MT_TRUNCATE) is not None and fa.dominates(uh[0], cm[0]),
                  "update_header_with_changeset(changeset) then tree.commit(changeset)", "commit / header update do not receive the changeset rebuilt from the entry")
        ws = {p: term_str(fa.origin_rvalue(fa.blocks[b].stmts[si]["rv"], b, si)) for b, si, p in assign_sites_prefix(fa, "~MerkleTreeChangeset")}
        good = "tree_upgrade" in ws.get("~MerkleTreeChangeset.ancestors", "") and ws.get("~MerkleTreeChangeset.ancestors", "").endswith(".ancestors") and "tree_upgrade" in ws.get("~MerkleTreeChangeset.signature", "") and "hash" in ws.get("~MerkleTreeChangeset.hash", "")
        ctx.check(P, rule, "replay: ancestors, hash and signature of the changeset are restored from the entry", good, "changeset.{ancestors,hash,signature} set before the header update", "changeset fields restored: %s" % ws)
        hdr = fa.arg_origin(uh[0], 3)
        if term_has_call(hdr, OPLOG_OPEN) is None and resolve_mutlocal(fa, hdr) is not None:
            hdr = resolve_mutlocal(fa, hdr)   # `let OplogOpenOutcome { mut header, .. } = ..`: the variable's initial value
        ctx.check(P, rule, "replay updates the header that the core will keep", "header" in term_str(hdr) and term_has_call(hdr, OPLOG_OPEN) is not None, "update_header_with_changeset(.., &mut outcome.header)", "header argument is %s" % term_str(hdr)[:80])
    # entries iterate in log order
    nx = [s for s in sites(fa, "std::iter::Iterator::next") if "entries" in term_str(fa.arg_origin(s, 0))]
    good = False
    if nx:
        o = fa.arg_origin(nx[0], 0)
        good = term_has_call(o, OPLOG_OPEN) is not None and not any(isinstance(x, tuple) and x[0] == "call" and (x[2].startswith("std::iter::Iterator::") and x[2].split("::")[-1] in ("rev", "skip", "take", "filter", "step_by", "skip_while", "take_while")) for x in subterms(o))
    ctx.check(P, rule, "replay walks all decoded entries in log order", good, "for entry in entries.iter()", "entries are not replayed as the plain ordered list returned by Oplog::open")
    # Oplog::open hands over every decoded entry
    fo = ctx.fn(OPLOG_OPEN)
    if need(ctx, P, rule, OPLOG_OPEN, fo):
        dec = [s for s, t in fo.calls() if (t.get("resolved") or "").endswith("Entry as compact_encoding::CompactEncoding>::decode")]
        ps = [s for s, t in fo.calls() if (t.get("callee") or "").endswith("::push") and dec and term_has_call(fo.arg_origin(s, 1), callee_of(fo.blocks[dec[0]].term)) == dec[0]]
        ws = [(b, si) for b in fo.live() for si, st in enumerate(b.stmts) if st["k"] == "assign" and st["place"]["p"] and isinstance(st["place"]["p"][-1], dict) and st["place"]["p"][-1].get("n") == "entries"]
        ctx.check(P, rule, "Oplog::open returns every decoded entry", bool(dec) and bool(ps) and bool(ws), "entries.push(decoded); outcome.entries = Some(entries)", "decoded entries are not all collected into the open outcome")


def read_gate(ctx, prop, rule):
    fa = ctx.real_body(GET, [BS_READ])
    if need(ctx, prop, rule, GET, fa):
        gs = list(bool_switches(fa, lambda o: o[0] == "call" and o[2] == BF_GET))
        if need(ctx, prop, rule, "get: branch on Bitfield::get", gs):
            b, o, tr, fl = gs[0]
            good_arg = path_of(strip(o[3][0])) == "self.bitfield" and strip(o[3][1]) == ("param", "index")
            reads = sites_any(fa, (BS_READ, READ_INFO, BYTE_RANGE_CORE))
            ctx.check(prop, rule, "get consults the bitfield for the requested index", good_arg, "self.bitfield.get(index)", "gate is %s" % term_str(o)[:80], key="%s|%s|get|gate argument" % (prop, rule))
            bad = [s for s in reads if not fa.dominates(tr, s)]
            ctx.check(prop, rule, "every storage read of get lies behind bitfield.get(index) == true", reads and not bad, "%d read sites, all dominated by the held edge" % len(reads),
                      "storage read(s) reachable for a block that is not held: %s" % [loc(fa, s) for s in bad], [site_desc(fa, s) for s in bad], key="%s|%s|get|read without gate" % (prop, rule))
            vals = [t for _, _, t in ret_values_in_region(fa, fl)]
            ctx.check(prop, rule, "a block that is not held reads as None", bool(vals) and all(is_agg(t, "Ok") and is_agg(agg_field(t, "0"), "None") for t in vals) and not region_has_sites(fa, fl, reads),
                      "false edge returns Ok(None) without storage access", "not-held edge returns %s" % [term_str(v)[:40] for v in vals], key="%s|%s|get|not held" % (prop, rule))
            # the bytes returned are the bytes read for that index
            br = sites(fa, BYTE_RANGE_CORE)
            rd = sites(fa, BS_READ)
            good = bool(br) and strip(fa.arg_origin(br[0], 1)) == ("param", "index") and all(term_has_call(fa.arg_origin(s, 1), BYTE_RANGE_CORE) == br[0] for s in rd)
            ctx.check(prop, rule, "get reads the byte range of the requested index", good, "byte_range(index) feeds BlockStore::read", "byte range / read are not for the requested index")
            oks = [t for _, _, t in ok_returns(fa) if is_agg(agg_field(t, "0"), "Some")]
            ctx.check(prop, rule, "get returns the bytes it read", bool(oks) and all(term_has_call(t, BS_READ) is not None for t in oks), "Ok(Some(data)) with data from BlockStore::read", "returned data does not come from the block store read")
    fh = None
    for b in ctx.crate.group(HAS):
        f = ctx.fa(b)
        if sites(f, BF_GET):
            fh = f
    if need(ctx, prop, rule, HAS, fh):
        s = sites(fh, BF_GET)[0]
        rets = [t for _, _, t in ret_assigns(fh)]
        good = path_of(strip(fh.arg_origin(s, 0))) == "self.bitfield" and strip(fh.arg_origin(s, 1)) == ("param", "index") and len(sites(fh, BF_GET)) == 1
        ctx.check(prop, rule, "has(index) is exactly bitfield.get(index)", good, "has = self.bitfield.get(index)", "has does not return bitfield.get(index)", key="%s|%s|has" % (prop, rule))


def r3(ctx):
    read_gate(ctx, P, "C01.R3")


def r4(ctx):
    rule = "C01.R4"
    fa = ctx.real_body(APPEND_BATCH, [APPEND_CS])
    if need(ctx, P, rule, APPEND_BATCH, fa):
        bs = sites(fa, BS_APPEND)
        cm = sites(fa, MT_COMMIT)
        if need(ctx, P, rule, "append_batch: BlockStore::append_batch", bs):
            off = fa.arg_origin(bs[0], 3)
            ctx.check(P, rule, "new blocks are written at the current end of the data", path_of(strip(off)) == "self.tree.byte_length" and cm and not fa.can_reach(cm[0], bs[0]),
                      "offset = self.tree.byte_length read before the commit", "data offset is %s (or read after commit)" % term_str(off)[:60], key="C01|C01.R4|append offset")
            ctx.check(P, rule, "the batch written is the batch appended", "batch" in term_str(fa.arg_origin(bs[0], 1)), "append_batch(batch, ..)", "first argument is %s" % term_str(fa.arg_origin(bs[0], 1))[:60])
        bu = sites(fa, BF_UPDATE)
        if need(ctx, P, rule, "append_batch: Bitfield::update", bu):
            u = strip(fa.arg_origin(bu[0], 1))
            good = is_agg(u) and term_is_lit(agg_field(u, "drop"), 0)
            if good:
                st, ln = agg_field(u, "start"), agg_field(u, "length")
                csite = sites(fa, MT_CHANGESET)
                from_tree = len(csite) == 1 and path_of(strip(fa.arg_origin(csite[0], 0))) == "self.tree"
                good = from_tree and term_sig(st) in ("~MerkleTreeChangeset.ancestors", "changeset(self.tree).ancestors") and term_sig(ln) in ("~MerkleTreeChangeset.batch_length", "changeset(self.tree).batch_length")
            ctx.check(P, rule, "appended indices are [old length, old length + batch)", good, "BitfieldUpdate{drop:false, start: changeset.ancestors, length: changeset.batch_length}", "bitfield update is %s" % term_str(u)[:140], key="C01|C01.R4|append bitfield update")
        # every block of the batch is appended to the changeset exactly once, in order
        ap = sites(fa, CS_APPEND)
        nx = [s for s in sites(fa, "std::iter::Iterator::next") if "batch" in term_str(fa.arg_origin(s, 0))]
        good = len(ap) == 1 and nx and any(ap[0] in body and nx[0] in body for _, body, _ in fa.loops()) and term_has_call(fa.arg_origin(ap[0], 1), "std::iter::Iterator::next") == nx[0]
        ctx.check(P, rule, "each block of the batch enters the tree once, in order", good, "for data in batch.iter() { changeset.append(data) }", "batch iteration / changeset.append structure differs")
    fb = ctx.fn(BS_APPEND)
    if need(ctx, P, rule, BS_APPEND, fb):
        nc = sites(fb, SI_CONTENT)
        good = bool(nc) and strip(fb.arg_origin(nc[0], 1)) == ("param", "byte_length") and is_agg(strip(fb.arg_origin(nc[0], 0)), "Data")
        ctx.check(P, rule, "the block store writes at the offset it is given, in the data store", good, "new_content(Store::Data, byte_length, buffer)", "BlockStore::append_batch writes elsewhere")
        ex = [s for s, t in fb.calls() if (t.get("callee") or "").endswith("extend_from_slice")]
        ctx.check(P, rule, "blocks are concatenated in batch order", len(ex) == 1 and any(ex[0] in body for _, body, _ in fb.loops()), "buffer.extend_from_slice(data) per block", "concatenation structure differs")
    fc = ctx.real_body(CLEAR, [OPLOG_CLEAR])
    if need(ctx, P, rule, CLEAR, fc):
        oc, sr = sites(fc, OPLOG_CLEAR), sites(fc, BF_SET_RANGE)
        good = strip(fc.arg_origin(oc[0], 1)) == ("param", "start") and strip(fc.arg_origin(oc[0], 2)) == ("param", "end")
        ctx.check(P, rule, "clear logs exactly the requested range", good, "Oplog::clear(start, end)", "Oplog::clear receives (%s, %s)" % (term_str(fc.arg_origin(oc[0], 1)), term_str(fc.arg_origin(oc[0], 2))), key="C01|C01.R4|clear log range")
        l_ = lin(ctx, fc.arg_origin(sr[0], 2)) if sr else None
        good = bool(sr) and strip(fc.arg_origin(sr[0], 1)) == ("param", "start") and l_ == {"end": 1, "start": -1} and term_is_lit(fc.arg_origin(sr[0], 3), 0)
        ctx.check(P, rule, "clear drops exactly [start, end) from the bitfield", good, "set_range(start, end - start, false)", "bitfield range cleared is (%s, %s)" % (term_str(fc.arg_origin(sr[0], 1)), l_), key="C01|C01.R4|clear bitfield range")
        sw = [x for x in bool_switches(fc, lambda o: o[0] == "bin" and o[1] == "Lt" and strip(o[2]) == ("param", "start") and strip(o[3]) == ("param", "end"))]
        ctx.check(P, rule, "an empty range is a no-op", bool(sw) and edge_returns_without(fc, sw[0][3], oc + sr)[0], "start >= end returns before any effect", "start >= end is not an effect-free early return")
    fo = ctx.fn(OPLOG_CLEAR)
    if need(ctx, P, rule, OPLOG_CLEAR, fo):
        ent = [fo.origin_rvalue(st["rv"], b.i, si) for b in fo.live() for si, st in enumerate(b.stmts) if st["k"] == "assign" and st["rv"]["k"] == "agg" and st["rv"].get("name", "").endswith("BitfieldUpdate")]
        good = False
        if ent:
            d = dict(ent[0][3])
            good = term_is_lit(d["drop"], 1) and strip(d["start"]) == ("param", "start") and lin(ctx, d["length"]) == {"end": 1, "start": -1}
        ctx.check(P, rule, "the drop entry records [start, end)", good, "BitfieldUpdate{drop:true, start, length: end-start}", "drop entry is %s" % (term_str(ent[0])[:100] if ent else None), key="C01|C01.R4|drop entry")


def r5(ctx):
    rule = "C01.R5"
    fa = ctx.real_body(APPEND_BATCH, [APPEND_CS])
    if need(ctx, P, rule, APPEND_BATCH, fa):
        oks = [(b, s, t) for b, s, t in ok_returns(fa) if is_agg(agg_field(t, "0")) and agg_field(t, "0")[1].endswith("AppendOutcome")]
        cm = sites(fa, MT_COMMIT)
        good = bool(oks)
        for b, s, t in oks:
            ao = agg_field(t, "0")
            good = good and path_of(strip(agg_field(ao, "length"))) == "self.tree.length" and path_of(strip(agg_field(ao, "byte_length"))) == "self.tree.byte_length"
            good = good and all(not fa.can_reach(b, c) for c in cm)
        ctx.check(P, rule, "append reports the tree's length and byte length after the commit", good, "AppendOutcome{length: self.tree.length, byte_length: self.tree.byte_length}", "append outcome is built from something else or before the commit", key="C01|C01.R5|append outcome")
    fi = ctx.fn(INFO)
    if need(ctx, P, rule, INFO, fi):
        for bb in fi.nodes:
            for si, st in enumerate(fi.blocks[bb].stmts):
                if st["k"] == "assign" and st["rv"]["k"] == "agg" and st["rv"].get("name") == "core::Info":
                    t = fi.origin_rvalue(st["rv"], bb, si)
                    good = path_of(strip(agg_field(t, "length"))) == "self.tree.length" and path_of(strip(agg_field(t, "byte_length"))) == "self.tree.byte_length" and path_of(strip(agg_field(t, "fork"))) == "self.tree.fork"
                    ctx.check(P, rule, "info reports the tree's length, byte length and fork", good, "Info from self.tree.*", "Info fields are %s" % term_str(t)[:160], key="C01|C01.R5|info")
    fc = ctx.fn(MT_COMMIT)
    if need(ctx, P, rule, MT_COMMIT, fc):
        ws = {p: term_str(fc.origin_rvalue(fc.blocks[b].stmts[si]["rv"], b, si)) for b, si, p in assign_sites_prefix(fc, "self")}
        good = ws.get("self.length") == "changeset.length" and ws.get("self.byte_length") == "changeset.byte_length" and ws.get("self.roots") == "changeset.roots"
        ctx.check(P, rule, "commit copies length, byte length and roots from the changeset", good, "self.{length,byte_length,roots} = changeset.*", "commit assigns %s" % ws, key="C01|C01.R5|commit")
    fr = ctx.fn(CS_APPEND_ROOT)
    if need(ctx, P, rule, CS_APPEND_ROOT, fr):
        ws = {}
        for b, si, p in assign_sites_prefix(fr, "self"):
            ws[p] = lin(ctx, fr.origin_rvalue(fr.blocks[b].stmts[si]["rv"], b, si))
        bl = ws.get("self.byte_length")
        good = bl is not None and bl.get("self.byte_length") == 1 and bl.get("node.length") == 1 and len(bl) == 2
        ctx.check(P, rule, "byte length grows by the size of every appended node", good, "self.byte_length += node.length", "byte_length update is %s" % bl, key="C01|C01.R5|byte length accumulation")
    fo = ctx.fn(MT_OPEN)
    if need(ctx, P, rule, MT_OPEN, fo):
        aggs = [fo.origin_rvalue(st["rv"], b.i, si) for b in fo.live() for si, st in enumerate(b.stmts) if st["k"] == "assign" and st["rv"]["k"] == "agg" and st["rv"].get("name") == MT]
        good = False
        if aggs:
            d = dict(aggs[0][3])
            good = "node_from_bytes" in term_str(d["byte_length"]) and "length" in term_str(d["byte_length"]) and "header_tree.fork" in term_str(d["fork"])
        ctx.check(P, rule, "reopened byte length is the sum of the stored root sizes", good, "byte_length += node.length over the stored roots", "MerkleTree::open computes byte_length from %s" % (term_str(d["byte_length"])[:100] if aggs else None))


def r6(ctx):
    """no element is skipped: loops that persist / apply one thing per element do so unconditionally"""
    rule = "C01.R6"
    cases = [
        (APPEND_BATCH, [APPEND_CS], "batch", CS_APPEND, "every block of the batch is appended to the changeset"),
        (BS_APPEND, None, "batch", None, "every block of the batch is copied into the data write"),
        (MT_COMMIT, None, "changeset.nodes", "IntMap::<V>::insert", "every node of a committed changeset becomes an unflushed node"),
        (MT_FLUSH_NODES, None, "unflushed", SI_CONTENT, "every unflushed node is written"),
        (BF_FLUSH, None, "unflushed", SI_CONTENT, "every dirty bitfield page is written"),
        (NEW, [OPLOG_OPEN], "tree_nodes", MT_ADD_NODE, "every tree node of a replayed entry is re-added"),
    ]
    for fn, anchors, over, callee, what in cases:
        fa = ctx.real_body(fn, anchors) if anchors else ctx.fn(fn)
        if not need(ctx, P, rule, fn, fa):
            continue
        nx = iterator_loops(fa, over)
        if not nx:
            # the same thing as one bulk operation of std: dst.extend(src) / append(src) moves every element
            bulk = [s_ for s_, t_ in fa.calls() if (t_.get("callee") or "").split("::")[-1] in ("extend", "append", "extend_from_slice") and len(t_["args"]) == 2 and over in term_str(fa.arg_origin(s_, 1))]
            if bulk:
                ctx.ok(P, rule, "%s: %s" % (fn.split("::")[-1], what), "bulk %s of `%s`: every element is moved" % (callee_of(fa.blocks[bulk[0]].term).split("::")[-1], over), [site_desc(fa, bulk[0])])
                continue
        if not need(ctx, P, rule, "%s: loop over %s" % (fn.split("::")[-1], over), nx):
            continue
        if callee:
            ss = [s for s, t_ in fa.calls() if (callee_of(t_) == callee or (t_.get("callee") or "").endswith(callee)) and any(s in body and nx[0] in body for _, body, _ in fa.loops())]
            if not ss and fn == MT_COMMIT:
                # through the tree's own add_node, which files its argument under `unflushed` on every path
                fad = ctx.fn(MT_ADD_NODE)
                ins = [s_ for s_, t_ in fad.calls() if (t_.get("callee") or "").endswith("IntMap::<V>::insert") and "unflushed" in term_str(fad.arg_origin(s_, 0))] if fad is not None else []
                if ins and (ins[0] == 0 or fad.postdominates(ins[0], 0)):   # block 0 is the entry
                    ss = [s for s, t_ in fa.calls() if callee_of(t_) == MT_ADD_NODE and any(s in body and nx[0] in body for _, body, _ in fa.loops())]
        else:
            ss = [s for s, t in fa.calls() if (t.get("callee") or "").split("::")[-1] in ("extend_from_slice", "insert", "push") and any(s in body and nx[0] in body for _, body, _ in fa.loops())]
        if not need(ctx, P, rule, "%s: per-element action" % fn.split("::")[-1], ss):
            continue
        r = every_element_reaches(fa, nx[0], ss[0])
        ctx.check(P, rule, "%s: %s" % (fn.split("::")[-1], what), r is True, "no path from `Some(element)` to the next iteration or a normal exit avoids %s" % callee_of(fa.blocks[ss[0]].term).split("::")[-1],
                  "%s can skip an element: %s is not executed for every element of `%s`" % (fn, callee_of(fa.blocks[ss[0]].term), over), [site_desc(fa, ss[0])], key="C01|C01.R6|%s|element skipped" % fn)


def r7(ctx):
    """bitfield pages come back from storage as they were written (shared with C06.R5 / C08.R2):
    reopening must not change has()"""
    from . import c06
    c06.r5(ctx, P, "C01.R7")


def r8(ctx):
    """clear deletes from the data store only bytes of blocks that are not held: the hole runs
    from the block after the nearest held block at or below `start` (or from 0) to the nearest
    held block at or above `end` (or the tree length), its byte offset is byte_offset(first),
    and its byte length ends with the byte range of block last - 1.  An off-by-one here
    (`index` for `index + 1`, `end` for `end - 1`) deletes the bytes of a block that has() still
    reports and get() still serves."""
    rule = "C01.R8"
    fa = ctx.real_body(CLEAR, [BS_CLEAR])
    if not need(ctx, P, rule, CLEAR, fa):
        return
    bo, br, bc = sites(fa, MT_BYTE_OFFSET), sites(fa, BYTE_RANGE_CORE), sites(fa, BS_CLEAR)
    if not (need(ctx, P, rule, "clear: MerkleTree::byte_offset", bo) and need(ctx, P, rule, "clear: Hypercore::byte_range", br) and need(ctx, P, rule, "clear: BlockStore::clear", bc)):
        return
    def is_call(t, callee, arg2):
        t = strip(t)
        return t[0] == "call" and len(t) == 4 and t[2] == callee and len(t[3]) == 3 and path_of(strip(t[3][0])) == "self.bitfield" and term_is_lit(t[3][1], 1) and strip(t[3][2]) == ("param", arg2)
    # first block of the hole
    firsts = [unwrap_ovf(fa.arg_origin(s, 1)) for s in bo]
    def first_ok(t):
        rs = list(t[1]) if t[0] == "join" else [t]
        zero = [r for r in rs if term_is_lit(r, 0)]
        succ = [r for r in rs if r[0] == "bin" and r[1] == "Add" and term_is_lit(r[3], 1) and r[2][0] == "some" and is_call(r[2][1], BF_LAST_INDEX_OF, "start")]
        return len(rs) == 2 and len(zero) == 1 and len(succ) == 1
    ctx.check(P, rule, "the hole starts right after the nearest held block at or below start", all(first_ok(t) for t in firsts) and len({term_sig(t) for t in firsts}) == 1,
              "first = last_index_of(true, start).map(|i| i + 1).unwrap_or(0)", "clear computes the first block of the hole as %s" % [term_str(t)[:110] for t in firsts], key="C01|C01.R8|clear|hole start")
    # the two alternatives belong to the right edges of the test of last_index_of's result
    tests = list(option_tests(fa, lambda v_: is_call(v_, BF_LAST_INDEX_OF, "start")))
    good = False
    if tests and bo:
        _, _, some_e, none_e = tests[0]
        alts = guarded_values(fa, fa.blocks[bo[0]].term["args"][1])
        z = [db for t_, db in alts if db is not None and term_is_lit(unwrap_ovf(strip(t_)), 0)]
        nz = [db for t_, db in alts if db is not None and not term_is_lit(unwrap_ovf(strip(t_)), 0)]
        good = bool(z) and bool(nz) and all(fa.dominates(none_e, d) for d in z) and all(fa.dominates(some_e, d) for d in nz)
    ctx.check(P, rule, "0 is used only when no block at or below start is held", good, "None => 0, Some(i) => i + 1", "the alternatives of the hole start are not tied to the Some / None edges of last_index_of's result", key="C01|C01.R8|clear|hole start edges")
    # last block of the hole
    lasts = [unwrap_ovf(fa.arg_origin(s, 1)) for s in br]
    def last_ok(t):
        if not (t[0] == "bin" and t[1] == "Sub" and term_is_lit(t[3], 1)):
            return False
        e = t[2]
        rs = list(e[1]) if e[0] == "join" else [e]
        ln = [r for r in rs if path_of(strip(r)) == "self.tree.length"]
        ix = [r for r in rs if r[0] == "some" and is_call(r[1], BF_INDEX_OF, "end")]
        return len(rs) == 2 and len(ln) == 1 and len(ix) == 1
    ctx.check(P, rule, "the hole ends right before the nearest held block at or above end", all(last_ok(t) for t in lasts),
              "last = index_of(true, end).unwrap_or(tree.length) - 1", "clear asks for the byte range of block %s" % [term_str(t)[:110] for t in lasts], key="C01|C01.R8|clear|hole end")
    tests = list(option_tests(fa, lambda v_: is_call(v_, BF_INDEX_OF, "end")))
    ctx.check(P, rule, "tree.length is used only when no block at or above end is held", bool(tests), "None => tree.length, Some(i) => i", "no test of index_of's result", key="C01|C01.R8|clear|hole end edges")
    # bytes: offset = byte_offset(first); length = range(last).index + range(last).length - offset
    off, ln = fa.arg_origin(bc[0], 1), unwrap_ovf(fa.arg_origin(bc[0], 2))
    offs = roots(off)
    good_off = bool(offs) and all(term_has_call(r, MT_BYTE_OFFSET) in bo for r in offs)
    good_len = False
    if ln[0] == "bin" and ln[1] == "Sub":
        a = ln[2]
        good_len = a[0] == "bin" and a[1] == "Add" and {path_tail(a[2]), path_tail(a[3])} == {"index", "length"} and all(term_has_call(x, BYTE_RANGE_CORE) == br[0] for x in (a[2], a[3])) and term_sig(unwrap_ovf(ln[3])) == term_sig(unwrap_ovf(off))
    ctx.check(P, rule, "the deleted bytes are [byte_offset(first), end of block last)", good_off and good_len, "BlockStore::clear(offset, range.index + range.length - offset)",
              "BlockStore::clear receives offset %s and length %s" % (term_str(off)[:80], term_str(ln)[:120]), key="C01|C01.R8|clear|byte hole")


def r8b(ctx):
    """the two searches clear's hole rests on, DynamicBitfield::index_of(true, p) and
    last_index_of(true, p), across pages: the page of `p` is searched from p's offset, then the other
    existing pages in order of distance — keys strictly beyond (below) that page, sorted ascending
    (descending), each searched from its first (last) bit — and what is returned is
    page * PAGE + offset for the page that was searched."""
    rule = "C01.R8"
    page = const_lookup(ctx, "bitfield::dynamic::DYNAMIC_BITFIELD_PAGE_SIZE")
    bits = const_lookup(ctx, "bitfield::fixed::FIXED_BITFIELD_BITS_LENGTH")
    for fn_, fixed, up in ((BF_INDEX_OF, "bitfield::fixed::FixedBitfield::index_of", True), (BF_LAST_INDEX_OF, "bitfield::fixed::FixedBitfield::last_index_of", False)):
        short = fn_.split("::")[-1]
        fa = ctx.fn(fn_)
        if not need(ctx, P, rule, fn_, fa):
            continue
        vs = list(bool_switches(fa, lambda o: strip(o) == ("param", "value")))
        if not need(ctx, P, rule, "%s: branch on `value`" % short, vs):
            continue
        tr = vs[0][2]
        reg = region(fa, tr, avoiding=[vs[0][3]] if vs[0][3] is not None else ())
        fx = [s_ for s_ in sites(fa, fixed) if s_ in reg and fa.dominates(tr, s_)]
        rets = []
        for bb, _, t_ in ret_assigns(fa):
            if bb in reg and fa.dominates(tr, bb):
                # `return Some(x)` or `let found = ..; if found.is_some() { return found }`: the Some alternatives
                for m_ in (t_[1] if t_[0] == "join" else (t_,)):
                    m_ = strip(m_) if m_[0] != "agg" else m_
                    if is_agg(m_, "Some") and (bb, term_sig(m_)) not in [(b0, term_sig(t0)) for b0, t0 in rets]:
                        rets.append((bb, m_))
        if not need(ctx, P, rule, "%s(true, ..): page searches and Some(..) results" % short, len(fx) >= 2 and len(rets) >= 2):
            continue
        # every result is  key * PAGE + offset  with offset found in the page stored under that key
        bad = []
        for bb, t_ in rets:
            v = unwrap_ovf(agg_field(t_, "0"))
            ok_ = False
            if v[0] == "bin" and v[1] == "Add":
                for a, b in ((v[2], v[3]), (v[3], v[2])):
                    a = unwrap_ovf(strip(a))
                    key = None
                    if a[0] == "bin" and a[1] == "Mul" and ev(ctx, a[3]) == page:
                        key = a[2]
                    elif a[0] == "call" and a[2].split("::")[-1] == "mul" and len(a[3]) == 2 and ev(ctx, a[3][1]) == page:
                        key = a[3][0]
                    site = term_has_call(b, fixed)
                    if key is not None and site in fx:
                        pg = fa.arg_origin(site, 0)
                        gets = [x for x in subterms(pg) if isinstance(x, tuple) and len(x) == 4 and x[0] == "call" and x[2].endswith("::get") and len(x[3]) == 2 and path_of(strip(x[3][0])) == "self.pages"]
                        ok_ = bool(gets) and term_sig(unwrap_ovf(strip(gets[0][3][1]))) == term_sig(unwrap_ovf(strip(key)))
            if not ok_:
                bad.append(term_str(v)[:110])
        ctx.check(P, rule, "%s(true, ..) returns page * PAGE + offset for the page it searched" % short, not bad, "%d results, each key * %s + FixedBitfield::%s(pages[key], ..)" % (len(rets), page, short),
                  "%s builds a result from a page key and an offset that do not belong together: %s" % (short, bad[:2]), key="C01|C01.R8|%s|result" % short)
        # the other pages: filter by distance, sort, (reverse), search from the near end
        flt = [s_ for s_, t_ in fa.calls() if (t_.get("callee") or "").endswith("Iterator::filter") and s_ in reg]
        srt = [s_ for s_, t_ in fa.calls() if (t_.get("callee") or "").split("::")[-1] in ("sort", "sort_unstable") and s_ in reg]
        rev = [s_ for s_, t_ in fa.calls() if (t_.get("callee") or "").split("::")[-1] == "reverse" and s_ in reg]
        cmp_ok = False
        if flt:
            cl = strip(fa.arg_origin(flt[0], 1))
            if cl[0] == "closure":
                for b_ in ctx.crate.bodies.get(cl[1], []):
                    fc = ctx.fa(b_)
                    for _, _, rt in ret_assigns(fc):
                        o, neg = canon_cond(rt)
                        # canonical Lt(a, b): ascending search keeps keys with page < key, descending keys with key < page
                        if o[0] == "bin" and o[1] == "Lt" and not neg:
                            a_, b_2 = term_str(strip(o[2])), term_str(strip(o[3]))
                            cmp_ok = (b_2 == "key" and a_ != "key") if up else (a_ == "key" and b_2 != "key")
        loop_fx = [s_ for s_ in fx if any(s_ in body for _, body, _ in fa.loops())]
        start_ok = bool(loop_fx) and all(ev(ctx, fa.arg_origin(s_, 2)) == (0 if up else bits - 1) for s_ in loop_fx)
        # descending order: the sorted keys reversed in place (`keys.reverse()`) or walked backwards (`.iter().rev()`), exactly one of the two
        revit = [s_ for s_, t_ in fa.calls() if (t_.get("callee") or "") == "std::iter::Iterator::rev" and s_ in reg]
        n_rev = len(rev) + len(revit)
        rev_ok = n_rev == 1 and all(fa.dominates(srt[0], x) and all(fa.dominates(x, s_) for s_ in loop_fx) for x in rev + revit) if srt else False
        order_ok = bool(srt) and bool(loop_fx) and all(fa.dominates(srt[0], s_) for s_ in loop_fx) and ((n_rev == 0) if up else rev_ok)
        ctx.check(P, rule, "%s(true, ..) visits the other pages nearest first" % short, cmp_ok and order_ok and start_ok,
                  "keys %s the page of the position, sorted%s, each searched from bit %s" % ("beyond" if up else "below", "" if up else " and reversed", 0 if up else bits - 1),
                  "%s: filter %s, sort/reverse order %s, start bit %s — a nearer held block in another page can be passed over, and clear then deletes its bytes" % (short, "ok" if cmp_ok else "WRONG", "ok" if order_ok else "WRONG", "ok" if start_ok else "WRONG"),
                  key="C01|C01.R8|%s|page order" % short)


def path_tail(t):
    t = strip(t)
    return t[2] if t[0] == "field" else None


def r9(ctx):
    """a cleared (or set) range reaches the bitfield file: FixedBitfield::set_range reports a change
    in any word of the range, so that the page is queued and written by the next flush (C08.R6)"""
    from . import c08
    c08.fixed_set_range(ctx, P, "C01.R9")


def r10(ctx):
    """get(i) reads the bytes of block i: the byte offset the tree computes for a leaf is the sum of
    the lengths of everything before it — every root wholly before the leaf, and inside the root
    that contains it every left sibling passed on the way down.  Decided by path-sensitive affine
    dataflow over one round of the root loop and one round of the descent of
    MerkleTree::byte_offset_from_nodes (a wrong addend, a skipped root or a length added on the
    wrong branch moves every later read)."""
    from .. import pathval as PV
    rule = "C01.R10"
    FN = "tree::merkle_tree::MerkleTree::byte_offset_from_nodes"
    fa = ctx.fn(FN)
    if not need(ctx, P, rule, FN, fa):
        return
    loops = fa.loops()
    # the descent is entered from the root loop and returns from inside: it is not part of the root
    # loop's natural loop, it is the loop the root loop's body leads to
    outer = [l for l in loops if any(l2[0] != l[0] and fa.can_reach(l[0], l2[0]) and not fa.can_reach(l2[0], l[0]) for l2 in loops)]
    inner = [l for l in loops if any(l2[0] != l[0] and fa.can_reach(l2[0], l[0]) and not fa.can_reach(l[0], l2[0]) for l2 in loops)]
    if not need(ctx, P, rule, "byte_offset_from_nodes: root loop with a nested descent loop", outer and inner):
        return
    ho, hi = outer[0][0], inner[0][0]
    po, pi = PV.walk(fa, ho, {ho, hi}), PV.walk(fa, hi, {hi, ho})
    if not need(ctx, P, rule, "byte_offset_from_nodes: loop bodies without further loops", po and pi):
        return
    nm = fa.body.local_name
    def lfd(v):
        return dict(v[1]) if PV.is_lf(v) else None
    cont = [p_ for p_ in po if p_.end == "stop" and p_.at == ho]
    enter = [p_ for p_ in po if p_.end == "stop" and p_.at == hi]
    if not need(ctx, P, rule, "byte_offset_from_nodes: a way round the root loop and a way into the descent", cont and enter):
        return
    # roles: the accumulator gains <root>.length on a continue round; the other carried variable is the span head
    acc = head = root = None
    for l, v in cont[0].env.items():
        d = lfd(v)
        if not nm(l) or d is None:
            continue
        ln = [k for k in d if isinstance(k, str) and k.endswith(".length")]
        if d.get(nm(l)) == 1 and len(ln) == 1 and d[ln[0]] == 1 and len(d) == 2:
            acc, root = l, ln[0][: -len(".length")]
    for l, v in cont[0].env.items():
        d = lfd(v)
        if nm(l) and d is not None and l != acc and d.get(nm(l)) == -1:
            head = l
    good = acc is not None and head is not None
    want_head = {nm(head): -1, root + ".index": 2, 1: 2} if good else None
    def head_ok(p_):
        d = lfd(p_.env.get(head, ("opq", "?")))
        return d is not None and {k: int(c) for k, c in d.items()} == want_head
    def cmp_truth(p_):
        for k, v in p_.cond.items():
            if k.startswith("Lt(index, ") and root in k:
                return v
        return None
    ok_cont = good and all(head_ok(p_) and lfd(p_.env.get(acc)) == {nm(acc): 1, root + ".length": 1} and cmp_truth(p_) is False for p_ in cont)
    ctx.check(P, rule, "a root that lies wholly before the leaf adds its length to the offset", ok_cont, "index >= head' => offset += root.length, with head' = head + 2 * (root.index - head + 1)",
              "byte_offset_from_nodes, way round the root loop: %s" % [{nm(l): PV.render(v)[:60] for l, v in p_.env.items() if nm(l)} for p_ in cont][:2], key="C01|C01.R10|byte_offset_from_nodes|roots before")
    ok_enter = good and all(head_ok(p_) and (acc not in p_.env or lfd(p_.env[acc]) == {nm(acc): 1}) and cmp_truth(p_) is True
                            and any(PV.render(v) == "new(%s.index)" % root for l, v in p_.env.items()) for p_ in enter)
    ctx.check(P, rule, "the descent starts at the first root whose span reaches beyond the leaf, with the offset as accumulated", ok_enter, "index < head' => iter = Iterator::new(root.index), offset unchanged",
              "byte_offset_from_nodes, way into the descent: %s" % [{nm(l): PV.render(v)[:60] for l, v in p_.env.items() if nm(l)} for p_ in enter][:2], key="C01|C01.R10|byte_offset_from_nodes|containing root")
    # the descent
    rounds = [p_ for p_ in pi if p_.end == "stop" and p_.at == hi]
    if not need(ctx, P, rule, "byte_offset_from_nodes: ways round the descent", rounds) or not good:
        return
    bad = []
    n_left = n_right = 0
    # the descent may accumulate in a copy of the offset (a helper's own `let mut offset = offset`,
    # inlined): the accumulator of the descent is the copy that some round of the descent changes
    copies = [l for l, v in enter[0].env.items() if l != acc and nm(l) and lfd(v) == {nm(acc): 1}]
    for l in copies:
        if any(l in p_.env and lfd(p_.env[l]) != {nm(l): 1} for p_ in rounds) and not any(acc in p_.env and lfd(p_.env[acc]) != {nm(acc): 1} for p_ in rounds):
            acc = l
            break
    for p_ in rounds:
        lt = [v for k, v in p_.cond.items() if k.startswith("Lt(index, index(")]
        calls = [c_.split("::")[-1] for c_, _, _ in p_.calls]
        d = lfd(p_.env[acc]) if acc in p_.env else {nm(acc): 1}
        if lt and lt[0] is True:
            n_left += 1
            if not (d == {nm(acc): 1} and "left_child" in calls and "sibling" not in calls and "right_child" not in calls):
                bad.append("going left: offset %s, calls %s" % (PV.render(p_.env.get(acc, ("opq", nm(acc)))), [c for c in calls if c in ("left_child", "right_child", "sibling")]))
        elif lt and lt[0] is False:
            n_right += 1
            req = [a_ for c_, a_, _ in p_.calls if c_.endswith("::required_node")]
            arg_ok = bool(req) and PV.render(req[0][1]).startswith("left_child(")
            added = [k for k in (d or {}) if isinstance(k, str) and k.endswith(".length") and "required_node(" in k and "left_child(" in k]
            pushed = any(c_.endswith("::push") for c_, _, _ in p_.calls)
            if not (arg_ok and calls.count("left_child") == 1 and "sibling" in calls and calls.index("left_child") < calls.index("sibling")
                    and ((d is not None and len(added) == 1 and d.get(nm(acc)) == 1 and len(d) == 2) or (d == {nm(acc): 1} and pushed))):
                bad.append("going right: offset %s, calls %s" % (PV.render(p_.env.get(acc, ("opq", nm(acc)))), [c for c in calls if c in ("left_child", "right_child", "sibling", "required_node", "push")]))
        else:
            bad.append("a way round the descent that does not compare the leaf with the iterator position")
    ctx.check(P, rule, "going down, the left sibling's length is added exactly when the descent turns right", not bad and n_left > 0 and n_right > 0,
              "index < iter.index(): left_child only; else offset += required_node(left_child).length (or an instruction), then sibling",
              "byte_offset_from_nodes, descent: %s" % bad[:2], key="C01|C01.R10|byte_offset_from_nodes|descent")
    rets = [p_ for p_ in pi if p_.end == "return"]
    ok_ret = bool(rets) and all(any(k.startswith("Eq(index(") and v is True for k, v in p_.cond.items()) or any(k.startswith("disc(branch(required_node") for k in p_.cond) for p_ in rets)
    ctx.check(P, rule, "the descent ends at the leaf", ok_ret, "returns only under iter.index() == index (or on a node error)", "a return of the descent is not under iter.index() == index", key="C01|C01.R10|byte_offset_from_nodes|end")
    # byte_range puts the two together: length of the leaf itself, offset from byte_offset_from_nodes, same leaf
    BR = "tree::merkle_tree::MerkleTree::byte_range"
    fb = ctx.fn(BR)
    if need(ctx, P, rule, BR, fb):
        rq, bo = sites(fb, "tree::merkle_tree::MerkleTree::required_node"), sites(fb, FN)
        ws = {p_: fb.origin_rvalue(fb.blocks[b_].stmts[si_]["rv"], b_, si_) for b_, si_, p_ in assign_sites_prefix(fb, "~NodeByteRange")}
        if not ws:
            # the range built in one piece: NodeByteRange { index: offset, length } in the Ok(Right(..)) result
            for _, _, t_ in ok_returns(fb):
                r_ = agg_field(agg_field(t_, "0"), "0") if is_agg(agg_field(t_, "0"), "Right") else None
                if r_ is not None and is_agg(r_):
                    for f_ in ("index", "length"):
                        v_ = agg_field(r_, f_)
                        if v_ is not None:
                            ws["~NodeByteRange." + f_] = v_
        good = len(rq) == 1 and len(bo) == 1
        if good:
            leaf = strip(fb.arg_origin(rq[0], 1))
            good = term_has_call(leaf, "tree::merkle_tree::MerkleTree::validate_hypercore_index") is not None and strip(leaf[3][1]) == ("param", "hypercore_index") if leaf[0] == "call" else False
            good = good and term_sig(strip(fb.arg_origin(bo[0], 1))) == term_sig(leaf)
            ln, ix = ws.get("~NodeByteRange.length"), ws.get("~NodeByteRange.index")
            def real(t_):
                # the alternatives of a value that are not the literal placeholder 0 of the "instructions pending" case
                return [r_ for r_ in (t_[1] if t_[0] == "join" else (t_,)) if not term_is_lit(r_, 0)] if t_ is not None else []
            good = good and len(real(ln)) == 1 and len(real(ix)) == 1 and term_has_call(real(ln)[0], "tree::merkle_tree::MerkleTree::required_node") == rq[0] and term_sig(strip(real(ln)[0])).endswith(".length") and term_has_call(real(ix)[0], FN) == bo[0]
        ctx.check(P, rule, "byte_range = (offset of the leaf, length of the leaf), both for the validated index", good, "length = required_node(leaf).length, index = byte_offset_from_nodes(leaf)",
                  "byte_range assembles %s" % {k: term_str(v)[:70] for k, v in ws.items()}, key="C01|C01.R10|byte_range|assembly")


def r11(ctx):
    """reopen replays the entries that are current: which entries count as current is decided by the
    header bits Oplog::open (and a new log's creation) remember for the slot whose header is used —
    with the wrong bits the acknowledged operations still in the log are skipped as stale (C07.R5)"""
    from . import c07
    c07.r5(ctx, P, "C01.R11")


def r12(ctx):
    """an empty block is read (and its bytes "deleted") without touching the store: its offset is
    the sum of the lengths before it and may lie at or beyond the end of the data store once a
    clear has truncated the tail — both backends refuse a zero-length read or delete there, and
    the block is still held (defect D18)"""
    rule = "C01.R12"
    fr = ctx.fn(BS_READ)
    if need(ctx, P, rule, BS_READ, fr):
        lefts = [(bb, t) for t, bb in return_alternatives(fr) if is_agg(strip(t) if t[0] != "agg" else t, "Left")]
        zero = [(tr, fl) for _, o, tr, fl in bool_switches(fr, lambda o: o[0] == "bin" and o[1] == "Eq" and any(term_is_lit(x, 0) for x in (o[2], o[3])) and any(path_of(strip(x)) == "byte_range.length" for x in (o[2], o[3])))]
        good = bool(lefts) and bool(zero) and all(any(fl is not None and fr.dominates(fl, bb) for _, fl in zero) for bb, _ in lefts)
        ctx.check(P, rule, "BlockStore::read asks the store only for a range that has bytes", good, "byte_range.length == 0 => Right(empty), no instruction",
                  "BlockStore::read returns a read instruction also for an empty range: get() of an empty block whose offset lies beyond the (truncated) end of the data store fails with OutOfBounds although has() reports the block",
                  key="C01|C01.R12|BlockStore::read|empty range")
    fa = ctx.real_body(CLEAR, [BS_CLEAR])
    if need(ctx, P, rule, CLEAR, fa):
        bc = sites(fa, BS_CLEAR)
        pos = [tr for _, o, tr, fl in bool_switches(fa, lambda o: o[0] == "bin" and o[1] == "Lt" and term_is_lit(o[2], 0)) if tr is not None]
        good = bool(bc) and all(any(fa.dominates(tr, s_) for tr in pos) for s_ in bc)
        ctx.check(P, rule, "clear deletes only a hole that has bytes", good, "clear_length > 0 => BlockStore::clear(offset, clear_length)",
                  "clear issues its delete also when the hole holds no bytes: behind a truncated tail the zero-length delete lies beyond the end of the store and fails, after the drop entry was logged", key="C01|C01.R12|clear|empty hole")


def r13(ctx):
    """a delete is only handed to a backend when it starts inside the store: a store shrinks when a
    hole reaches its end (both backends turn such a delete into a truncate), so the offset of a
    block that is cleared again can lie beyond the end, where both backends refuse the delete — the
    clear of an already cleared range then fails instead of doing nothing (defect D22).  Clause:
    every RandomAccess::del call is dominated by `offset < len()` (or <=) on the same backend."""
    rule = "C01.R13"
    from .c09 import dominating_conditions
    n = 0
    for fa in ctx.all_fas():
        if "::tests::" in fa.body.name:
            continue
        for s_ in sites(fa, RA_DEL):
            n += 1
            recv = term_sig(fa.arg_origin(s_, 0))
            off = term_sig(fa.arg_origin(s_, 1))
            guard = False
            for o, tr, _ in dominating_conditions(fa, s_):
                if not isinstance(tr, bool):
                    continue
                o, neg = canon_cond(o)
                if neg:
                    tr = not tr
                if not (isinstance(o, tuple) and o[0] == "bin" and o[1] == "Lt"):
                    continue
                def is_len(x):
                    for y in subterms(x):
                        if isinstance(y, tuple) and y[0] == "call" and y[2] == RA_LEN and y[3] and term_sig(y[3][0]) == recv:
                            return True
                    return False
                # offset < len  (true branch)   or   not (len < offset), i.e. offset <= len (false branch)
                if tr is True and term_sig(o[2]) == off and is_len(o[3]):
                    guard = True
                if tr is False and term_sig(o[3]) == off and is_len(o[2]):
                    guard = True
            ctx.check(P, rule, "%s deletes only what starts inside the store" % fn_of(fa.body.name).split("::")[-1], guard, "del(offset, ..) only under offset < len() of the same backend",
                      "the delete at %s is handed to the backend whatever the length of the store: once a clear has shrunk the data store (a hole that reaches the end truncates it), clearing a block again whose offset lies beyond the end fails with OutOfBounds instead of doing nothing" % loc(fa, s_),
                      [site_desc(fa, s_)], key="C01|C01.R13|%s|delete beyond the end" % fn_of(fa.body.name).split("::")[-1])
    if ctx.crate.name == "hypercore" and n < 1:
        ctx.missing(P, rule, "RandomAccess::del call sites", "none found")


RULES = [r1, r2, r3, r4, r5, r6, r7, r8, r8b, r9, r10, r11, r12, r13]
EXPLANATION = ("C01 (log contents equal an append-only list model across reopen): decides the replay codec agreement of the oplog Entry — each optional section is decoded under the flag bit it was "
               "encoded with, flags 1/2/4/8, same presence conditions in size and encode (R1); replay completeness — every field of Entry reaches its consumer inside the replay loop of Hypercore::new, the "
               "rebuilt changeset is completed, copied into the header and committed, entries are walked in log order, and whether a replay consumer runs for an entry depends only on the entry field it consumes — never on another field such as tree_upgrade (R2); the read gate — every storage read of get() is dominated by bitfield.get(index), the "
               "not-held edge returns Ok(None), has() is bitfield.get(index) (R3); append / clear placement — data offset = tree.byte_length before commit, bitfield update = [ancestors, +batch_length), clear "
               "logs and drops exactly [start, end) (R4); observation provenance — AppendOutcome / Info come from the committed tree, commit copies the changeset, byte length accumulates node sizes (R5); loops that persist or apply one thing per element (batch blocks, changeset nodes, unflushed nodes, dirty pages, replayed nodes) do so for every element (R6); the bitfield page reader uses the writer's stride, page-relative little-endian words and reads every word of a complete page (R7); clear punches its hole into the data store only between the nearest held blocks (R8); FixedBitfield::set_range reports a change in any word of its range, so that the page reaches the file (R9 = C08.R6); the byte offset of a leaf is the sum of the lengths of the roots before it and of the left siblings passed on the way down (R10, path-sensitive affine dataflow over byte_offset_from_nodes); the new-log header bits (R11 = C07.R5); an empty block is read and cleared without touching the store (R12); a delete is handed to a backend only under `offset < len()` of the same backend, because a store shrinks when a hole reaches its end and clearing again must be a no-op (R13).")
NOT_DECIDED = ("byte equality of reads; that flat_tree's left_child / sibling visit the nodes R10 assumes; the hole computation in clear; flush cadence; that reopening changes no observation beyond R1/R2.")
ASSUMPTIONS = ["flat_tree index arithmetic is correct"]
