"""C02 — write-ahead ordering premises of crash recovery (DESIGN.md 5/C02)."""
from ..engine import *
from ..analysis import term_str, strip, roots, subterms, contains, callee_of, term_sig
from .names import *

P = "C02"


def _effects_in_memory(fa):
    """in-memory commit sites M: [(label, (bb,pos))]"""
    out = []
    for b, si in assign_sites(fa, "self.header"):
        out.append(("self.header =", (b, si)))
    for s in sites(fa, BF_UPDATE):
        out.append(("Bitfield::update", (s, None)))
    for s in sites(fa, UCL):
        out.append(("update_contiguous_length", (s, None)))
    for s in sites(fa, MT_COMMIT):
        out.append(("MerkleTree::commit", (s, None)))
    return out


def order_rule(ctx, prop, rule, fn_name, data_producer, optional_data):
    fa = ctx.real_body(fn_name, [APPEND_CS])
    if not need(ctx, prop, rule, fn_name, fa):
        return None
    A = fn_name.split("::")[-1]
    d_sites = sites_with_arg_from(fa, FLUSH_INFO, 1, data_producer)
    e_sites = sites_with_arg_from(fa, FLUSH_INFOS, 1, APPEND_CS)
    if not d_sites:
        batched = sites_with_arg_from(fa, FLUSH_INFOS, 1, data_producer)
        if batched:
            ctx.fail(prop, rule, A + ": data write before entry write",
                     "the data write built by %s is handed to the same flush_infos call as the oplog entry (%s): it is not a separately checked storage operation that has succeeded before the entry — the commit point — is written" % (
                         data_producer, loc(fa, batched[0][0])), [site_desc(fa, batched[0][0])], key="%s|%s|%s|data write batched with the entry" % (prop, rule, fn_name))
            return None
    if not need(ctx, prop, rule, A + ": flush_info(%s(..))" % data_producer, d_sites):
        return None
    if not need(ctx, prop, rule, A + ": flush_infos(append_changeset(..).infos_to_flush)", e_sites):
        return None
    M = _effects_in_memory(fa)
    labels = set(l for l, _ in M)
    # update_contiguous_length is hint maintenance (C08.R3), not part of the ordering premise
    for want in ("self.header =", "Bitfield::update", "MerkleTree::commit"):
        if want not in labels:
            ctx.missing(prop, rule, A + ": " + want, "in-memory commit site missing")
            return None
    f_sites = sites(fa, FLUSH_ALL)
    if not need(ctx, prop, rule, A + ": flush_bitfield_and_tree_and_oplog", f_sites):
        return None
    for d, _ in d_sites:
        c = checked(fa, d)
        ctx.check(prop, rule, A + ": data write checked", c is not None,
                  "data write at %s is awaited and ?-checked" % loc(fa, d),
                  "data write at %s is not ?-checked: a failed data write does not stop the append" % loc(fa, d), [site_desc(fa, d)])
    for e, _ in e_sites:
        c = checked(fa, e)
        ctx.check(prop, rule, A + ": entry write checked", c is not None,
                  "oplog entry write at %s is awaited and ?-checked" % loc(fa, e),
                  "oplog entry write at %s is not ?-checked" % loc(fa, e), [site_desc(fa, e)])
        if c is None:
            continue
        for d, _ in d_sites:
            if optional_data:
                cd = checked(fa, d)
                good = (not fa.can_reach(e, d)) and cd is not None and fa.can_reach(cd["ok"], e) and not fa.can_reach(cd["err"], e)
            else:
                good = before(fa, d, e)
            ctx.check(prop, rule, A + ": data write before entry write", good,
                      "entry write %s only after data write %s succeeded" % (loc(fa, e), loc(fa, d)),
                      "entry write %s can execute without/ before the data write %s having succeeded" % (loc(fa, e), loc(fa, d)),
                      [site_desc(fa, d), site_desc(fa, e)])
        for label, (mb, mp) in M:
            ctx.check(prop, rule, A + ": %s after entry write" % label, fa.dominates(c["ok"], mb),
                      "%s at %s only after the entry write succeeded" % (label, loc(fa, mb, mp)),
                      "%s at %s can execute before the oplog entry write %s succeeded (in-memory commit ahead of the log)" % (label, loc(fa, mb, mp), loc(fa, e)),
                      [site_desc(fa, e), "%s %s" % (loc(fa, mb, mp), label)])
    for label, (mb, mp) in M:
        for f in f_sites:
            ctx.check(prop, rule, A + ": %s before flush" % label, fa.can_reach(mb, f) and not fa.can_reach(f, mb),
                      "%s precedes the periodic flush" % label,
                      "periodic flush at %s can run before %s at %s" % (loc(fa, f), label, loc(fa, mb, mp)),
                      [site_desc(fa, f)])
    # no data-store write after the entry write
    for e, _ in e_sites:
        c = checked(fa, e)
        if c is None:
            continue
        after = fa.reach(c["ok"], include_src=True)
        late = [s for s in sites_any(fa, (FLUSH_INFO, FLUSH_INFOS)) if s in after and s != e]
        ctx.check(prop, rule, A + ": no raw storage write after entry write", not late,
                  "after the entry write only the periodic flush touches storage",
                  "storage write(s) after the oplog entry write: %s" % ", ".join(loc(fa, s) for s in late),
                  [site_desc(fa, s) for s in late])
    return fa


def r1(ctx):
    order_rule(ctx, P, "C02.R1", APPEND_BATCH, BS_APPEND, False)


def r2(ctx):
    order_rule(ctx, P, "C02.R2", VAP, BS_PUT, True)


def r3(ctx, P=P, rule="C02.R3"):
    fa = ctx.real_body(CLEAR, [OPLOG_CLEAR])
    if not need(ctx, P, rule, CLEAR, fa):
        return
    l = sites_with_arg_from(fa, FLUSH_INFOS, 1, OPLOG_CLEAR)
    x = sites_with_arg_from(fa, FLUSH_INFO, 1, BS_CLEAR)
    b = sites(fa, BF_SET_RANGE)
    f = sites(fa, FLUSH_ALL)
    if not (need(ctx, P, rule, "clear: flush_infos(Oplog::clear(..))", l) and need(ctx, P, rule, "clear: flush_info(BlockStore::clear(..))", x)
            and need(ctx, P, rule, "clear: Bitfield::set_range", b) and need(ctx, P, rule, "clear: flush_bitfield_and_tree_and_oplog", f)):
        return
    for ls, _ in l:
        c = checked(fa, ls)
        if not ctx.check(P, rule, "clear: entry write checked", c is not None, "drop entry write %s is ?-checked" % loc(fa, ls),
                         "drop entry write %s is not ?-checked" % loc(fa, ls), [site_desc(fa, ls)]):
            continue
        for bs in b:
            ctx.check(P, rule, "clear: bitfield after entry", fa.dominates(c["ok"], bs),
                      "bitfield cleared only after the drop entry is logged", "bitfield cleared at %s before the drop entry write %s succeeded" % (loc(fa, bs), loc(fa, ls)),
                      [site_desc(fa, ls), site_desc(fa, bs)])
        for xs, _ in x:
            ctx.check(P, rule, "clear: data delete after entry", fa.dominates(c["ok"], xs),
                      "data deleted only after the drop entry is logged",
                      "destructive data delete at %s can run before the drop entry write %s succeeded" % (loc(fa, xs), loc(fa, ls)),
                      [site_desc(fa, ls), site_desc(fa, xs)])
    for xs, _ in x:
        cx = checked(fa, xs)
        ctx.check(P, rule, "clear: data delete checked", cx is not None, "data delete %s is ?-checked" % loc(fa, xs),
                  "data delete %s is not ?-checked" % loc(fa, xs), [site_desc(fa, xs)])
        for bs in b:
            ctx.check(P, rule, "clear: bitfield before data delete", fa.dominates(bs, xs), "bitfield update precedes the data delete",
                      "data delete at %s not preceded by the bitfield update" % loc(fa, xs), [site_desc(fa, xs)])
        # the flush comes after the successful delete — or after the decision that the hole holds no
        # bytes (`clear_length > 0` false): an empty delete is skipped, not issued (defect D18)
        empty = [fl for _, o, tr, fl in bool_switches(fa, lambda o: o[0] == "bin" and o[1] == "Lt" and term_is_lit(o[2], 0)) if tr is not None and fa.dominates(tr, xs) and fl is not None]
        for fs in f:
            good = cx is not None and (fa.dominates(cx["ok"], fs) or (bool(empty) and not [p_ for p_ in fa.reach(0, avoiding=[cx["ok"]] + empty, include_src=True) if p_ == fs]))
            ctx.check(P, rule, "clear: delete before flush", good, "flush after the data delete (or after `nothing to delete`)",
                      "periodic flush at %s not dominated by the successful data delete" % loc(fa, fs), [site_desc(fa, fs)])


def r4(ctx):
    rule = "C02.R4"
    fa = ctx.real_body(FLUSH_ALL, [OPLOG_FLUSH])
    if not need(ctx, P, rule, FLUSH_ALL, fa):
        return None
    seq = []
    for prod, label in ((BF_FLUSH, "bitfield"), (MT_FLUSH, "tree"), (OPLOG_FLUSH, "oplog header")):
        s = sites_with_arg_from(fa, FLUSH_INFOS, 1, prod)
        if not need(ctx, P, rule, "flush: flush_infos(%s(..))" % prod, s):
            return None
        if len(s) != 1:
            ctx.fail(P, rule, "flush: one write per store", "%d flush_infos sites fed by %s (expected 1)" % (len(s), prod), [site_desc(fa, x[0]) for x in s])
            return None
        seq.append((label, s[0][0]))
    total = sites(fa, FLUSH_INFOS) + sites(fa, FLUSH_INFO)
    ctx.check(P, rule, "flush: exactly three storage writes", len(total) == 3, "three flush_infos sites (bitfield, tree, oplog)",
              "%d storage write sites in the flush routine (expected 3)" % len(total), [site_desc(fa, s) for s in total])
    for label, s in seq:
        ctx.check(P, rule, "flush: %s write checked" % label, checked(fa, s) is not None, "%s flush %s is ?-checked" % (label, loc(fa, s)),
                  "%s flush write at %s is not ?-checked" % (label, loc(fa, s)), [site_desc(fa, s)])
    for (l1, s1), (l2, s2) in zip(seq, seq[1:]):
        ctx.check(P, rule, "flush: %s before %s" % (l1, l2), before(fa, s1, s2), "%s written (and succeeded) before %s" % (l1, l2),
                  "%s write at %s is not dominated by the success of the %s write at %s: the header that obsoletes the log entries may be written first" % (l2, loc(fa, s2), l1, loc(fa, s1)),
                  [site_desc(fa, s1), site_desc(fa, s2)])
    return fa


def _array_elems(term):
    """elements of an array aggregate term (through into_boxed_slice etc.)"""
    t = strip(term)
    if t[0] == "agg" and t[1] == "array":
        return [o for _, o in t[3]]
    return None


def r5(ctx):
    rule = "C02.R5"
    fa = ctx.fn(INSERT_HEADER)
    if not need(ctx, P, rule, INSERT_HEADER, fa):
        return
    rets = [t for _, t in returns_value_terms(fa)]
    ok_terms = []
    for t in rets:
        for r in (t[1] if t[0] == "join" else (t,)):
            if r[0] == "agg" and r[2] == "Ok":
                ok_terms.append(r)
    if not need(ctx, P, rule, "insert_header: Ok(..) return", ok_terms):
        return
    for r in ok_terms:
        payload = dict(r[3])["0"]
        elems = None
        if payload[0] == "agg" and payload[1] == "tuple":
            elems = _array_elems(dict(payload[3])["1"])
        if elems is None:
            ctx.fail(P, rule, "insert_header: returned infos are a literal [content, truncate]", "returned StoreInfo list is not a two-element literal: %s" % term_str(payload)[:200])
            continue
        kinds = []
        for e in elems:
            e = strip(e)
            kinds.append(e[2] if e[0] == "call" else term_str(e))
        good = kinds == [SI_CONTENT, SI_TRUNC]
        ctx.check(P, rule, "insert_header: header content then truncate", good, "returns [new_content(Oplog, slot), new_truncate(Oplog, ..)] in that order",
                  "insert_header returns %s (expected header content write first, truncate second)" % kinds)
        if good:
            c0 = strip(elems[0])
            st = c0[3][0]
            ctx.check(P, rule, "insert_header: writes go to the oplog store", st[0] == "agg" and st[2] == "Oplog" and strip(elems[1])[3][0][2] == "Oplog",
                      "both infos target Store::Oplog", "header infos do not target Store::Oplog: %s" % term_str(st))
    # Oplog::flush clear_traces branch: content, content, truncate
    ff = ctx.fn(OPLOG_FLUSH)
    if not need(ctx, P, rule, OPLOG_FLUSH, ff):
        return
    ih = sites(ff, INSERT_HEADER)
    sw = [x for x in switch_edges_on(ff, lambda o: strip(o) == ("param", "clear_traces"))]
    if not need(ctx, P, rule, "Oplog::flush: switch on clear_traces", sw):
        return
    sb, _, tg, other = sw[0]
    true_side = other if 0 in tg else tg.get(1)
    false_side = tg.get(0)
    # sites executed on the way through each side: behind that side's edge, or before the test
    # (a first header write shared by both sides may be hoisted above the `if`)
    shared = [s for s in ih if ff.dominates(s, sb)]
    in_true = shared + [s for s in ih if fa_dom(ff, true_side, s)]
    in_false = shared + [s for s in ih if fa_dom(ff, false_side, s)]
    ctx.check(P, rule, "Oplog::flush: two header writes when clearing traces", len(in_true) == 2 and len(in_false) == 1,
              "clear_traces branch has two insert_header sites, the normal branch one",
              "insert_header sites: clear_traces branch %d (expected 2), normal branch %d (expected 1)" % (len(in_true), len(in_false)),
              [site_desc(ff, s) for s in ih])
    if len(in_true) == 2:
        a, b = sorted(in_true, key=lambda s: (0 if ff.dominates(s, in_true[0]) and s != in_true[0] else 1, s))
        if not ff.dominates(a, b):
            a, b = b, a
        # second call is fed with the first call's header bits
        o = ff.arg_origin(b, 2)
        ctx.check(P, rule, "Oplog::flush: second slot uses first's bits", term_has_call(o, INSERT_HEADER) == a,
                  "second insert_header receives the header bits returned by the first",
                  "second insert_header's header bits do not come from the first call: %s" % term_str(o)[:160], [site_desc(ff, b)])
        # the three storage operations of a trace-clearing flush, in the order they are handed to
        # flush_infos: evaluated from how the list is assembled (whole results, drain(i..j), extend)
        def piece(t_):
            t_ = strip(t_)
            if t_[0] == "call" and t_[2].split("::")[-1] == "collect" and t_[3]:
                return piece(t_[3][0])
            if t_[0] == "call" and t_[2].split("::")[-1] == "drain" and len(t_[3]) == 2:
                src = term_has_call(t_[3][0], INSERT_HEADER)
                rng = strip(t_[3][1])
                if src is not None and is_agg(rng) and rng[1].endswith("Range"):
                    d_ = dict(rng[3])
                    lo, hi = ev(ctx, d_.get("start")), ev(ctx, d_.get("end"))
                    if lo is not None and hi is not None:
                        return [(("content", "truncate")[k], src) for k in range(lo, min(hi, 2))]
                return None
            src = term_has_call(t_, INSERT_HEADER)
            if src is not None:
                return [("content", src), ("truncate", src)]
            return None
        exts = sorted([s_ for s_ in sites(ff, "std::iter::Extend::extend") if fa_dom(ff, true_side, s_)], key=lambda s_: len(ff.dom[s_]))
        seq_ = None
        if exts:
            seq_ = piece(ff.arg_origin(exts[0], 0))
            for s_ in exts:
                nxt = piece(ff.arg_origin(s_, 1))
                seq_ = None if (seq_ is None or nxt is None) else seq_ + nxt
        kinds = [k for k, _ in seq_] if seq_ else None
        ctx.check(P, rule, "Oplog::flush: a trace-clearing flush issues header write, truncate, header write", seq_ is not None and kinds == ["content", "truncate", "content"] and [x for _, x in seq_][0] == a and [x for _, x in seq_][2] == b,
                  "[content(first slot), truncate, content(second slot)]: the log is truncated between the two header writes",
                  "a trace-clearing flush hands %s to flush_infos: every header write flips the current header bit, so after BOTH header writes the entries still in the log carry the current bit again — a crash before the final truncate makes reopen replay entries the header already contains (open fails / data lost); the truncate has to lie between the two header writes" % (kinds,),
                  [site_desc(ff, s_) for s_ in exts], key="C02|C02.R5|Oplog::flush|truncate between the two header writes")
        # the header bits remembered afterwards are those returned by the LAST header write of each branch
        ws = assign_sites(ff, "self.header_bits")
        okbits = False
        if ws:
            v = ff.origin_rvalue(ff.blocks[ws[0][0]].stmts[ws[0][1]]["rv"], ws[0][0], ws[0][1])
            srcs = sorted(call_root_bb(r[1]) == [b] or (in_false and call_root_bb(r[1]) == [in_false[0]]) for r in roots(v) if r[0] == "field" and r[2] == "0")
            prod = sorted(x for r in roots(v) for x in call_root_bb(r[1]) if r[0] == "field" and r[2] == "0")
            okbits = prod == sorted([b] + in_false[:1]) and len(roots(v)) == 2
        ctx.check(P, rule, "Oplog::flush: remembered header bits are those of the last header written", okbits,
                  "self.header_bits = bits returned by the second insert_header (clearing traces) / by the only one (normal flush)",
                  "after a trace-clearing flush self.header_bits does not come from the second insert_header call: memory and disk disagree on the current header bit, so entries written next carry a stale bit and are discarded on reopen",
                  [loc(ff, ws[0][0], ws[0][1])] if ws else [], key="C02|C02.R5|Oplog::flush|header bits after clearing traces")


def fa_dom(fa, a, b):
    return a is not None and fa.dominates(a, b)


def r6(ctx):
    rule = "C02.R6"
    fa = ctx.real_body(FLUSH_INFOS, [RA_WRITE])
    if not need(ctx, P, rule, FLUSH_INFOS, fa):
        return
    muts = sites_any(fa, RA_MUT)
    if not need(ctx, P, rule, "flush_infos: RandomAccess write/del/truncate", muts):
        return
    ctx.check(P, rule, "flush_infos: three mutation kinds", len(muts) == 3 and sorted(fa.blocks[s].term["callee"] for s in muts) == sorted(RA_MUT),
              "one site each of write, del, truncate", "mutation sites: %s" % [callee_of(fa.blocks[s].term) for s in muts], [site_desc(fa, s) for s in muts])
    # the loop over infos
    nexts = [s for s in sites(fa, "std::iter::Iterator::next")]
    loops = fa.loops()
    it_loop = None
    for h, body, _ in loops:
        ns = [s for s in nexts if s in body]
        if ns and all(m in body for m in muts):
            if it_loop is None or len(body) > len(it_loop[1]):
                it_loop = (h, body, ns[0])
    if it_loop is None:
        ctx.fail(P, rule, "flush_infos: mutations inside the iteration loop", "storage mutations are not all inside one loop driven by an iterator", [site_desc(fa, s) for s in muts])
        return
    h, body, nx = it_loop
    o = fa.arg_origin(nx, 0)
    ctx.check(P, rule, "flush_infos: iterates infos in given order", strip(o) == ("param", "infos"),
              "loop iterator is infos.iter() directly", "loop iterator is not the plain `infos` slice iterator: %s (reordering / filtering adapter?)" % term_str(o), [site_desc(fa, nx)])
    for m in muts:
        c = checked(fa, m)
        ctx.check(P, rule, "flush_infos: %s checked" % callee_of(fa.blocks[m].term).split("::")[-1], c is not None and (c["branch"] in body if c["branch"] is not None else c["ok"] in body or True),
                  "awaited and ?-checked inside the loop", "mutation at %s is not ?-checked inside the loop: a failed operation does not stop the sequence" % loc(fa, m), [site_desc(fa, m)])
    # at most one mutation per element: no path from one mutation to another without passing next()
    for a in muts:
        for b in muts:
            r = fa.reach(a, avoiding=[nx])
            if b in r:
                ctx.fail(P, rule, "flush_infos: one mutation per info", "a second storage mutation (%s) is reachable from %s within one iteration" % (loc(fa, b), loc(fa, a)), [site_desc(fa, a), site_desc(fa, b)])
                break
        else:
            continue
        break
    else:
        ctx.ok(P, rule, "flush_infos: one mutation per info", "each iteration performs at most one of write/del/truncate")


def r7(ctx):
    rule = "C02.R7"
    fa = ctx.fn(OPLOG_OPEN)
    if not need(ctx, P, rule, OPLOG_OPEN, fa):
        return
    vl = sites(fa, VALIDATE_LEADER)
    loops = fa.loops()
    in_loop = [s for s in vl if any(s in body for _, body, _ in loops)]
    if not need(ctx, P, rule, "Oplog::open: validate_leader inside the entry loop", in_loop):
        return
    s = in_loop[0]
    loop = max((l for l in loops if s in l[1]), key=lambda l: len(l[1]))
    body = loop[1]
    hits = []
    for bi, o, tg, other in switch_edges_on(fa, lambda o: contains(o, lambda x: isinstance(x, tuple) and len(x) == 3 and x[0] == "field" and x[2] == "header_bit" and term_has_call(x, VALIDATE_LEADER) == s)):
        if bi not in body:
            continue
        exits = [t for t in list(tg.values()) + [other] if t not in body or not fa.can_reach(t, s)]
        hits.append((bi, o, exits))
    good = [h for h in hits if h[2]]
    ctx.check(P, rule, "Oplog::open: entry header bit compared, mismatch ends replay", bool(good),
              "the entry's header bit decides a loop exit (%s)" % (term_str(good[0][1])[:120] if good else ""),
              "entries are replayed regardless of their header bit: `header_bit` of the entry leader validated at %s never reaches a branch that leaves the entry loop (stale entries of the previous header generation are applied to the new header)" % loc(fa, s),
              [site_desc(fa, s)], key="C02|C02.R7|Oplog::open|entry header_bit never compared")
    if good:
        o = good[0][1]
        ps = term_paths(o)
        ctx.check(P, rule, "Oplog::open: compared against the chosen header's bits", 
                  (term_has_call(o, CUR_HDR_BIT) is not None or sum(1 for x in subterms(o) if isinstance(x, tuple) and x and x[0] == "field" and x[2] in ("header_bit", "header_bits")) >= 2),
                  "comparison involves the header slots' bits", "entry header bit is compared with something that is not derived from the header slots' bits: %s" % term_str(o)[:200])


def r8(ctx):
    rule = "C02.R8"
    ae = ctx.fn(APPEND_ENTRIES)
    fa = ctx.fn(OPLOG_OPEN)
    if not (need(ctx, P, rule, APPEND_ENTRIES, ae) and need(ctx, P, rule, OPLOG_OPEN, fa)):
        return
    # the field the next write offset is computed from
    fields = set()
    for s in sites(ae, SI_CONTENT):
        o = ae.arg_origin(s, 1)
        for p in term_paths(o):
            if p.startswith("self."):
                fields.add(p.split(".", 1)[1])
    if not need(ctx, P, rule, "append_entries: offset field of self", sorted(fields)):
        return
    vl = sites(fa, VALIDATE_LEADER)
    loops = fa.loops()
    in_loop = [s for s in vl if any(s in body for _, body, _ in loops)]
    if not need(ctx, P, rule, "Oplog::open: entry loop", in_loop):
        return
    for f in sorted(fields):
        # every value the field can take in the returned Oplog on the path through the entry loop
        writes = []
        for b in fa.live():
            for si, st in enumerate(b.stmts):
                if st["k"] != "assign" or not st["place"]["p"]:
                    continue
                last = st["place"]["p"][-1]
                if isinstance(last, dict) and last.get("n") == f:
                    writes.append((b.i, si, fa.origin_rvalue(st["rv"], b.i, si)))
        aggs = []
        for b in fa.live():
            for si, st in enumerate(b.stmts):
                if st["k"] == "assign" and st["rv"]["k"] == "agg" and st["rv"].get("name") == OPLOG and f in st["rv"]["fields"]:
                    o = fa.origin_operand(st["rv"]["ops"][st["rv"]["fields"].index(f)], b.i, si)
                    aggs.append((b.i, si, o))
        after_loop = [w for w in writes if any(fa.can_reach(s, w[0]) for s in in_loop)]
        nonconst = [w for w in after_loop if not term_is_lit(w[2])]
        ctx.check(P, rule, "Oplog::open: %s reflects the entries found" % f, bool(nonconst),
                  "%s is set from the bytes consumed by the entry loop (%s)" % (f, term_str(nonconst[0][2])[:100] if nonconst else ""),
                  "Oplog::open leaves `%s` at the literal it was constructed with (%s) although entries were decoded: append_entries computes the next write offset from it, so the first entry appended after a reopen overwrites unflushed entries" % (
                      f, ", ".join(sorted(set(term_str(a[2]) for a in aggs)))),
                  [loc(fa, a[0], a[1]) for a in aggs], key="C02|C02.R8|Oplog::open|%s not restored" % f)


def r8b(ctx):
    rule = "C02.R8"
    fo = ctx.fn(OPLOG_OPEN)
    if not need(ctx, P, rule, OPLOG_OPEN, fo):
        return
    dec = [s for s, t in fo.calls() if (t.get("resolved") or "").endswith("Entry as compact_encoding::CompactEncoding>::decode")]
    if not need(ctx, P, rule, "Oplog::open: Entry::decode in the entry loop", dec):
        return
    dcallee = callee_of(fo.blocks[dec[0]].term)
    vals = []
    for b in fo.live():
        for si, st in enumerate(b.stmts):
            if st["k"] == "assign" and st["place"]["p"] and isinstance(st["place"]["p"][-1], dict) and st["place"]["p"][-1].get("n") == "entries_byte_length":
                v = fo.origin_rvalue(st["rv"], b.i, si)
                if not term_is_lit(v):
                    vals.append((b.i, si, v))
    if not need(ctx, P, rule, "Oplog::open: non-literal assignment of entries_byte_length", vals):
        return
    for bb, si, v in vals:
        srcs = []
        if term_has_call(v, dcallee) == dec[0]:
            srcs.append(("direct", v))
        else:
            # through a collection: every value pushed into the object that is read back
            objs = [x for x in subterms(v) if isinstance(x, tuple) and len(x) == 4 and x[0] == "call" and x[2].endswith("::new") and not x[3]]
            # values are taken within one iteration: loop back edges are cut, so a remainder
            # carried over from the previous iteration does not count
            av = fo.acyclic_view()
            for s, t in fo.calls():
                if (t.get("callee") or "").endswith("::push") and strip(fo.arg_origin(s, 0)) in objs:
                    srcs.append((loc(fo, s), av.arg_origin(s, 1)))
        good = bool(srcs) and all(term_has_call(x, dcallee) == dec[0] for _, x in srcs)
        ctx.check(P, rule, "Oplog::open: the restored log length counts each accepted entry up to the end of its payload", good,
                  "every contribution to entries_byte_length is computed from the remainder returned by that entry's decode",
                  "entries_byte_length restored at %s is built from %s, which does not depend on the remainder after decoding the entry it is recorded for: the last accepted entry's bytes are not counted, so the next entry is written over it" % (
                      loc(fo, bb, si), [(w, term_str(x)[:90]) for w, x in srcs] or term_str(v)[:120]), [loc(fo, bb, si)], key="C02|C02.R8|Oplog::open|entries_byte_length excludes the last payload")


def r9(ctx, prop=P, rule="C02.R9"):
    """writer/reader table of storage operations: what each StoreInfo constructor builds is what
    Storage::flush_infos dispatches on — content -> write, delete -> del, truncate -> truncate —
    and the infos that only reads produce are never built by code that feeds flush"""
    from .c09 import dominating_conditions
    fa = ctx.real_body(FLUSH_INFOS, [RA_WRITE])
    if not need(ctx, prop, rule, FLUSH_INFOS, fa):
        return
    adt = ctx.crate.adts.get("common::store::StoreInfoType")
    if not need(ctx, prop, rule, "enum StoreInfoType", adt):
        return
    tyidx = {v["name"]: i for i, v in enumerate(adt["variants"])}
    guards = {}
    for s in sites_any(fa, RA_MUT):
        op = fa.blocks[s].term["callee"].split("::")[-1]
        g = {}
        for o, truth, _ in dominating_conditions(fa, s):
            sg = term_sig(o)
            if sg.endswith(".info_type)") and sg.startswith("disc("):
                g["info_type"] = truth
            elif sg.endswith(".miss"):
                g["miss"] = bool(truth)
            elif sg.endswith(".data)") and sg.startswith("disc("):
                g["data"] = truth
        guards[op] = (g, s)
    want = {SI_CONTENT: "write", SI_DELETE: "del", SI_TRUNC: "truncate"}
    for ctor, op in want.items():
        fc = ctx.fn(ctor)
        if not need(ctx, prop, rule, ctor, fc):
            continue
        rets = [t for _, _, t in ret_assigns(fc) if is_agg(t) and t[1].endswith("StoreInfo")]
        if not need(ctx, prop, rule, "%s: StoreInfo { .. }" % ctor.split("::")[-1], rets):
            continue
        d = dict(rets[0][3])
        built = {"info_type": tyidx.get(d["info_type"][2]) if is_agg(d["info_type"]) else None, "miss": bool(ev(ctx, d["miss"])), "data": 1 if is_agg(d["data"], "Some") else 0}
        def sat(g):
            return all(built.get(k) == v for k, v in g.items())
        hit = [o for o, (g, _) in guards.items() if sat(g)]
        ctx.check(prop, rule, "%s is dispatched to %s and to nothing else" % (ctor.split("::")[-1], op), hit == [op],
                  "constructor fields %s satisfy exactly the guard of %s %s" % (built, op, guards.get(op, ({},))[0]),
                  "StoreInfo::%s builds %s, which Storage::flush_infos dispatches to %s (expected %s): the storage operation issued is not the one the caller asked for" % (ctor.split("::")[-1], built, hit, op),
                  key="%s|%s|%s|dispatch" % (prop, rule, ctor))
        # operands
        if op in guards:
            s = guards[op][1]
            a = [term_sig(fa.arg_origin(s, i)) for i in range(1, len(fa.blocks[s].term["args"]))]
            okargs = a[0].endswith(".index") and (op == "truncate" or (op == "write" and a[1].endswith(".data)")) or (op == "del" and ".length" in a[1]))
            ctx.check(prop, rule, "%s operates on the info's own index%s" % (op, {"write": " and data", "del": " and length", "truncate": ""}[op]), okargs, "arguments %s" % a, "%s is called with %s" % (op, a), [site_desc(fa, s)])
        # index / length / data of the info are the constructor's arguments
        okf = strip(d["index"]) == ("param", "index") and (ctor != SI_CONTENT or (strip(d["data"][3][0][1]) == ("param", "data") if is_agg(d["data"], "Some") else False)) and (ctor != SI_DELETE or (is_agg(d["length"], "Some") and strip(d["length"][3][0][1]) == ("param", "length")))
        ctx.check(prop, rule, "%s stores its arguments" % ctor.split("::")[-1], okf, "index / data / length taken from the parameters", "%s builds %s" % (ctor, term_str(rets[0])[:160]))
    # read-only infos are produced only by the read path
    bad = []
    for fa2 in ctx.all_fas():
        for s in sites_any(fa2, (SI_MISS, SI_SIZE)):
            owner = fn_of(fa2.body.name)
            # a sibling constructor may use one as the base of a struct-update expression: what it builds
            # is checked field by field against the dispatch table above
            if owner != READ_INFOS_VEC and not (owner in (SI_CONTENT, SI_DELETE, SI_TRUNC) and owner.rsplit("::", 1)[0] == SI_MISS.rsplit("::", 1)[0]):
                bad.append(site_desc(fa2, s) + " in " + fa2.body.name)
    ctx.check(prop, rule, "read-result infos (miss / size) are built only by the read path", not bad, "new_content_miss / new_size only in read_infos_to_vec", "read-result infos built elsewhere: %s" % bad, bad)


def r8c(ctx, prop=P, rule="C02.R8"):
    """the log length restored by Oplog::open is taken from the list of accepted entries after that
    list is final: no element is removed from the collection it is read from after the read"""
    fo = ctx.fn(OPLOG_OPEN)
    if not need(ctx, prop, rule, OPLOG_OPEN, fo):
        return
    for fld in ("entries_byte_length", "entries_length"):
        for b in fo.live():
            for si, st in enumerate(b.stmts):
                if st["k"] == "assign" and st["place"]["p"] and isinstance(st["place"]["p"][-1], dict) and st["place"]["p"][-1].get("n") == fld:
                    v = fo.origin_rvalue(st["rv"], b.i, si)
                    if term_is_lit(v):
                        continue
                    objs = [x for x in subterms(v) if isinstance(x, tuple) and len(x) == 4 and x[0] == "call" and x[2].endswith("::new") and not x[3]]
                    reads = [x[1] for x in subterms(v) if isinstance(x, tuple) and len(x) == 4 and x[0] == "call" and x[3] and strip(x[3][0]) in objs]
                    if objs and not reads:
                        reads = [b.i]  # e.g. `entries.len()`: read where the value is assigned
                    late = []
                    for s, t_ in fo.calls():
                        if (t_.get("callee") or "").split("::")[-1] in ("pop", "truncate", "remove", "clear", "drain", "push") and t_["args"] and strip(fo.arg_origin(s, 0)) in objs:
                            if any(fo.can_reach(r, s) for r in reads):
                                late.append(s)
                    ctx.check(prop, rule, "Oplog::open: %s is read after the accepted entries are final" % fld, bool(reads) and not late,
                              "no push/pop on the source collection is reachable after it is read",
                              "%s is computed at %s from a collection that is still modified afterwards (%s): entries discarded after the read (trailing partial entries) are still counted, so the next entry is written behind them and completes the unfinished batch" % (
                                  fld, loc(fo, b.i, si), [site_desc(fo, s) for s in late]), [loc(fo, b.i, si)], key="%s|%s|Oplog::open|%s read before trimming" % (prop, rule, fld))


def r10(ctx):
    """replaying the log is idempotent against whatever a crashed flush already wrote: every replayed
    bitfield update is followed by update_contiguous_length unconditionally — in particular not only
    "if the update changed a bit", which is false exactly when the crash fell between the bitfield
    page write and the header write (the hint clauses of C08.R3, for Hypercore::new)"""
    from . import c08
    before = len(ctx.insts)
    c08.r3(ctx)
    keep = []
    for i in ctx.insts[before:]:
        if "|core::Hypercore::new|" in i.key or i.anchor.startswith("new:"):
            i.prop, i.rule = P, "C02.R10"
            i.key = i.key.replace("C08|C08.R3", "C02|C02.R10")
            keep.append(i)
    ctx.insts[before:] = keep
    if not keep:
        ctx.missing(P, "C02.R10", "Hypercore::new: Bitfield::update in the replay loop", "no instance of the hint clause for Hypercore::new")


def r11(ctx):
    """what is replayed after a crash is what was done: the entry an append or a clear logs describes exactly the range the call applied in memory (bitfield update = [ancestors, + batch length), drop entry = [start, end)) — otherwise the recovered state is neither the state before nor after the call (the placement clauses of C01.R4)"""
    from . import c01
    before = len(ctx.insts)
    c01.r4(ctx)
    kept = []
    for i in ctx.insts[before:]:
        if True:
            i.prop, i.rule = P, "C02.R11"
            i.key = i.key.replace("C01|C01.R4", "C02|C02.R11")
            kept.append(i)
    ctx.insts[before:] = kept
    if not kept:
        ctx.missing(P, "C02.R11", "shared clauses of c01.r4", "no instance")


def _join_alts(t):
    t = strip(t) if isinstance(t, tuple) and t and t[0] not in ("join",) else t
    if isinstance(t, tuple) and t and t[0] == "join":
        out = []
        for x in t[1]:
            out.extend(_join_alts(x))
        return out
    return [t]


def cut_behind_accepted(ctx, prop, rule):
    """Oplog::open accepts a prefix of what the log file holds (entries of the current header
    generation, up to the last complete batch) and ignores the rest: entries of the previous
    generation that a crashed flush left behind, an unfinished batch, a torn tail.  The generation
    is one bit, so ignoring is not enough — two header writes later the same bytes carry the current
    bit again, and make_read_only writes a header without writing an entry over them first (defect
    D24: the second interrupted make_read_only made the next open replay entries the header already
    contained).  Clause: whenever the file is longer than the accepted entries, open returns a
    truncate of the log to 8192 + (length of the accepted entries) — on every path from where the
    accepted entries are stored in the outcome to the return, except where the outcome already
    carries infos to flush or the comparison shows that nothing follows."""
    fo = ctx.fn(OPLOG_OPEN)
    if not need(ctx, prop, rule, OPLOG_OPEN, fo):
        return
    def field_assigns(name):
        out = []
        for b in fo.live():
            for si, st in enumerate(b.stmts):
                if st["k"] == "assign" and st["place"]["p"] and isinstance(st["place"]["p"][-1], dict) and st["place"]["p"][-1].get("n") == name:
                    out.append((b.i, si, fo.origin_rvalue(st["rv"], b.i, si)))
        return out
    ent = [(b, si, v) for b, si, v in field_assigns("entries") if is_agg(v, "Some")]
    ebl = [(b, si, v) for b, si, v in field_assigns("entries_byte_length") if not term_is_lit(v)]
    if not (need(ctx, prop, rule, "Oplog::open: outcome.entries = Some(accepted entries)", ent) and need(ctx, prop, rule, "Oplog::open: entries_byte_length = end of the accepted entries", ebl)):
        return
    ebl_alts = [set(term_sig(a) for a in _join_alts(unwrap_ovf(v)) if not term_is_lit(a)) for _, _, v in ebl]
    def is_ebl(t):
        alts = set(term_sig(a) for a in _join_alts(unwrap_ovf(t)))
        return any(e and e <= alts for e in ebl_alts)
    def term_paths_str(a):
        return " ".join(sorted(str(p) for p in term_paths(a))) if isinstance(a, tuple) else ""
    # the truncate that is returned
    cuts = []
    for b, si, v in field_assigns("infos_to_flush"):
        for x in subterms(v):
            if isinstance(x, tuple) and x[0] == "call" and x[2] == SI_TRUNC and len(x[3]) == 2 and is_agg(strip(x[3][0]), "Oplog"):
                a = unwrap_ovf(x[3][1])
                good = isinstance(a, tuple) and a[0] == "bin" and a[1] == "Add" and ((ev(ctx, a[2]) == 8192 and is_ebl(a[3])) or (ev(ctx, a[3]) == 8192 and is_ebl(a[2])))
                cuts.append((b, good, term_str(x[3][1])[:120]))
    good_cuts = [b for b, g, _ in cuts if g]
    ctx.check(prop, rule, "Oplog::open returns a truncate of the log to the end of the accepted entries", bool(good_cuts), "outcome.infos_to_flush = [new_truncate(Store::Oplog, Entries + entries_byte_length)]",
              "Oplog::open %s: what follows the accepted entries in the file (entries of the previous header generation left by a crashed flush, an unfinished batch, a torn tail) stays in the log, and a later header write that is not preceded by an entry write at the start of the log — make_read_only — makes those entries current again: interrupted there, the next open replays entries the header already contains" % (
                  ("truncates the log at %s" % [c for _, _, c in cuts]) if cuts else "returns no truncate of the log"),
              key="%s|%s|Oplog::open|stale entries cut" % (prop, rule))
    if not good_cuts:
        return
    # every path from `outcome.entries = Some(..)` to the return cuts, unless infos are pending already
    # or nothing follows the accepted entries
    banned_edges = set()
    for bb, o, tr, fl in bool_switches(fo, lambda o: True):
        if o[0] == "call" and o[2].split("::")[-1] == "is_empty" and o[3] and "infos_to_flush" in term_sig(o[3][0]):
            banned_edges.add((bb, fl))
        if o[0] == "bin" and o[1] == "Lt" and is_ebl(o[2]) and any(isinstance(y, tuple) and y[0] == "len" or (isinstance(y, tuple) and y[0] == "call" and y[2].split("::")[-1] == "len") for y in subterms(o[3])):
            banned_edges.add((bb, fl))      # not (accepted < file): nothing follows
        if o[0] == "bin" and o[1] == "Eq" and ((is_ebl(o[2]) and "len" in term_sig(o[3])) or (is_ebl(o[3]) and "len" in term_sig(o[2]))):
            banned_edges.add((bb, tr))
    seen = set()
    st = [b for b, _, _ in ent]
    leak = False
    while st:
        x = st.pop()
        if x in seen:
            continue
        seen.add(x)
        if x in good_cuts:
            continue
        if x in fo.returns:
            leak = True
        for y in fo.succ.get(x, []):
            if (x, y) in banned_edges:
                continue
            st.append(y)
    ctx.check(prop, rule, "Oplog::open cuts whenever bytes follow the accepted entries", not leak, "every path from `outcome.entries = Some(..)` to the return truncates, has infos pending, or compared the lengths",
              "Oplog::open can return the accepted entries without truncating the log although the file is longer than they are (the truncate at %s is skipped under a further condition): stale entries stay behind the accepted ones" % [loc(fo, b) for b in good_cuts],
              key="%s|%s|Oplog::open|cut on every path" % (prop, rule))


def r12(ctx):
    cut_behind_accepted(ctx, P, "C02.R12")


def r13(ctx):
    """'every call that had already returned stays applied': what a returned call left only in the
    log is re-applied in full when the core is opened — every field of an entry reaches its consumer,
    and whether a consumer runs depends only on the field it consumes (the replay clauses of C01.R2;
    a block a replica fetched without an upgrade is an entry with tree nodes and no tree upgrade)"""
    from . import c01
    c01.r2(ctx, P, "C02.R13")


RULES = [r1, r2, r3, r4, r5, r6, r7, r8, r8b, r8c, r9, r10, r11, r12, r13]

EXPLANATION = ("C02 (crash recovers to before-or-after): decides the write-ahead ordering premises on the CFG of every mutating entry point — "
               "data write before oplog entry, entry write ?-checked before any in-memory commit, commits before the periodic flush (append R1, proof apply R2), "
               "drop entry before destructive delete (clear R3), bitfield -> tree -> header order of the flush (R4), header content before truncate and the "
               "order [header write, truncate, header write] of a trace-clearing flush — every header write flips the current header bit, so the log is emptied between the two (R5), in-order one-mutation-per-info issue loop of Storage::flush_infos (R6), stale entries gated by "
               "the header bit on open (R7) and the log tail offset restored on open, counting every accepted entry to the end of its payload (R8), and the StoreInfo constructor table agreeing with the dispatch of Storage::flush_infos (R9); replay is idempotent against a partially flushed bitfield (R10); append / clear placement (R11 = C01.R4); Oplog::open returns a truncate of the log to 8192 + the length of the accepted entries on every path on which the file can be longer than they are, so that ignored entries of an earlier header generation cannot become current again two header writes later (R12); replay completeness — every entry field reaches its consumer, unconditionally on the other fields (R13 = C01.R2).")
NOT_DECIDED = ("idempotence of replay over partially flushed bitfield/tree; correctness of the header-bit rotation table; atomicity of backend operations; "
               "which state a given crash point recovers to.")
ASSUMPTIONS = ["each RandomAccess operation is atomic and persisted in issue order (stated by the property)", "MIR built by rustc reflects the source semantics"]

