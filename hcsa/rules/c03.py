"""C03 — honest proofs: no proof for a block that is not held; root-offset
accumulation indexes the roots it searched."""
from ..engine import *
from ..analysis import term_str, strip, roots, subterms, contains, callee_of, term_sig
from .names import *
from . import c09

P = "C03"


def r1(ctx, P=P, rule="C03.R1"):
    fa = ctx.real_body(CREATE_PROOF, [INTO_PROOF])
    if not need(ctx, P, rule, CREATE_PROOF, fa):
        return
    ip = sites(fa, INTO_PROOF)
    gs = sites(fa, GET)
    cv = sites(fa, CVP_CORE)
    if not (need(ctx, P, rule, "create_proof: into_proof", ip) and need(ctx, P, rule, "create_proof: Hypercore::get", gs) and need(ctx, P, rule, "create_proof: create_valueless_proof", cv)):
        return
    # the block that is read is the proof's block
    idx = fa.arg_origin(gs[0], 1)
    ctx.check(P, rule, "the value is read for the proof's own block index", term_has_call(idx, CVP_CORE) == cv[0] and term_sig(strip(idx)).endswith(".index") and ".block" in term_sig(idx), "get(valueless_proof.block.index)",
              "get is called with %s" % term_str(idx)[:100], [site_desc(fa, gs[0])], key=("%s|%s|" % (P, rule)) + "create_proof|index")
    # value.is_none() => Ok(None) without into_proof
    sw = [x for x in option_tests(fa, lambda v_: gs[0] in call_root_bb(v_))]
    if not need(ctx, P, rule, "create_proof: test of the value read", sw):
        return
    b, o, some_e, none_e = sw[0]
    vals = [t for _, _, t in ret_values_in_region(fa, none_e)]
    okn = edge_returns_without(fa, none_e, ip)[0] and vals and all(is_agg(t, "Ok") and is_agg(agg_field(t, "0"), "None") for t in vals)
    ctx.check(P, rule, "a block that cannot be read yields no proof", okn, "value.is_none() => Ok(None), into_proof not reached", "the not-held edge reaches into_proof or returns %s" % [term_str(v)[:40] for v in vals], key=("%s|%s|" % (P, rule)) + "create_proof|no proof without block")
    # into_proof's value: Some(read value) on the block path, None only when the valueless proof has no block —
    # whether the proof is assembled at one site (value = if block { get } else { None }) or at two
    blk = [x for x in switch_edges_on(fa, lambda o: o[0] == "disc" and ".block" in term_sig(o[1]) and term_has_call(o[1], CVP_CORE) == cv[0])]
    some_blk = blk[0][2].get(1, -1) if blk else -1
    none_blk = blk[0][2].get(0, blk[0][3]) if blk else -1
    good = bool(blk) and fa.dominates(some_blk, gs[0])
    saw_get = False
    shown = []
    for s_ in ip:
        v = fa.arg_origin(s_, 1)
        shown.append(term_str(v)[:60])
        rs = roots(v)
        for r in rs:
            if gs[0] in call_root_bb(r):
                saw_get = True
            elif is_agg(r, "None"):
                # no value: either this site is only reached without a block, or (one-site form) the None
                # alternative is the one assigned on the no-block edge
                alts = [db for t_, db in guarded_values(fa, fa.blocks[s_].term["args"][1]) if db is not None and is_agg(strip(t_), "None")]
                good = good and (fa.dominates(none_blk, s_) or (bool(alts) and all(fa.dominates(none_blk, db) for db in alts)))
            else:
                good = False
    good = good and saw_get
    ctx.check(P, rule, "the proof carries the value read for its block, and no value only when it has no block", good, "value = get(block.index) if block.is_some() else None",
              "into_proof receives %s" % shown, [site_desc(fa, s_) for s_ in ip], key=("%s|%s|" % (P, rule)) + "create_proof|value provenance")
    vp = fa.arg_origin(ip[0], 0)
    ctx.check(P, rule, "the proof returned is the one created for this request", call_root_bb(vp) == [cv[0]], "valueless_proof.into_proof(value)", "into_proof receiver is %s" % term_str(vp)[:80])
    a = [fa.arg_origin(cv[0], i) for i in range(1, 5)]
    ctx.check(P, rule, "the request is passed through unchanged", [strip(x) for x in a] == [("param", "block"), ("param", "hash"), ("param", "seek"), ("param", "upgrade")], "create_valueless_proof(block, hash, seek, upgrade)", "arguments are %s" % [term_str(x) for x in a])
    fi = ctx.fn(INTO_PROOF)
    if need(ctx, P, rule, INTO_PROOF, fi):
        agg = [fi.origin_rvalue(st["rv"], b_.i, si) for b_ in fi.live() for si, st in enumerate(b_.stmts) if st["k"] == "assign" and st["rv"]["k"] == "agg" and st["rv"].get("name", "").endswith("peer::Proof")]
        good = False
        if agg:
            d = {k: term_sig(x) for k, x in agg[0][3]}
            good = d.get("fork") == "self.fork" and "self.hash" in d.get("hash", "") and "self.seek" in d.get("seek", "") and "self.upgrade" in d.get("upgrade", "") and "self.block" in d.get("block", "")
        ctx.check(P, rule, "into_proof moves fork / hash / seek / upgrade across unchanged", good, "Proof{fork, block(+value), hash, seek, upgrade}", "Proof is built from %s" % (d if agg else None))


def r2(ctx):
    rule = "C03.R2"
    n, stats = c09.panic_rule(ctx, P, rule, [MT_BYTE_OFFSET_CS], only_fn=MT_BYTE_OFFSET_CS)
    fa = ctx.fn(MT_BYTE_OFFSET_CS)
    if need(ctx, P, rule, MT_BYTE_OFFSET_CS, fa):
        pos = [s for s, t in fa.calls() if (t.get("callee") or "").endswith("Iterator::position")]
        ix = [s for s, t in fa.calls() if t.get("callee") == "std::ops::Index::index" and pos and term_has_call(fa.arg_origin(s, 1), fa.blocks[pos[0]].term["callee"]) == pos[0]]
        tk = []
        if pos and not ix:
            # the same sum without indexing: `roots.iter().take(r)` — the collection iterated is the "indexed" one
            tk = [s for s, t in fa.calls() if (t.get("callee") or "").endswith("Iterator::take") and term_has_call(fa.arg_origin(s, 1), fa.blocks[pos[0]].term["callee"]) == pos[0]]
        if need(ctx, P, rule, "byte_offset_in_changeset: position(..) and the indexing bounded by it", pos and (ix or tk)):
            def coll(t):
                t = strip(t)
                while isinstance(t, tuple) and t[0] == "call" and t[2].split("::")[-1] in ("iter", "into_iter", "deref", "as_slice", "borrow") and t[3]:
                    t = strip(t[3][0])
                return term_sig(t)
            searched = coll(fa.arg_origin(pos[0], 0))
            indexed = coll(fa.arg_origin(ix[0], 0)) if ix else coll(fa.arg_origin(tk[0], 0))
            if not ix:
                ix = tk
            ctx.check(P, rule, "the roots summed are the roots that were searched", searched == indexed, "position in %s, indexing %s" % (searched, indexed),
                      "byte_offset_in_changeset finds the root position in `%s` but sums lengths of `%s[i]` for i below it: the offset of a received block is computed from the replica's old roots (out of bounds on an empty replica, a wrong data offset otherwise)" % (searched, indexed),
                      [site_desc(fa, ix[0])], key="C03|C03.R2|byte_offset_in_changeset|roots provenance")


def r2b(ctx, P=P, rule="C03.R2"):
    """placement of a received block: the short-cut 'the block goes at the current end of the data'
    is taken exactly for the block whose index equals the current length"""
    fa = ctx.fn(MT_BYTE_OFFSET_CS)
    if not need(ctx, P, rule, MT_BYTE_OFFSET_CS, fa):
        return
    early = [bb for bb, _, t in ok_returns(fa) if is_agg(agg_field(t, "0"), "Right") and path_of(strip(agg_field(agg_field(t, "0"), "0"))) == "self.byte_length"]
    if need(ctx, P, rule, "byte_offset_in_changeset: return of self.byte_length", early):
        ops = c09.cmp_facts(ctx, fa, early[0], lambda a: a == "self.length", lambda b: b == "hypercore_index")
        ctx.check(P, rule, "a received block is placed at the end of the data only when its index is the current length", ops == ["Eq"], "self.length == hypercore_index => self.byte_length",
                  "byte_offset_in_changeset returns the current byte length whenever self.length %s hypercore_index: a block beyond the current length is written at the wrong data offset (held, but unreadable or wrong bytes)" % ops,
                  [loc(fa, early[0])], key="%s|%s|byte_offset_in_changeset|append position short-cut" % (P, rule))


def r3(ctx):
    """sibling agreement: upgrade_proof and additional_upgrade_proof walk the full roots with the
    same skeleton; the only difference is the inclusion of the block / seek sub-proof"""
    rule = "C03.R3"
    from collections import Counter
    fu, fa = ctx.fn(MT + "::upgrade_proof"), ctx.fn(MT + "::additional_upgrade_proof")
    if not (need(ctx, P, rule, MT + "::upgrade_proof", fu) and need(ctx, P, rule, MT + "::additional_upgrade_proof", fa)):
        return
    def skeleton(f):
        conds = set()
        for b, o, tr, fl in bool_switches(f, lambda o: True):
            s = term_sig(unwrap_ovf(o))
            if s.startswith("join("):
                continue
            conds.add(s)
        calls = Counter(callee_of(t).split("::")[-1] for _, t in f.calls() if "flat_tree::Iterator" in (t.get("callee") or ""))
        req = Counter(1 for s in sites(f, MT_REQUIRED_NODE))
        return conds, calls, len(sites(f, MT_REQUIRED_NODE))
    cu, ku, ru = skeleton(fu)
    ca, ka, ra = skeleton(fa)
    extra = {c for c in cu - ca}
    allowed_extra = all(("sub_tree" in c) or c.startswith(("is_none(", "is_some(")) for c in extra)
    ctx.check(P, rule, "both proofs skip, connect and add roots under the same conditions", ca <= cu and allowed_extra, "conditions of additional_upgrade_proof are a subset; upgrade_proof only adds the sub-proof tests %s" % sorted(extra),
              "branch conditions differ between the siblings: only in additional %s; only in upgrade %s" % (sorted(ca - cu), sorted(extra)), key="C03|C03.R3|upgrade proofs|conditions")
    nav = ("new", "seek", "sibling", "parent", "factor")
    diff = {k: (ku[k], ka[k]) for k in set(ku) | set(ka) if ku[k] != ka[k]}
    ok = all(ku[k] == ka[k] for k in nav) and set(diff) <= {"contains", "index", "next_tree", "full_root"}
    ctx.check(P, rule, "both proofs navigate the tree identically", ok, "same number of seek / sibling / parent / factor steps; differences only in the sub-proof inclusion: %s" % diff,
              "flat-tree navigation differs between upgrade_proof and additional_upgrade_proof: %s" % diff, key="C03|C03.R3|upgrade proofs|navigation")
    ctx.check(P, rule, "both proofs fetch a node at the same three places", ru == ra == 2 or (ru == ra), "required_node sites: %d / %d" % (ru, ra), "required_node sites differ: %d vs %d" % (ru, ra))
    # verify_tree: the seek walk and the block walk are the same walk
    fv = ctx.fn(VERIFY_TREE)
    if need(ctx, P, rule, VERIFY_TREE, fv):
        loops = fv.loops()
        sk = []
        for h, body, _ in loops:
            cs = Counter(callee_of(fv.blocks[b].term).split("::")[-1] for b in body if fv.blocks[b].term["k"] == "call" and callee_of(fv.blocks[b].term).split("::")[-1] in ("shift", "sibling", "parent", "parent_node", "push"))
            if cs.get("shift"):
                sk.append(cs)
        ctx.check(P, rule, "verify_tree climbs the seek path and the block path the same way", len(sk) == 2 and sk[0] == sk[1], "two loops with identical shift / sibling / parent / parent_node / push counts: %s" % (dict(sk[0]) if sk else None),
                  "the two climbing loops of verify_tree differ: %s" % [dict(x) for x in sk], key="C03|C03.R3|verify_tree|loops")


def r4(ctx):
    """writer and reader climb a block path the same way: at every level first the sibling is
    taken (collected by the writer, shifted from the proof by the reader), then both move to the
    parent; the reader recomputes the parent at the index it moved to"""
    rule = "C03.R4"
    fw = ctx.fn(MT + "::block_and_seek_proof")
    fv = ctx.fn(VERIFY_TREE)
    fs = ctx.fn(MT + "::seek_proof")
    if not (need(ctx, P, rule, MT + "::block_and_seek_proof", fw) and need(ctx, P, rule, VERIFY_TREE, fv) and need(ctx, P, rule, MT + "::seek_proof", fs)):
        return
    SIB, PAR = "flat_tree::Iterator::sibling", "flat_tree::Iterator::parent"
    for f, nm in ((fw, "block_and_seek_proof"), (fs, "seek_proof")):
        ok = False
        for h, body, _ in f.loops():
            sib = [s for s in sites(f, SIB) if s in body]
            par = [s for s in sites(f, PAR) if s in body]
            req = [s for s in sites(f, MT_REQUIRED_NODE) if s in body]
            if sib and par and req:
                ok = len(sib) == 1 and len(par) == 1 and f.dominates(sib[0], par[0]) and all(f.dominates(sib[0], r) and f.can_reach(r, par[0]) for r in req)
        ctx.check(P, rule, "%s: sibling collected, then move to the parent, once per level" % nm, ok, "loop: iter.sibling(); required_node(iter.index()); iter.parent()",
                  "%s does not collect the sibling before moving to the parent exactly once per level" % nm, key="C03|C03.R4|%s|climb" % nm)
    n = 0
    for h, body, _ in fv.loops():
        sh = [s for s in sites(fv, NQ_SHIFT) if s in body]
        pn = [s for s in sites(fv, PARENT_NODE) if s in body]
        if not (sh and pn):
            continue
        n += 1
        a = fv.arg_origin(sh[0], 1)
        i = fv.arg_origin(pn[0], 0)
        good = strip(a)[0] == "call" and strip(a)[2] == SIB and strip(i)[0] == "call" and strip(i)[2] == PAR and fv.dominates(sh[0], pn[0])
        ctx.check(P, rule, "verify_tree: shift(iter.sibling()) then parent_node(iter.parent(), ..) per level (loop %d)" % n, good, "reader takes the sibling the writer collected and recomputes the parent at iter.parent()",
                  "verify_tree loop shifts %s and recomputes the parent at %s" % (term_str(a)[:50], term_str(i)[:50]), key="C03|C03.R4|verify_tree|climb %d" % n)
    if n != 2:
        ctx.missing(P, rule, "verify_tree: two climbing loops", "found %d" % n)


def r5(ctx):
    """writer and reader connect an upgrade to the existing tree from the same place.  The writer
    (upgrade_proof / additional_upgrade_proof) climbs from the last leaf the requester already has
    (`from - 2`) and collects the right-hand siblings; that leaf lies under the requester's LAST root,
    so the reader (verify_upgrade) must start its climb — and, after the loop, the walk over the
    additional nodes — at the last root of the changeset.  Starting at any other root consumes the
    proof's nodes at the wrong positions: honest upgrades of trees with more than one root are refused."""
    rule = "C03.R5"
    SEEK = "flat_tree::Iterator::seek"
    fv = ctx.fn(VERIFY_UPGRADE)
    if need(ctx, P, rule, VERIFY_UPGRADE, fv):
        sk = sites(fv, SEEK)
        if need(ctx, P, rule, "verify_upgrade: iter.seek sites", sk):
            def last_root(t):
                t = unwrap_ovf(strip(t))
                if not (t[0] == "field" and t[2] == "index"):
                    return False
                e = unwrap_ovf(strip(t[1]))
                if e[0] == "call" and e[2].split("::")[-1] == "last" and e[3] and path_of(strip(e[3][0])) == "changeset.roots":
                    return True
                if e[0] == "call" and e[2].split("::")[-1] == "index" and len(e[3]) == 2 and path_of(strip(e[3][0])) == "changeset.roots":
                    ix = unwrap_ovf(e[3][1])
                    return ix[0] == "bin" and ix[1] == "Sub" and ix[2][0] == "len" and path_of(strip(ix[2][1])) == "changeset.roots" and term_is_lit(ix[3], 1)
                return False
            bad = [s for s in sk if not last_root(fv.arg_origin(s, 1))]
            ctx.check(P, rule, "the reader connects an upgrade starting at the last root it has", len(sk) >= 2 and not bad, "%d seek sites, each to the index of changeset.roots' last element" % len(sk),
                      "verify_upgrade seeks to %s: the climb that merges the existing roots (or the walk over the additional nodes) does not start at the last root, while the writer's proof is built from the last leaf of the requester's tree" % [term_str(fv.arg_origin(s, 1))[:70] for s in bad],
                      [site_desc(fv, s) for s in bad], key="C03|C03.R5|verify_upgrade|climb start")
    if fv is not None:
        # the walk over the additional nodes that are not right-hand siblings of the climb: the writer
        # lists the remaining roots from left to right, each smaller than the one before; from a root
        # just appended the next one therefore lies under its right-hand neighbour of the same size:
        # the reader moves to `sibling()` and descends with `left_child()` until it meets the node.
        # Any other move (next_tree: the first LEAF behind the root; parent; seek) finds the next
        # root only when it is a single block, and refuses honest partial upgrades otherwise.
        NAV = ("sibling", "next_tree", "prev_tree", "parent", "left_child", "right_child", "seek", "next")
        def nav(fx, s_):
            c = callee_of(fx.blocks[s_].term) or ""
            return c.split("::")[-1] if c.startswith("flat_tree::Iterator::") or "flat_tree::iterator::Iterator" in c else None
        lps = fv.loops()
        desc = [s_ for s_, _ in fv.calls() if nav(fv, s_) == "left_child"]
        outer = None
        for s_ in desc:
            ls = sorted([(h_, b_) for h_, b_, _ in lps if s_ in b_], key=lambda hb: len(hb[1]))
            if len(ls) >= 2:
                outer = ls[1]
        if need(ctx, P, rule, "verify_upgrade: the descent over the additional nodes (left_child in a nested loop)", outer):
            h_, body_ = outer
            ap = [s_ for s_ in sites(fv, CS_APPEND_ROOT) if s_ in body_]
            moves = [(s_, nav(fv, s_)) for s_, _ in fv.calls() if s_ in body_ and nav(fv, s_) in NAV]
            other = sorted(set(m for _, m in moves) - {"left_child", "sibling"})
            sib = [s_ for s_, m in moves if m == "sibling"]
            # every way from append_root back round the loop passes a sibling() move
            covered = bool(ap) and bool(sib) and all(not fv.can_reach(a_, h_, avoiding=set(sib)) for a_ in ap)
            ctx.check(P, rule, "after an additional root the reader moves to its right-hand neighbour and descends left", covered and not other,
                      "in the loop over the remaining additional nodes: left_child() to search, append_root, then sibling()",
                      "verify_upgrade walks the remaining additional nodes with %s: the writer lists them left to right in decreasing size, so the next root lies under the sibling of the one just appended; %s reaches it only when it is a single block, and an honest partial upgrade whose later additional roots span several blocks is refused ('Unexpected node')" % (
                          sorted(set(m for _, m in moves)), ("the move(s) %s" % other) if other else "without sibling() after append_root the walk"),
                      [site_desc(fv, s_) for s_, m in moves if m not in ("left_child",)], key="C03|C03.R5|verify_upgrade|walk over additional roots")
    for nm in (MT + "::upgrade_proof", MT + "::additional_upgrade_proof"):
        fw = ctx.fn(nm)
        if not need(ctx, P, rule, nm, fw):
            continue
        sk = sites(fw, SEEK)
        good = bool(sk)
        for s in sk:
            a = unwrap_ovf(strip(fw.arg_origin(s, 1)))
            good = good and a[0] == "bin" and a[1] == "Sub" and strip(a[2]) == ("param", "from") and term_is_lit(a[3], 2)
        ctx.check(P, rule, "%s connects from the requester's last leaf" % nm.split("::")[-1], good, "iter.seek(from - 2)", "%s seeks to %s" % (nm.split("::")[-1], [term_str(fw.arg_origin(s, 1))[:60] for s in sk]),
                  key="C03|C03.R5|%s|climb start" % nm.split("::")[-1])


def r6(ctx):
    """replica reopen: what a replica accepted survives close/reopen only if the accepted proof is
    logged before it is committed in memory and the periodic flush runs after the commit — the
    ordering clauses of C02.R2, required here for verify_and_apply_proof"""
    from . import c02
    c02.order_rule(ctx, P, "C03.R6", VAP, BS_PUT, True)


def r8(ctx):
    """where an upgrade proof lets the block / seek sub-proof stand in for one of its own nodes, the
    sub-proof must climb from the requested block to exactly that node: block_and_seek_proof(..,
    seek_root, root, ..) is called with `root` = the iterator position just tested to contain
    `seek_root` (the two are both u64 tree indices; swapping them compiles and passes the suite,
    because the only tested case has them equal)"""
    rule = "C03.R8"
    BSP = "tree::merkle_tree::MerkleTree::block_and_seek_proof"
    n = 0
    for nm in ("tree::merkle_tree::MerkleTree::upgrade_proof", "tree::merkle_tree::MerkleTree::additional_upgrade_proof"):
        fa = ctx.fn(nm)
        if not need(ctx, P, rule, nm, fa):
            continue
        cont = list(bool_switches(fa, lambda o: o[0] == "call" and o[2].endswith("flat_tree::Iterator::contains")))
        for s in sites(fa, BSP):
            n += 1
            seek_root, root = fa.arg_origin(s, 3), fa.arg_origin(s, 4)
            r_ = strip(root)
            is_pos = r_[0] == "call" and r_[2].endswith("flat_tree::Iterator::index")
            tested = [o for b_, o, tr, fl in cont if tr is not None and fa.dominates(tr, s) and len(o[3]) == 2 and term_sig(strip(o[3][1])) == term_sig(strip(seek_root))
                      and (not is_pos or term_sig(strip(o[3][0])) == term_sig(strip(r_[3][0])))]
            ctx.check(P, rule, "%s: the sub-proof climbs to the iterator position that contains its subtree @%s" % (nm.split("::")[-1], _ord3(fa, s, BSP)), is_pos and bool(tested),
                      "block_and_seek_proof(.., seek_root = X, root = iter.index(), ..) under iter.contains(X)",
                      "%s calls block_and_seek_proof with seek_root = %s and root = %s, but the position tested with contains() on the way is %s: the sibling path of the requested block does not end at the node it replaces in the upgrade, and the replica rejects the honest proof" % (
                          nm.split("::")[-1], term_str(seek_root)[:50], term_str(root)[:50], [term_str(o)[:60] for _, o, tr, _ in cont if tr is not None and fa.dominates(tr, s)]),
                      [site_desc(fa, s)], key="C03|C03.R8|%s|sub-proof root" % nm.split("::")[-1])
    if n < 2 and ctx.crate.name == "hypercore":
        ctx.missing(P, rule, "block_and_seek_proof call sites in the upgrade proofs", "found %d (floor 2)" % n)


def _ord3(fa, n, callee):
    same = [x for x in sites(fa, callee)]
    return "%d/%d" % (same.index(n) + 1, len(same))


def r7(ctx):
    """replica reopen, second half: the entries a replica logged (nodes and a bitfield update, with
    or without an upgrade) are all re-applied when the core is opened — the replay clauses of
    C01.R2, required here because a block fetched without an upgrade produces an entry that has
    tree nodes and no tree upgrade"""
    from . import c01
    c01.r2(ctx, P, "C03.R7")


def r9(ctx):
    """a request with an in-range seek gets the same (verifiable) proof whatever happens to be in
    memory: the seek functions answer only when no read instruction is pending (C14.R7)"""
    from . import c14
    c14.pending_first(ctx, P, "C03.R9")


RULES = [r1, r2, r2b, r3, r4, r5, r6, r7, r8, r9]
EXPLANATION = ("C03 (honest proofs accepted, replicas converge): acceptance and convergence depend on flat-tree arithmetic that no structural rule captures; decided narrowly: create_proof reads the value for "
               "the proof's own block index, returns Ok(None) without building a proof when that block is not held, and passes request and proof parts through unchanged (R1); byte_offset_in_changeset sums "
               "root lengths over the same root list in which it searched the position, and its panic-capable constructs are discharged (R2); sibling agreement: upgrade_proof / additional_upgrade_proof share branch conditions and flat-tree navigation except for the sub-proof inclusion, and verify_tree's two climbing loops are the same walk (R3); writer (block_and_seek_proof, seek_proof) and reader (verify_tree) climb sibling-then-parent once per level, the reader shifting iter.sibling() and recomputing at iter.parent() (R4); writer and reader connect an upgrade to the existing tree from the same place — the writer from the requester's last leaf (from - 2), the reader from the last root of the changeset (R5); an accepted proof is logged before it is committed in memory and flushed after the commit, so that it survives replica reopen (R6, the ordering clauses of C02.R2), and every logged entry — also one with tree nodes but no upgrade, as a block fetched at the current length produces — is re-applied on open (R7, the replay clauses of C01.R2); where an upgrade proof embeds the block / seek sub-proof, block_and_seek_proof is called with root = the iterator position tested to contain its seek_root (R8). R5 also holds the reader's walk over the remaining additional roots to `left_child` (search) and `sibling` (after each appended root), the only moves that find a following root of more than one block.")
NOT_DECIDED = ("that any honest proof verifies; agreement of node counts with missing_nodes; partial upgrades; convergence of lengths and bytes; request orders; replica reopen — the bulk of the property is not decided statically.")
ASSUMPTIONS = ["flat_tree index arithmetic is correct"]
