"""C03 — honest proofs: no proof for a block that is not held; root-offset
accumulation indexes the roots it searched."""
from ..engine import *
from ..analysis import term_str, strip, roots, subterms, contains, callee_of, term_sig
from .names import *
from . import c09

P = "C03"


def r1(ctx):
    rule = "C03.R1"
    fa = ctx.real_body(CREATE_PROOF, [INTO_PROOF])
    if not need(ctx, P, rule, CREATE_PROOF, fa):
        return
    ip = sites(fa, INTO_PROOF)
    gs = sites(fa, GET)
    cv = sites(fa, CVP_CORE)
    if not (need(ctx, P, rule, "create_proof: into_proof", ip) and need(ctx, P, rule, "create_proof: Hypercore::get", gs) and need(ctx, P, rule, "create_proof: create_valueless_proof", cv)):
        return
    # the block that is read is the proof's block
    idx = fa.arg_origin(gs[0], 1)
    ctx.check(P, rule, "the value is read for the proof's own block index", term_has_call(idx, CVP_CORE) == cv[0] and term_sig(strip(idx)).endswith(".index") and ".block" in term_sig(idx), "get(valueless_proof.block.index)",
              "get is called with %s" % term_str(idx)[:100], [site_desc(fa, gs[0])], key="C03|C03.R1|create_proof|index")
    # value.is_none() => Ok(None) without into_proof
    sw = [x for x in bool_switches(fa, lambda o: o[0] == "call" and o[2].endswith(("::is_none", "::is_some")) and gs[0] in call_root_bb(o[3][0]))]
    if not need(ctx, P, rule, "create_proof: test of the value read", sw):
        return
    b, o, tr, fl = sw[0]
    none_e, some_e = (tr, fl) if o[2].endswith("is_none") else (fl, tr)
    vals = [t for _, _, t in ret_values_in_region(fa, none_e)]
    okn = edge_returns_without(fa, none_e, ip)[0] and vals and all(is_agg(t, "Ok") and is_agg(agg_field(t, "0"), "None") for t in vals)
    ctx.check(P, rule, "a block that cannot be read yields no proof", okn, "value.is_none() => Ok(None), into_proof not reached", "the not-held edge reaches into_proof or returns %s" % [term_str(v)[:40] for v in vals], key="C03|C03.R1|create_proof|no proof without block")
    # into_proof's value: Some(read value) on the block path, None only when the valueless proof has no block
    v = fa.arg_origin(ip[0], 1)
    rs = roots(v)
    from_get = [r for r in rs if gs[0] in call_root_bb(r)]
    nones = [r for r in rs if is_agg(r, "None")]
    blk = [x for x in switch_edges_on(fa, lambda o: o[0] == "disc" and ".block" in term_sig(o[1]) and term_has_call(o[1], CVP_CORE) == cv[0])]
    good = len(rs) == 2 and from_get and nones and bool(blk) and fa.dominates(blk[0][2].get(1, -1), gs[0])
    ctx.check(P, rule, "the proof carries the value read for its block, and no value only when it has no block", good, "value = get(block.index) if block.is_some() else None",
              "into_proof receives %s" % term_str(v)[:120], [site_desc(fa, ip[0])], key="C03|C03.R1|create_proof|value provenance")
    vp = fa.arg_origin(ip[0], 0)
    ctx.check(P, rule, "the proof returned is the one created for this request", call_root_bb(vp) == [cv[0]], "valueless_proof.into_proof(value)", "into_proof receiver is %s" % term_str(vp)[:80])
    a = [fa.arg_origin(cv[0], i) for i in range(1, 5)]
    ctx.check(P, rule, "the request is passed through unchanged", [strip(x) for x in a] == [("param", "block"), ("param", "hash"), ("param", "seek"), ("param", "upgrade")], "create_valueless_proof(block, hash, seek, upgrade)", "arguments are %s" % [term_str(x) for x in a])
    fi = ctx.fn(INTO_PROOF)
    if need(ctx, P, rule, INTO_PROOF, fi):
        agg = [fi.origin_rvalue(st["rv"], b_.i, si) for b_ in fi.live() for si, st in enumerate(b_.stmts) if st["k"] == "assign" and st["rv"]["k"] == "agg" and st["rv"].get("name", "").endswith("peer::Proof")]
        good = False
        if agg:
            d = {k: term_sig(x) for k, x in agg[0][3]}
            good = d.get("fork") == "self.fork" and "self.hash" in d.get("hash", "") and "self.seek" in d.get("seek", "") and "self.upgrade" in d.get("upgrade", "") and "self.block" in d.get("block", "")
        ctx.check(P, rule, "into_proof moves fork / hash / seek / upgrade across unchanged", good, "Proof{fork, block(+value), hash, seek, upgrade}", "Proof is built from %s" % (d if agg else None))


def r2(ctx):
    rule = "C03.R2"
    n, stats = c09.panic_rule(ctx, P, rule, [MT_BYTE_OFFSET_CS], only_fn=MT_BYTE_OFFSET_CS)
    fa = ctx.fn(MT_BYTE_OFFSET_CS)
    if need(ctx, P, rule, MT_BYTE_OFFSET_CS, fa):
        pos = [s for s, t in fa.calls() if (t.get("callee") or "").endswith("Iterator::position")]
        ix = [s for s, t in fa.calls() if t.get("callee") == "std::ops::Index::index" and pos and term_has_call(fa.arg_origin(s, 1), fa.blocks[pos[0]].term["callee"]) == pos[0]]
        if need(ctx, P, rule, "byte_offset_in_changeset: position(..) and the indexing bounded by it", pos and ix):
            searched = term_sig(strip(fa.arg_origin(pos[0], 0)))
            indexed = term_sig(strip(fa.arg_origin(ix[0], 0)))
            ctx.check(P, rule, "the roots summed are the roots that were searched", searched == indexed, "position in %s, indexing %s" % (searched, indexed),
                      "byte_offset_in_changeset finds the root position in `%s` but sums lengths of `%s[i]` for i below it: the offset of a received block is computed from the replica's old roots (out of bounds on an empty replica, a wrong data offset otherwise)" % (searched, indexed),
                      [site_desc(fa, ix[0])], key="C03|C03.R2|byte_offset_in_changeset|roots provenance")


RULES = [r1, r2]
EXPLANATION = ("C03 (honest proofs accepted, replicas converge): acceptance and convergence depend on flat-tree arithmetic that no structural rule captures; decided narrowly: create_proof reads the value for "
               "the proof's own block index, returns Ok(None) without building a proof when that block is not held, and passes request and proof parts through unchanged (R1); byte_offset_in_changeset sums "
               "root lengths over the same root list in which it searched the position, and its panic-capable constructs are discharged (R2).")
NOT_DECIDED = ("that any honest proof verifies; agreement of node counts with missing_nodes; partial upgrades; convergence of lengths and bytes; request orders; replica reopen — the bulk of the property is not decided statically.")
ASSUMPTIONS = ["flat_tree index arithmetic is correct"]
