"""C04 — the gate chain that keeps unsigned data out of a replica."""
from ..engine import *
from ..analysis import term_str, term_sig, strip, roots, subterms, contains, callee_of
from .names import *

P = "C04"


def effect_sites(fa):
    E = []
    for s in sites_any(fa, (FLUSH_INFO, FLUSH_INFOS, APPEND_CS, BF_UPDATE, BF_SET_RANGE, UCL, MT_COMMIT, EVENTS_SEND, FLUSH_ALL, BS_PUT)):
        E.append((s, callee_of(fa.blocks[s].term).split("::")[-1]))
    for b, si, p in assign_sites_prefix(fa, "self"):
        E.append((b, "%s =" % p))
    return E


def r1(ctx, prop=P, rule="C04.R1"):
    fa = ctx.real_body(VAP, [APPEND_CS])
    if not need(ctx, prop, rule, VAP, fa):
        return
    E = effect_sites(fa)
    Eb = sorted(set(b for b, _ in E))
    if len(E) < 8:
        ctx.missing(prop, rule, "verify_and_apply_proof: effect sites", "only %d effect sites found (floor 8)" % len(E))
        return
    # (a) fork gate
    def is_fork_cmp(o):
        return o[0] == "bin" and o[1] in ("Ne", "Eq") and {path_of(strip(o[2])), path_of(strip(o[3]))} == {"proof.fork", "self.tree.fork"}
    fg = list(bool_switches(fa, is_fork_cmp))
    if need(ctx, prop, rule, "verify_and_apply_proof: comparison proof.fork vs self.tree.fork", fg):
        b, o, tr, fl = fg[0]
        mismatch, match = (tr, fl) if o[1] == "Ne" else (fl, tr)
        ok, hit = edge_returns_without(fa, mismatch, Eb)
        vals = [t for _, _, t in ret_values_in_region(fa, mismatch)]
        retfalse = ok and vals and all(is_agg(t, "Ok") and term_is_lit(agg_field(t, "0"), 0) for t in vals)
        ctx.check(prop, rule, "fork mismatch returns Ok(false) with no effect", retfalse, "fork mismatch edge returns Ok(false) without any effect site",
                  "fork mismatch edge at %s does not return Ok(false) effect-free (effects reached: %s; returns: %s)" % (loc(fa, b), [loc(fa, h) for h in hit], [term_str(v)[:40] for v in vals]), [loc(fa, b)])
        bad = [(e, l) for e, l in E if not fa.dominates(match, e)]
        ctx.check(prop, rule, "fork match dominates every effect", not bad, "all %d effect sites lie behind the fork gate" % len(E),
                  "effect site(s) not behind the fork gate: %s" % ", ".join("%s %s" % (loc(fa, e), l) for e, l in bad), [loc(fa, e) for e, _ in bad])
    # (b) verify_proof
    vp = sites(fa, VERIFY_PROOF_CORE)
    if need(ctx, prop, rule, "verify_and_apply_proof: call of Hypercore::verify_proof", vp):
        c = checked(fa, vp[0])
        if ctx.check(prop, rule, "verify_proof result is ?-checked", c is not None, "verify_proof is awaited and ?-checked", "verify_proof result at %s is not ?-checked" % loc(fa, vp[0]), [site_desc(fa, vp[0])]):
            bad = [(e, l) for e, l in E if not fa.dominates(c["ok"], e)]
            ctx.check(prop, rule, "verification success dominates every effect", not bad, "all effect sites are dominated by the success edge of verify_proof",
                      "effect site(s) reachable without a successful verify_proof: %s" % ", ".join("%s %s" % (loc(fa, e), l) for e, l in bad), [loc(fa, e) for e, _ in bad])
            okk, hit = edge_returns_without(fa, c["err"], Eb)
            ctx.check(prop, rule, "verification failure returns with no effect", okk, "error edge of verify_proof reaches Return without effects",
                      "error edge of verify_proof reaches effect sites: %s" % [loc(fa, h) for h in hit])
    # (c) commitable
    cm = list(bool_switches(fa, lambda o: o[0] == "call" and o[2] == MT_COMMITABLE))
    if need(ctx, prop, rule, "verify_and_apply_proof: branch on MerkleTree::commitable", cm):
        b, o, tr, fl = cm[0]
        arg = o[3][1] if len(o[3]) > 1 else None
        ctx.check(prop, rule, "commitable is asked about the verified changeset", arg is not None and vp and term_has_call(arg, VERIFY_PROOF_CORE) == vp[0],
                  "commitable(&changeset) receives the changeset returned by verify_proof", "commitable is not called on the verified changeset: %s" % term_str(arg)[:120])
        ok, hit = edge_returns_without(fa, fl, Eb)
        vals = [t for _, _, t in ret_values_in_region(fa, fl)]
        retfalse = ok and vals and all(is_agg(t, "Ok") and term_is_lit(agg_field(t, "0"), 0) for t in vals)
        ctx.check(prop, rule, "not commitable returns Ok(false) with no effect", retfalse, "non-commitable edge returns Ok(false) effect-free",
                  "non-commitable edge at %s does not return Ok(false) effect-free (effects: %s)" % (loc(fa, b), [loc(fa, h) for h in hit]))
        bad = [(e, l) for e, l in E if not fa.dominates(tr, e)]
        ctx.check(prop, rule, "commitable dominates every effect", not bad, "all effect sites lie behind the commitable gate",
                  "effect site(s) not behind the commitable gate: %s" % ", ".join("%s %s" % (loc(fa, e), l) for e, l in bad))
    # (d) provenance of what is applied
    for callee, idx, label in ((APPEND_CS, 1, "append_changeset"), (MT_COMMIT, 1, "commit")):
        for s in sites(fa, callee):
            o = fa.arg_origin(s, idx)
            ctx.check(prop, rule, "%s applies the verified changeset" % label, vp and term_has_call(o, VERIFY_PROOF_CORE) == vp[0] and strip(o)[0] == "call",
                      "%s receives verify_proof's changeset" % label, "%s at %s receives %s, not the changeset returned by verify_proof" % (label, loc(fa, s), term_str(o)[:100]), [site_desc(fa, s)])
    # block value written is the proof's block value, index from proof
    for s in sites(fa, BS_PUT):
        o = fa.arg_origin(s, 1)
        ctx.check(prop, rule, "stored bytes are the proof's block value", "proof.block" in "".join(term_paths(o)) and any(p.endswith(".value") for p in term_paths(o)),
                  "BlockStore::put writes proof.block.value", "BlockStore::put at %s writes %s" % (loc(fa, s), term_str(o)[:100]), [site_desc(fa, s)])


def r1b(ctx):
    """what `commitable` demands: same fork, and the changeset was made from the current length
    (exactly for an upgrade, at most for a block-only changeset)"""
    rule = "C04.R1"
    from .c09 import dominating_conditions
    fa = ctx.fn(MT_COMMITABLE)
    if not need(ctx, P, rule, MT_COMMITABLE, fa):
        return
    rets = ret_assigns(fa)
    sw = list(bool_switches(fa, lambda o: o[0] == "bin" and o[1] in ("Eq", "Ne") and {term_str(strip(o[2])), term_str(strip(o[3]))} == {"changeset.original_tree_fork", "self.fork"}))
    good_fork = False
    if sw:
        b, o, tr, fl = sw[0]
        differ = fl if o[1] == "Eq" else tr
        vals = [t for bb, _, t in rets if bb in fa.reach(differ, include_src=True) and not fa.dominates(tr if o[1] == "Eq" else fl, bb)]
        good_fork = any(term_is_lit(v, 0) for _, _, v in rets) and all(term_is_lit(t, 0) for bb, _, t in rets if fa.dominates(differ, bb))
    # the length comparison returned on the fork-equal side
    cmps = {}
    for x in subterms(mkjoin_([t for _, _, t in rets])):
        if isinstance(x, tuple) and x[0] == "bin" and x[1] in ("Eq", "Le", "Lt", "Ge", "Gt", "Ne") and "original_tree_length" in term_str(x):
            cmps[term_str(x)] = x
    # which comparison belongs to `upgraded`
    up = list(bool_switches(fa, lambda o: path_of(strip(o)) == "changeset.upgraded"))
    good_len = False
    if up:
        b, o, tr, fl = up[0]
        def cmp_on(edge):
            out = []
            for bb in fa.reach(edge, include_src=True):
                if not fa.dominates(edge, bb):
                    continue
                for si_, st in enumerate(fa.blocks[bb].stmts):
                    if st["k"] == "assign" and st["rv"]["k"] == "bin" and st["rv"]["op"] in ("Eq", "Le", "Lt", "Ge", "Gt", "Ne"):
                        l_, r_ = term_str(strip(fa.origin_operand(st["rv"]["l"], bb, si_))), term_str(strip(fa.origin_operand(st["rv"]["r"], bb, si_)))
                        if "original_tree_length" in l_ + r_:
                            out.append((st["rv"]["op"], l_, r_))
            return out
        good_len = cmp_on(tr) == [("Eq", "changeset.original_tree_length", "self.length")] and cmp_on(fl) == [("Le", "changeset.original_tree_length", "self.length")]
    ctx.check(P, rule, "commitable: a changeset of another fork is never commitable", good_fork, "original_tree_fork != self.fork => false", "commitable does not return false for a changeset made on another fork", key="C04|C04.R1|commitable|fork")
    ctx.check(P, rule, "commitable: an upgrade must have been made from exactly the current length, a block-only changeset from at most it", good_len,
              "upgraded: original_tree_length == self.length; otherwise original_tree_length <= self.length",
              "commitable's length condition differs from (upgraded: ==, otherwise: <=): %s" % sorted(cmps), key="C04|C04.R1|commitable|length")


def r2(ctx):
    rule = "C04.R2"
    found = []
    for b in ctx.crate.group(VERIFY_PROOF_CORE):
        fa = ctx.fa(b)
        for s in sites(fa, MT_VERIFY_PROOF):
            found.append((fa, s))
    if not need(ctx, P, rule, "Hypercore::verify_proof: calls of MerkleTree::verify_proof", found):
        return
    if len(found) < 2:
        ctx.missing(P, rule, "Hypercore::verify_proof: two MerkleTree::verify_proof sites", "found %d (floor 2)" % len(found))
    for fa, s in found:
        o = fa.arg_origin(s, 2)
        ctx.check(P, rule, "trust anchor is the core's own public key", path_of(strip(o)) == "self.key_pair.public",
                  "verification key at %s is self.key_pair.public" % loc(fa, s), "verification key at %s is %s, not self.key_pair.public" % (loc(fa, s), term_str(o)[:100]), [site_desc(fa, s)])
        o1 = fa.arg_origin(s, 1)
        ctx.check(P, rule, "the received proof is what is verified", strip(o1) == ("param", "proof"), "proof parameter passed through", "argument is %s" % term_str(o1)[:80], [site_desc(fa, s)])
    # every other caller of MerkleTree::verify_proof
    others = []
    for fa in ctx.all_fas():
        if fa.body.name.startswith(VERIFY_PROOF_CORE):
            continue
        for s in sites(fa, MT_VERIFY_PROOF):
            others.append(site_desc(fa, s))
    ctx.check(P, rule, "no other caller of MerkleTree::verify_proof", not others, "only Hypercore::verify_proof calls it", "other callers: %s" % others, others)


def r3(ctx):
    rule = "C04.R3"
    fa = ctx.fn(MT_VERIFY_PROOF)
    if not need(ctx, P, rule, MT_VERIFY_PROOF, fa):
        return
    vt, vu, rn = sites(fa, VERIFY_TREE), sites(fa, VERIFY_UPGRADE), sites(fa, MT_REQUIRED_NODE)
    if not (need(ctx, P, rule, "verify_proof: verify_tree call", vt) and need(ctx, P, rule, "verify_proof: verify_upgrade call", vu) and need(ctx, P, rule, "verify_proof: required_node call", rn)):
        return
    vt, vu = vt[0], vu[0]
    cvt, cvu = checked(fa, vt), checked(fa, vu)
    ctx.check(P, rule, "verify_tree and verify_upgrade are ?-checked", cvt is not None and cvu is not None, "both checked", "verify_tree/verify_upgrade result not ?-checked", [site_desc(fa, vt), site_desc(fa, vu)])
    if cvt is None or cvu is None:
        return
    # locals that hold the unverified root: defs rooted at verify_tree
    root_locals = set()
    for l, ds in fa.body.defs.items():
        for d in ds:
            if d[0] == "assign" and not d[3]["p"]:
                t = fa.origin_rvalue(d[4], d[1], d[2])
                if strip(t) == ("call", vt, VERIFY_TREE, strip(t)[3] if strip(t)[0] == "call" else None) and t[0] == "ok" and fa.body.local_ty(l).startswith("std::option::Option<"):
                    root_locals.add(l)
    if not need(ctx, P, rule, "verify_proof: local holding verify_tree's root", sorted(root_locals)):
        return
    # (1) cleared only when verify_upgrade returned true
    up_true = [tr for _, o, tr, fl in bool_switches(fa, lambda o: o[0] == "ok" and strip(o)[0] == "call" and strip(o)[1] == vu)]
    clears = []
    for l in root_locals:
        for d in fa.body.defs[l]:
            if d[0] == "assign" and not d[3]["p"]:
                t = fa.origin_rvalue(d[4], d[1], d[2])
                if term_has_call(t, VERIFY_TREE) is None:
                    clears.append((d[1], d[2], t))
    ok = bool(up_true) and all(is_agg(t, "None") and fa.dominates(up_true[0], b) for b, s, t in clears)
    ctx.check(P, rule, "unverified root is discarded only when verify_upgrade consumed it", ok,
              "the root is set to None only on verify_upgrade(..)? == true (%d site)" % len(clears),
              "the root returned by verify_tree is overwritten outside the `verify_upgrade == true` edge: %s" % [(loc(fa, b, s), term_str(t)[:40]) for b, s, t in clears],
              [loc(fa, b, s) for b, s, t in clears])
    # (2) Some-branch: stored node must have the same hash
    rn_ok = [s for s in rn if term_has_call(fa.arg_origin(s, 1), VERIFY_TREE) == vt and "index" in term_str(fa.arg_origin(s, 1))]
    if not need(ctx, P, rule, "verify_proof: required_node(root.index)", rn_ok):
        return
    rs = rn_ok[0]
    crs = checked(fa, rs)
    cmps = []
    for s in sites_any(fa, ("std::cmp::PartialEq::ne", "std::cmp::PartialEq::eq")):
        a, b = fa.arg_origin(s, 0), fa.arg_origin(s, 1)
        ta, tb = term_str(a), term_str(b)
        sides = [a, b]
        stored = [x for x in sides if term_has_call(x, MT_REQUIRED_NODE) == rs and term_has_call(x, VERIFY_TREE) in (None, vt) and strip(x)[0] == "field" and strip(x)[2] == "hash" and "Right" in term_str(x)]
        given = [x for x in sides if term_has_call(x, MT_REQUIRED_NODE) is None and term_has_call(x, VERIFY_TREE) == vt and strip(x)[0] == "field" and strip(x)[2] == "hash"]
        if stored and given:
            cmps.append((s, fa.blocks[s].term["callee"].endswith("::ne")))
    if not ctx.check(P, rule, "stored node hash is compared with the proof root hash", bool(cmps) and crs is not None,
                     "comparison of required_node(..).hash with the recomputed root hash present",
                     "no comparison between the hash of the locally stored node and the hash of the recomputed (unverified) root", [site_desc(fa, rs)]):
        return
    cs, is_ne = cmps[0]
    sw = [x for x in bool_switches(fa, lambda o: o[0] == "call" and o[1] == cs)]
    if need(ctx, P, rule, "verify_proof: branch on the hash comparison", sw):
        b, o, tr, fl = sw[0]
        differ = tr if is_ne else fl
        vals = [t for _, _, t in ret_values_in_region(fa, differ)]
        r = region(fa, differ)
        only_err = vals and all(is_agg(t, "Err") for t in vals) and not any(x in r for x in [u for u, _, _ in ok_returns(fa)])
        ctx.check(P, rule, "hash mismatch returns Err", only_err, "the differing-hash edge returns Err(InvalidChecksum) only",
                  "the edge taken when the stored hash differs from the proof's root hash can reach a non-error return", [loc(fa, b)])
    # ... and by size: the size of a node is not covered by its own hash, and a hash section of one
    # node is taken from the proof as it is — compared by hash alone, the genuine hash with a forged
    # size replaces the stored node (defect D20)
    lens = []
    for b_, o_, tr_, fl_ in bool_switches(fa, lambda o: o[0] == "bin" and o[1] == "Eq"):
        sd = [strip(o_[2]), strip(o_[3])]
        st_ = [x for x in sd if x[0] == "field" and x[2] == "length" and term_has_call(x, MT_REQUIRED_NODE) == rs]
        gv_ = [x for x in sd if x[0] == "field" and x[2] == "length" and term_has_call(x, MT_REQUIRED_NODE) is None and term_has_call(x, VERIFY_TREE) == vt]
        if st_ and gv_ and fl_ is not None:
            vals_ = [t_ for _, _, t_ in ret_values_in_region(fa, fl_)]
            r_ = region(fa, fl_)
            if vals_ and all(is_agg(t_, "Err") for t_ in vals_) and not any(x in r_ for x in [u for u, _, _ in ok_returns(fa)]):
                lens.append(b_)
    ctx.check(P, rule, "stored node size is compared with the proof root size", bool(lens), "required_node(..).length != root.length => Err(InvalidChecksum)",
              "verify_proof compares the node it holds with the root recomputed from the proof by hash only: a hash section consisting of that single node, with the genuine hash and a forged length, is accepted and the forged node replaces the stored one — the block becomes unreadable and every byte offset to its right is off",
              [site_desc(fa, rs)], key="C04|C04.R3|verify_proof|size comparison")
    # the comparison sits on the Right arm of required_node's result; Left arm pushes an instruction
    arms = [x for x in switch_edges_on(fa, lambda o: o[0] == "disc" and strip(o[1])[0] == "call" and strip(o[1])[1] == rs and o[1][0] == "ok")]
    if need(ctx, P, rule, "verify_proof: match on required_node's Either", arms):
        b, o, tg, other = arms[0]
        pushes = [s for s in sites(fa, "std::vec::Vec::<T, A>::push")]
        left = tg.get(0)
        right = tg.get(1)
        lp = [s for s in pushes if left is not None and fa.dominates(left, s)]
        # the same without a list: the Left arm returns Ok(Left([instruction])) at once, and no
        # Ok(Right(changeset)) can be reached from it
        direct = False
        if not lp and left is not None:
            rv_ = [t_ for _, _, t_ in ret_values_in_region(fa, left)]
            direct = bool(rv_) and all(is_agg(t_, "Ok") and is_agg(strip(agg_field(t_, "0")) if not is_agg(agg_field(t_, "0")) else agg_field(t_, "0"), "Left") and term_has_call(t_, MT_REQUIRED_NODE) == rs for t_ in rv_)
        ctx.check(P, rule, "missing stored node becomes a read instruction", bool(lp) or direct, "Left(instruction) arm pushes onto the instruction list (or returns Ok(Left([instruction])) at once)",
                  "the Left (node not loaded yet) arm does not record a read instruction: the root would go unchecked")
        ctx.check(P, rule, "hash comparison is on the loaded-node arm", right is not None and fa.dominates(right, cs), "comparison dominated by the Right(node) arm", "hash comparison is not on the Right(node) arm")
        # (3) Ok(Right(changeset)) only when no instruction is pending
        if lp:
            vec_term = strip(fa.arg_origin(lp[0], 0))
            # every place where an Ok(Either::Right(..)) is produced — as its own return, or as one alternative
            # of a value assembled by a helper (`Ok(instructions_or(instructions, changeset))`)
            okr = []
            for bb, si_, t in ok_returns(fa):
                if is_agg(agg_field(t, "0"), "Right"):
                    okr.append((bb, si_, t))
                    continue
                if si_ is None:
                    continue
                rv_ = fa.blocks[bb].stmts[si_]["rv"]
                if rv_["k"] == "agg" and rv_.get("ops"):
                    for t_, db_ in guarded_values(fa, rv_["ops"][0]):
                        if is_agg(strip(t_), "Right"):
                            okr.append((db_ if db_ is not None else bb, si_, t_))
            emp = [x for x in bool_switches(fa, lambda o: o[0] == "call" and o[2].endswith("::is_empty") and strip(o[3][0]) == vec_term)]
            good = bool(okr) and bool(emp) and all(any(fa.dominates(e_[2], bb) for e_ in emp) for bb, s, t in okr)
            ctx.check(P, rule, "changeset is released only with no pending instruction", good, "Ok(Right(changeset)) only on instructions.is_empty()",
                      "Ok(Either::Right(changeset)) can be returned while read instructions (unchecked roots) are pending", [loc(fa, bb, s) for bb, s, t in okr])
            for bb, s, t in okr:
                payload = agg_field(agg_field(t, "0"), "0") if is_agg(t, "Ok") else agg_field(strip(t), "0")
                if term_has_call(payload, MT_CHANGESET) is None and resolve_mutlocal(fa, payload) is not None:
                    payload = resolve_mutlocal(fa, payload)   # the &mut-escaping variable, at its initial value
                ctx.check(P, rule, "released changeset is the one verify_tree/verify_upgrade filled", term_has_call(payload, MT_CHANGESET) is not None, "changeset from self.changeset()",
                          "returned changeset is %s" % term_str(payload)[:80])


def r3b(ctx):
    """the flag that exempts the recomputed block root from the local hash comparison is true
    exactly when the node queue no longer holds that root"""
    rule = "C04.R3"
    fa = ctx.fn(VERIFY_UPGRADE)
    if not need(ctx, P, rule, VERIFY_UPGRADE, fa):
        return
    oks = ok_returns(fa)
    good = bool(oks)
    shown = []
    for b, s, t in oks:
        v = strip(agg_field(t, "0"))
        shown.append(term_str(v)[:60])
        isq = False
        if v[0] == "call" and v[2].endswith("::is_none"):
            a = strip(v[3][0])
            if path_of(a) == "~NodeQueue.extra":
                isq = True
            else:
                rs = roots(a)
                isq = bool(rs) and all(r[0] == "field" and r[2] == "extra" and strip(r[1])[0] == "call" and strip(r[1])[2] == NQ_NEW for r in rs)
        good = good and isq
    ctx.check(P, rule, "verify_upgrade reports 'root consumed' only when the queue's extra node is gone", good, "Ok(q.extra.is_none())",
              "verify_upgrade's result is %s, not `q.extra.is_none()`: the recomputed block root can be exempted from the comparison with the stored node although the signed roots do not cover it" % shown,
              [loc(fa, b, s) for b, s, t in oks], key="C04|C04.R3|verify_upgrade|root consumed flag")
    nq = sites(fa, NQ_NEW)
    with_root = [s for s in nq if (is_agg(fa.arg_origin(s, 1), "Some") and "block_root" in term_str(fa.arg_origin(s, 1))) or fa.arg_origin(s, 1) == ("param", "block_root")]
    without = [s for s in nq if is_agg(fa.arg_origin(s, 1), "None")]
    sw = [x for x in switch_edges_on(fa, lambda o: o == ("disc", ("param", "block_root")))]
    good = len(nq) == 2 and len(with_root) == 1 and len(without) == 1 and bool(sw) and fa.dominates(sw[0][2].get(1, -1), with_root[0]) and all(strip(fa.arg_origin(s, 0)) == ("field", ("param", "upgrade"), "nodes") for s in nq)
    if len(nq) == 1 and not sw:
        # one construction site fed by the parameter itself (`block_root.cloned()`)
        good = fa.arg_origin(nq[0], 1) == ("param", "block_root") and strip(fa.arg_origin(nq[0], 0)) == ("field", ("param", "upgrade"), "nodes")
    ctx.check(P, rule, "the queue is seeded with the block root exactly when there is one", good, "NodeQueue::new(upgrade.nodes, Some(block_root)) | NodeQueue::new(upgrade.nodes, None)",
              "NodeQueue construction in verify_upgrade differs: %s" % [[term_str(fa.arg_origin(s, i))[:40] for i in range(2)] for s in nq])
    fs = ctx.fn(NQ_SHIFT)
    if need(ctx, P, rule, NQ_SHIFT, fs):
        # the extra node is handed out only for the index that was asked for; otherwise it is put back
        eq = [x for x in bool_switches(fs, lambda o: o[0] == "bin" and o[1] in ("Eq", "Ne") and "extra" in term_str(o) and strip(o[3]) == ("param", "index") or (o[0] == "bin" and o[1] in ("Eq", "Ne") and strip(o[2]) == ("param", "index") and "extra" in term_str(o[3])))]
        good = False
        if eq:
            b, o, tr, fl = eq[0]
            match, differ = (tr, fl) if o[1] == "Eq" else (fl, tr)
            # the value handed out is the queue's extra node (taken with take(), or moved out by take_if)
            rets = [(bb, t) for bb, _, t in ok_returns(fs) if "extra" in term_str(t) and ("take" in term_str(t) or "self.extra" in term_str(t))]
            # removals of the extra node: take() calls on it, or `self.extra = None`
            removals = [s_ for s_, t_ in fs.calls() if (t_.get("callee") or "").endswith("::take") and "extra" in term_str(fs.arg_origin(s_, 0))]
            removals += [bb for bb, si in assign_sites(fs, "self.extra") if is_agg(fs.origin_rvalue(fs.blocks[bb].stmts[si]["rv"], bb, si), "None")]
            # put back: an assignment of the taken value to self.extra lies on every way from the
            # mismatch edge to a return (it may also run when nothing was taken: `self.extra = other`);
            # not needed when the node is only removed once the index is known to match (take_if)
            puts = [(bb, si) for bb, si in assign_sites(fs, "self.extra") if "take" in term_str(fs.origin_rvalue(fs.blocks[bb].stmts[si]["rv"], bb, si))]
            removed_before = [r_ for r_ in removals if fs.can_reach(r_, differ) or r_ == differ]
            lost = []
            if removed_before:
                lost = [r for r in fs.returns if r in fs.reach(differ, avoiding=[bb for bb, _ in puts], include_src=True)] if differ not in [bb for bb, _ in puts] else []
                lost = lost if puts else list(fs.returns)
            good = bool(rets) and all(fs.dominates(match, bb) for bb, _ in rets) and bool(removals) and not lost
        ctx.check(P, rule, "the extra node leaves the queue only for the index it has", good, "extra.index == index => return it, else put it back",
                  "NodeQueue::shift hands out (or drops) the extra node without matching its index", key="C04|C04.R3|NodeQueue::shift|extra index match")


def r3c(ctx):
    """NodeQueue::shift is the only place where a proof node is tied to a tree position (sibling
    indices are not hashed into parents): whatever it hands out must have exactly the index asked for"""
    rule = "C04.R3"
    fs = ctx.fn(NQ_SHIFT)
    if not need(ctx, P, rule, NQ_SHIFT, fs):
        return
    oks = ok_returns(fs)
    if not need(ctx, P, rule, "NodeQueue::shift: Ok(node) returns", oks):
        return
    eqs = list(bool_switches(fs, lambda o: o[0] == "bin" and o[1] == "Eq"))
    for bb, _, t in oks:
        v = strip(agg_field(t, "0")) if is_agg(t, "Ok") else strip(t)
        want = term_sig(("field", v, "index"))
        guards = []
        for b, o, tr, fl in eqs:
            sides = [strip(o[2]), strip(o[3])]
            if ("param", "index") in sides and any(term_sig(x) == want or (x[0] == "field" and x[2] == "index" and term_sig(strip(x[1])) == term_sig(v)) for x in sides):
                guards.append(tr)
        good = any(g is not None and fs.dominates(g, bb) for g in guards)
        ctx.check(P, rule, "shift hands out `%s` only when its index equals the index asked for" % term_str(v)[:50], good, "node.index == index dominates Ok(node)",
                  "NodeQueue::shift returns %s without an equality test of its index against the requested index on the way: a proof node labelled with another index is accepted in that position" % term_str(v)[:60],
                  [loc(fs, bb)], key="C04|C04.R3|NodeQueue::shift|index equality|%s" % ("extra" if "extra" in term_str(v) else "nodes"))


def _all_ok_dominated(fa, okbb):
    oks = ok_returns(fa)
    return oks, [(b, s) for b, s, t in oks if not fa.dominates(okbb, b)]


def r4(ctx):
    rule = "C04.R4"
    fa = ctx.fn(VERIFY_UPGRADE)
    if not need(ctx, P, rule, VERIFY_UPGRADE, fa):
        return
    vs = sites(fa, CS_VERIFY_SIG)
    if not need(ctx, P, rule, "verify_upgrade: verify_and_set_signature call", vs):
        return
    s = vs[0]
    c = checked(fa, s)
    if ctx.check(P, rule, "signature check is ?-checked", c is not None, "verify_and_set_signature(..)? present", "result of verify_and_set_signature is not ?-checked", [site_desc(fa, s)]):
        oks, bad = _all_ok_dominated(fa, c["ok"])
        ctx.check(P, rule, "every Ok return of verify_upgrade passes the signature check", oks and not bad, "%d Ok return(s), all dominated by the successful signature check" % len(oks),
                  "verify_upgrade can return Ok without a successful signature check: %s" % [loc(fa, b, x) for b, x in bad], [loc(fa, b, x) for b, x in bad])
        after = region(fa, c["ok"])
        late = [x for x in sites(fa, CS_APPEND_ROOT) if x in after]
        ctx.check(P, rule, "no root is appended after the signature check", not late, "append_root sites all precede the check",
                  "append_root at %s executes after the signature was checked (the signed root set is no longer the final one)" % [loc(fa, x) for x in late], [site_desc(fa, x) for x in late])
        late_w = [(b, si, p) for b, si, p in assign_sites_prefix(fa, "changeset") if b in after]
        ctx.check(P, rule, "changeset is not modified after the signature check", not late_w, "no field of the changeset is assigned after the check",
                  "changeset fields assigned after the signature check: %s" % [(loc(fa, b, si), p) for b, si, p in late_w])
    a0, a1, a2 = fa.arg_origin(s, 0), fa.arg_origin(s, 1), fa.arg_origin(s, 2)
    ctx.check(P, rule, "checked object is the changeset being built", strip(a0) == ("param", "changeset"), "receiver is the changeset parameter", "receiver is %s" % term_str(a0)[:60])
    ctx.check(P, rule, "signature comes from the upgrade message", path_of(strip(a1)) == "upgrade.signature", "signature = upgrade.signature", "signature argument is %s" % term_str(a1)[:80])
    ctx.check(P, rule, "key is the caller's public key", strip(a2) == ("param", "public_key"), "key = public_key parameter", "key argument is %s" % term_str(a2)[:80])
    # fork assigned from the parameter (the value gated in core.rs)
    fk = [(b, si) for b, si in assign_sites(fa, "changeset.fork")]
    if fk:
        o = fa.origin_rvalue(fa.blocks[fk[0][0]].stmts[fk[0][1]]["rv"], fk[0][0], fk[0][1])
        ctx.check(P, rule, "signed fork is the proof's fork", strip(o) == ("param", "fork"), "changeset.fork = fork parameter", "changeset.fork assigned from %s" % term_str(o)[:60])
    # verify_and_set_signature
    fb = ctx.fn(CS_VERIFY_SIG)
    if not need(ctx, P, rule, CS_VERIFY_SIG, fb):
        return
    cv = sites(fb, CRYPTO_VERIFY)
    if not need(ctx, P, rule, "verify_and_set_signature: crypto::verify call", cv):
        return
    v = cv[0]
    c = checked(fb, v)
    if ctx.check(P, rule, "crypto::verify is ?-checked", c is not None, "verify(..)? present", "result of crypto::verify is not ?-checked (signature failure ignored)", [site_desc(fb, v)]):
        oks, bad = _all_ok_dominated(fb, c["ok"])
        ctx.check(P, rule, "every Ok return of verify_and_set_signature passes crypto::verify", oks and not bad, "all Ok returns dominated", "Ok return without verification: %s" % [loc(fb, b, x) for b, x in bad])
        sets = assign_sites_prefix(fb, "self")
        early = [(b, si, p) for b, si, p in sets if not fb.dominates(c["ok"], b)]
        ctx.check(P, rule, "hash/signature are stored only after verification", not early, "self.hash / self.signature set after verify", "fields set before verification: %s" % [(loc(fb, b, si), p) for b, si, p in early])
    k, m, sg = fb.arg_origin(v, 0), fb.arg_origin(v, 1), fb.arg_origin(v, 2)
    ctx.check(P, rule, "verify uses the given public key", strip(k) == ("param", "public_key"), "key = public_key", "key is %s" % term_str(k)[:60])
    sg_ok = is_agg(sg, "Some") and term_has_call(sg, "std::convert::TryFrom::try_from") is not None and "signature" in term_str(sg)
    ctx.check(P, rule, "verify receives Some(parsed signature parameter)", sg_ok, "Some(Signature::try_from(signature)?)", "signature argument is %s" % term_str(sg)[:100])
    ms = strip(m)
    m_ok = ms[0] == "call" and ms[2] == CS_SIGNABLE and strip(ms[3][0]) == ("param", "self") and term_has_call(ms[3][1], CS_HASH) is not None
    ctx.check(P, rule, "message is self.signable(self.hash())", m_ok, "message = signable(hash())", "message is %s" % term_str(m)[:100])
    fh, fs = ctx.fn(CS_HASH), ctx.fn(CS_SIGNABLE)
    if need(ctx, P, rule, CS_HASH, fh) and need(ctx, P, rule, CS_SIGNABLE, fs):
        hs = sites(fh, HASH_TREE)
        ctx.check(P, rule, "hash() is Hash::tree over self.roots", bool(hs) and path_of(strip(fh.arg_origin(hs[0], 0))) == "self.roots", "Hash::tree(&self.roots)", "hash() does not hash self.roots")
        ss = sites(fs, SIGNABLE_TREE)
        good = bool(ss) and strip(fs.arg_origin(ss[0], 0)) == ("param", "hash") and path_of(strip(fs.arg_origin(ss[0], 1))) == "self.length" and path_of(strip(fs.arg_origin(ss[0], 2))) == "self.fork"
        ctx.check(P, rule, "signable covers hash, length and fork", good, "signable_tree(hash, self.length, self.fork)", "signable_tree arguments are not (hash, self.length, self.fork)")


def r5(ctx):
    rule = "C04.R5"
    fa = ctx.fn(CRYPTO_VERIFY)
    if not need(ctx, P, rule, CRYPTO_VERIFY, fa):
        return
    vs = [s for s, t in fa.calls() if (t.get("callee") or "").endswith("Verifier::verify") or (t.get("callee") or "").endswith("::verify_strict")]
    if not need(ctx, P, rule, "crypto::verify: ed25519 verification call", vs):
        return
    v = vs[0]
    a = [fa.arg_origin(v, i) for i in range(3)]
    ctx.check(P, rule, "ed25519 verify receives (public, msg, sig)", strip(a[0]) == ("param", "public") and strip(a[1]) == ("param", "msg") and term_str(a[2]).startswith("some(sig"),
              "public.verify(msg, sig)", "arguments are %s" % [term_str(x)[:40] for x in a])
    sw = list(bool_switches(fa, lambda o: o[0] == "call" and o[2].endswith("::is_ok") and term_has_call(o, fa.blocks[v].term.get("callee")) is not None or (o[0] == "call" and o[2].endswith("::is_ok") and any(isinstance(x, tuple) and x[:2] == ("call", v) for x in subterms(o)))))
    sw2 = list(bool_switches(fa, lambda o: o[0] == "call" and o[2].endswith("::is_err") and any(isinstance(x, tuple) and x[:2] == ("call", v) for x in subterms(o))))
    oks = ok_returns(fa)
    c = None
    if sw:
        okedge = sw[0][2]
    elif sw2:
        okedge = sw2[0][3]
    else:
        okedge = None
        # `?`-style
        c = checked(fa, v)
        if c:
            okedge = c["ok"]
    returned = c is not None and c.get("how") == "returned" if not (sw or sw2) else False
    ctx.check(P, rule, "Ok(()) only when the signature verified", okedge is not None and ((oks and all(fa.dominates(okedge, b) for b, s, t in oks)) or (returned and not oks)),
              "the only Ok return is dominated by verify(..).is_ok()", "crypto::verify can return Ok without a successful ed25519 verification", [loc(fa, b, s) for b, s, t in oks])
    # None signature -> Err
    ds = list(switch_edges_on(fa, lambda o: o == ("disc", ("param", "sig"))))
    if need(ctx, P, rule, "crypto::verify: match on sig", ds):
        b, o, tg, other = ds[0]
        none_t = tg.get(0, other)
        vals = [t for _, _, t in ret_values_in_region(fa, none_t)]
        ctx.check(P, rule, "missing signature is an error", vals and all(is_agg(t, "Err") for t in vals), "None => Err", "the None-signature arm can return a non-error")


def r6b(ctx):
    """what verify_tree authenticates is what verify_and_apply_proof stores: when a proof carries a
    block section, normalize_data must hand verify_tree that block (value, leaf index, nodes) —
    whatever else the proof carries.  A hash section may stand in only when there is no block."""
    rule = "C04.R6"
    ND = "tree::merkle_tree::normalize_data"
    fn = ctx.fn(ND)
    if not need(ctx, P, rule, ND, fn):
        return
    tests = list(option_tests(fn, lambda v: strip(v) == ("param", "block")))
    if not need(ctx, P, rule, "normalize_data: test of `block`", tests):
        return
    none_edges = [t_[3] for t_ in tests if t_[3] is not None]
    alts = []
    for d in fn.body.defs.get(0, []):
        kind, bi, si, place, payload = d
        if bi not in fn.succ or place["p"]:
            continue
        if kind == "assign" and payload["k"] == "use":
            gv = guarded_values(fn, payload["op"])
            alts += [(t_, db if db is not None else bi) for t_, db in gv] or [(fn.origin_rvalue(payload, bi, si), bi)]
        elif kind == "assign":
            alts.append((fn.origin_rvalue(payload, bi, si), bi))
        else:
            alts.append((fn.origin_call(bi, payload), bi))
    flat = []
    for t_, db in alts:
        for m in (t_[1] if t_[0] == "join" else (t_,)):
            flat.append((m, db))
    from_block = [(m, db) for m, db in flat if "some(block)" in term_str(m)]
    other = [(m, db) for m, db in flat if "some(block)" not in term_str(m)]
    good_b = bool(from_block) and all(is_agg(m, "Some") and "some(block).value" in term_str(agg_field(agg_field(m, "0"), "value")) and "some(block).index" in term_str(agg_field(agg_field(m, "0"), "index")) and "some(block).nodes" in term_str(agg_field(agg_field(m, "0"), "nodes")) for m, _ in from_block)
    ctx.check(P, rule, "a block section is normalised to (its value, leaf 2 * index, its nodes)", good_b, "Some(NormalizedData{value: Some(block.value), index: block.index * 2, nodes: block.nodes})",
              "normalize_data builds %s from the block section" % [term_str(m)[:90] for m, _ in from_block], key="C04|C04.R6|normalize_data|block fields")
    stray = [(m, db) for m, db in other if not any(fn.dominates(e, db) for e in none_edges)]
    ctx.check(P, rule, "a hash section (or nothing) is used only when the proof has no block", bool(other) and not stray, "every non-block result is built under `block` == None",
              "normalize_data can return %s although the proof carries a block: verify_tree then authenticates that instead of the block, whose bytes verify_and_apply_proof stores all the same" % [term_str(m)[:70] for m, _ in stray],
              [loc(fn, db) for _, db in stray], key="C04|C04.R6|normalize_data|block precedence")


def r6(ctx):
    rule = "C04.R6"
    fa = ctx.fn(VERIFY_TREE)
    if not need(ctx, P, rule, VERIFY_TREE, fa):
        return
    bn = sites(fa, BLOCK_NODE)
    pn = sites(fa, PARENT_NODE)
    if not (need(ctx, P, rule, "verify_tree: block_node call", bn) and need(ctx, P, rule, "verify_tree: parent_node calls", pn)):
        return
    if len(pn) < 2:
        ctx.missing(P, rule, "verify_tree: two parent_node loops", "found %d" % len(pn))
    o = fa.arg_origin(bn[0], 1)
    ctx.check(P, rule, "leaf node is recomputed from the received value", "value" in term_str(o) and term_has_call(o, "tree::merkle_tree::normalize_data") is not None,
              "block_node(index, value) with value from normalize_data(block,..)", "block_node's value argument is %s" % term_str(o)[:100], [site_desc(fa, bn[0])])
    loops = fa.loops()
    for s in pn:
        inl = [l for l in loops if s in l[1]]
        ctx.check(P, rule, "parent is recomputed for every sibling (loop)", bool(inl), "parent_node at %s inside the sibling loop" % loc(fa, s), "parent_node at %s is not inside a loop" % loc(fa, s), [site_desc(fa, s)])
        a1, a2 = fa.arg_origin(s, 1), fa.arg_origin(s, 2)
        shifted = term_has_call(a2, NQ_SHIFT) is not None or term_has_call(a1, NQ_SHIFT) is not None
        ctx.check(P, rule, "parent combines running root with the shifted sibling", shifted, "sibling comes from NodeQueue::shift", "parent_node at %s does not take the shifted sibling" % loc(fa, s), [site_desc(fa, s)])
    # returned root derives from block_node / parent_node
    rets = [t for _, _, t in ok_returns(fa)]
    derived = [t for t in rets if term_has_call(t, PARENT_NODE) is not None or term_has_call(t, BLOCK_NODE) is not None]
    ctx.check(P, rule, "returned root is the recomputed one", bool(derived), "Ok(root) derives from block_node / parent_node", "verify_tree's Ok value does not derive from the recomputed nodes")
    # call graph facts
    fb, fp = ctx.fn(BLOCK_NODE), ctx.fn(PARENT_NODE)
    if need(ctx, P, rule, BLOCK_NODE, fb) and need(ctx, P, rule, PARENT_NODE, fp):
        hd, hp = sites(fb, HASH_DATA), sites(fp, HASH_PARENT)
        ctx.check(P, rule, "block_node hashes the value with Hash::data", bool(hd) and strip(fb.arg_origin(hd[0], 0)) == ("param", "value"), "Hash::data(value)", "block_node does not hash its value with Hash::data")
        ctx.check(P, rule, "parent_node hashes both children with Hash::parent", bool(hp) and {strip(fp.arg_origin(hp[0], 0)), strip(fp.arg_origin(hp[0], 1))} == {("param", "left"), ("param", "right")},
                  "Hash::parent(left, right)", "parent_node does not hash (left, right) with Hash::parent")
        # Node::new(index, hash, length): length = value.len() / left.length + right.length
        for f, nm in ((fb, "block_node"), (fp, "parent_node")):
            nn = sites(f, "common::node::Node::new")
            if need(ctx, P, rule, "%s: Node::new" % nm, nn):
                h = f.arg_origin(nn[0], 1)
                ctx.check(P, rule, "%s stores the computed hash" % nm, term_has_call(h, HASH_DATA if f is fb else HASH_PARENT) is not None, "hash from Hash::*", "%s stores hash %s" % (nm, term_str(h)[:80]))


def r7(ctx):
    """'after any accepted proof every held block still equals the writer's': a verified block is
    written where the tree says it lies — the short cut 'at the current end of the data' is taken
    exactly for the block whose index equals the current length (same clause as C03.R2; a block
    beyond the current length, received together with an upgrade, would otherwise be marked held
    with its bytes somewhere else)"""
    from . import c03
    c03.r2b(ctx, P, "C04.R7")


RULES = [r1, r1b, r2, r3, r3b, r3c, r4, r5, r6, r6b, r7]

EXPLANATION = ("C04 (forged proofs never change a replica): decides the gate chain as dominance facts — fork and commitable gates and a ?-checked "
               "verify_proof dominate every storage/oplog/bitfield/tree/header/event effect of verify_and_apply_proof and the applied changeset is the verified one (R1); "
               "the trust anchor is self.key_pair.public (R2); an un-upgraded root is compared by hash with the stored node or turned into a read instruction, and "
               "the changeset is released only with no instruction pending, and NodeQueue::shift — the only place that ties a proof node to a tree position — hands a node out only under node.index == index (R3); every Ok of verify_upgrade/verify_and_set_signature is dominated by a ?-checked "
               "signature verification over signable(hash(roots), length, fork) with no root appended afterwards (R4); crypto::verify returns Ok only on "
               "verify(..).is_ok() and Err on a missing signature (R5); verify_tree recomputes the leaf from the received value and every parent from the "
               "running root and the shifted sibling, and normalize_data hands it the block section whenever the proof has one — a hash section stands in only without a block (R6). R7 (= C03.R2): a verified block is written at the current end of the data exactly when its index equals the current length.")
NOT_DECIDED = ("collision resistance / signature soundness of the libraries; flat-tree index arithmetic selecting which nodes are combined; that a refused "
               "proof leaves every observation unchanged beyond 'no effect site is reachable'; completion of honest replication afterwards.")
ASSUMPTIONS = ["ed25519-dalek and blake2 are correct", "flat_tree iterator arithmetic is correct"]
