"""C05 — hash pre-image layouts, constants, signable layout, sign/verify symmetry."""
from ..engine import *
from ..codec import *
from ..analysis import term_str, strip, roots, subterms, contains, callee_of, term_sig
from ..facts import op_place
from .names import *
from . import c06

P = "C05"
UPDATE = "blake2::Digest::update"
TREE_NS = [0x9F, 0xAC, 0x70, 0xB5, 0x0C, 0xA1, 0x4E, 0xFC, 0x4E, 0x91, 0xC8, 0x33, 0xB2, 0x04, 0xE7, 0x5B,
           0x8B, 0x5A, 0xAD, 0x8B, 0x58, 0x81, 0xBF, 0xC0, 0xAD, 0xB5, 0xEF, 0x38, 0xA3, 0x27, 0x5B, 0x9C]


def closure_seq(ctx, term, host=None):
    """encode sequence [(class, source sig)] that produced the bytes `term` stands for: the encode
    calls of the immediately-called closure it comes from, or (closure spliced into `host` by the
    normaliser) the encode calls of `host` that write into the buffer allocation `term` derives from;
    second result: the source terms"""
    for s in subterms(term):
        if isinstance(s, tuple) and s[0] == "closure":
            b = ctx.crate.body(s[1])
            if b is None:
                continue
            fa = ctx.fa(b)
            out = []
            for e in seq(ctx, fa):
                if e.kind == "encode":
                    out.append((e.cls, term_sig(unwrap_ovf(fa.arg_origin(e.site, 0)))))
            return out, fa
    if host is not None:
        allocs = set(x[1] for x in subterms(term) if isinstance(x, tuple) and len(x) == 4 and x[0] == "call" and x[2].split("::")[-1] in ("from_elem", "with_capacity", "new"))
        out, srcs = [], []
        for e in seq(ctx, host):
            if e.kind != "encode":
                continue
            buf = host.arg_origin(e.site, 1)
            if any(isinstance(x, tuple) and len(x) == 4 and x[0] == "call" and x[1] in allocs for x in subterms(buf)):
                src = unwrap_ovf(host.arg_origin(e.site, 0))
                out.append((e.cls, term_sig(src)))
                srcs.append(src)
        if out:
            return out, srcs
    return None, None


def tuple_field_of(fa, operand):
    """index k if the operand is (a copy / reference of) field k of a local that is assigned tuple
    aggregates — `let (a, b) = if c { (x, y) } else { (y, x) }` — else None.  Independent of names."""
    p = op_place(operand)
    for _ in range(10):
        if p is None:
            return None
        fl = [e for e in p["p"] if isinstance(e, dict) and "f" in e]
        if fl:
            ds = [d for d in fa.body.defs.get(p["l"], []) if not d[3]["p"] and d[0] == "assign" and d[4]["k"] == "agg" and d[4]["kind"] == "tuple"]
            if ds:
                return fl[0]["f"]
        ds = [d for d in fa.body.defs.get(p["l"], []) if not d[3]["p"]]
        if len(ds) != 1 or ds[0][0] != "assign":
            return None
        rv = ds[0][4]
        if rv["k"] in ("ref", "copyderef"):
            p = rv["place"]
        elif rv["k"] in ("use", "cast"):
            p = op_place(rv["op"])
        else:
            return None
    return None


def updates(fa):
    ups = sites(fa, UPDATE)
    idx = {b: i for i, b in enumerate(fa._rpo(0, fa.succ))}
    ups.sort(key=lambda s: idx.get(s, 0))
    return ups


def var_of(fa, operand, bi):
    """named user variable an operand refers to, through copies / refs / derefs"""
    p = op_place(operand)
    for _ in range(10):
        if p is None:
            return None
        nm = fa.body.local_name(p["l"])
        if nm:
            return nm
        ds = [d for d in fa.body.defs.get(p["l"], []) if not d[3]["p"]]
        if len(ds) != 1 or ds[0][0] != "assign":
            return None
        rv = ds[0][4]
        if rv["k"] in ("ref", "copyderef"):
            p = rv["place"]
        elif rv["k"] in ("use", "cast"):
            p = op_place(rv["op"])
        else:
            return None
    return None


def r1(ctx):
    rule = "C05.R1"
    # ---- leaf
    fa = ctx.fn(HASH_DATA)
    if need(ctx, P, rule, HASH_DATA, fa):
        ups = updates(fa)
        good = len(ups) == 3
        why = "%d update calls" % len(ups)
        if good:
            a = [fa.arg_origin(s, 1) for s in ups]
            cs, _ = closure_seq(ctx, a[1], fa)
            good = strip(a[0]) == ("const", "crypto::hash::LEAF_TYPE") and cs == [(("fixedle", 8), "as_fixed_width(len(data))")] and strip(a[2]) == ("param", "data") and all(fa.dominates(x, y) for x, y in zip(ups, ups[1:]))
            why = "updates: %s / %s / %s" % (term_str(a[0])[:30], cs, term_str(a[2])[:30])
        ctx.check(P, rule, "leaf pre-image = [LEAF_TYPE][u64le len(data)][data]", good, "type byte, 8-byte little-endian size, data", "Hash::data feeds %s" % why, key="C05|C05.R1|Hash::data|pre-image")
        fin = sites(fa, "blake2::Digest::finalize")
        import re as _re
        bits = _re.findall(r"typenum::B([01])>", fa.blocks[fin[0]].term["dest_ty"]) if fin else []
        width = int("".join(bits), 2) if bits else None
        ctx.check(P, rule, "leaf hash is the digest of exactly those updates", len(fin) == 1 and all(fa.dominates(u, fin[0]) for u in ups) and width == 32 and "Blake2bVarCore" in str(fa.blocks[fin[0]].term.get("callee_full")),
                  "BLAKE2b-256 (U32) finalize after the three updates", "finalize/update structure differs or the digest is not 32 bytes")
    # ---- parent
    fa = ctx.fn(HASH_PARENT)
    if need(ctx, P, rule, HASH_PARENT, fa):
        ups = updates(fa)
        good = len(ups) == 4
        why = "%d update calls" % len(ups)
        if good:
            a = [fa.arg_origin(s, 1) for s in ups]
            cs, srcs = closure_seq(ctx, a[1], fa)
            # the summed size: the value encoded is left.length + right.length (either order)
            ln = None
            if isinstance(srcs, list) and srcs and srcs[0][0] == "call" and srcs[0][3]:
                ln = unwrap_ovf(strip(srcs[0][3][0]))
            else:
                for l in fa.body.locals:
                    if l["name"] == "len":
                        ds = [d for d in fa.body.defs.get(l["i"], []) if not d[3]["p"]]
                        if ds:
                            ln = unwrap_ovf(fa.origin_local(l["i"], ds[0][1], (ds[0][2] or 0) + 1))
            def len_of_child(x):
                rs = roots(x)
                return bool(rs) and all(r[0] == "field" and r[2] == "length" and strip(r[1]) in (("param", "left"), ("param", "right")) for r in rs) and \
                    {strip(r[1])[1] for r in rs} == {"left", "right"}
            sum_ok = ln is not None and ln[0] == "bin" and ln[1] == "Add" and len_of_child(ln[2]) and len_of_child(ln[3]) and term_sig(ln[2]) != term_sig(ln[3])
            h1 = [s for s, t in fa.calls() if (t.get("resolved") or "").endswith("merkle_tree_stream::Node>::hash")]
            order = []
            for u in ups[2:]:
                o = fa.arg_origin(u, 1)
                hs = [s for s in h1 if s in call_root_bb(o)]
                order.append(tuple_field_of(fa, fa.blocks[hs[0]].term["args"][0]) if hs else None)
            good = strip(a[0]) == ("const", "crypto::hash::PARENT_TYPE") and cs is not None and [c_[0] for c_ in cs] == [("fixedle", 8)] and sum_ok and (order == [0, 1] or order == [None, None])
            why = "type %s, size %s of %s, then hashes of tuple fields %s" % (term_str(a[0])[:30], cs, term_str(ln)[:80] if ln else None, order)
        ctx.check(P, rule, "parent pre-image = [PARENT_TYPE][u64le left.len+right.len][hash1][hash2]", good, "type byte, summed size, both child hashes", "Hash::parent feeds %s" % why, key="C05|C05.R1|Hash::parent|pre-image")
        # the child hashed first is the one with the smaller index — decided per alternative value of
        # the two hashed receivers and the comparison fact that dominates its assignment; independent
        # of names and of how the pair is built (tuple, two lets, a helper)
        from .c09 import known_relations
        good = False
        if len(ups) == 4:
            h1 = [s for s, t in fa.calls() if (t.get("resolved") or "").endswith("merkle_tree_stream::Node>::hash")]
            picks = []
            for u in ups[2:]:
                hs = [s for s in h1 if s in call_root_bb(fa.arg_origin(u, 1))]
                alt = {}
                for term, db in (guarded_values(fa, fa.blocks[hs[0]].term["args"][0]) if hs else []):
                    facts = known_relations(ctx, fa, db)
                    lr = any(o_ == "Le" and path_of(strip(a_)) == "left.index" and path_of(strip(b_)) == "right.index" for o_, a_, b_ in facts if a_ is not None and b_ is not None)
                    rl = any(o_ == "Gt" and path_of(strip(a_)) == "left.index" and path_of(strip(b_)) == "right.index" for o_, a_, b_ in facts if a_ is not None and b_ is not None)
                    if lr != rl:
                        alt["lr" if lr else "rl"] = path_of(strip(term))
                picks.append(alt)
            good = picks == [{"lr": "left", "rl": "right"}, {"lr": "right", "rl": "left"}]
        ctx.check(P, rule, "parent hashes the lower-index child first", good, "(node1, node2) = (left, right) iff left.index <= right.index", "child order selection differs from `left.index <= right.index`", key="C05|C05.R1|Hash::parent|child order")
    # ---- tree
    fa = ctx.fn(HASH_TREE)
    if need(ctx, P, rule, HASH_TREE, fa):
        ups = updates(fa)
        loops = fa.loops()
        good = len(ups) in (3, 4) and loops
        why = "%d update calls, %d loops" % (len(ups), len(loops))
        if good:
            body = max(loops, key=lambda l: len(l[1]))[1]
            a = [fa.arg_origin(s, 1) for s in ups]
            # the bytes fed after the node hash, in order, however the encoded buffer(s) are cut:
            # [..k] + [k..], split_at(k), chunks(n) fed in a loop, one buffer per value, or a buffer whole
            def fed(q, u_site):
                """[(class, source sig)] of the bytes a piece contributes, or None"""
                def seq_of(buf_):
                    r_, _ = closure_seq(ctx, buf_, fa)
                    return r_
                def size(c_):
                    return c_[0][1] if c_[0][0] in ("fixed", "fixedle") else None
                def cutseq(buf_, lo, hi):
                    sq = seq_of(buf_)
                    if sq is None or any(size(c_) is None for c_ in sq):
                        return None
                    out_, off = [], 0
                    for c_ in sq:
                        n_ = size(c_)
                        if off >= lo and (hi is None or off + n_ <= hi):
                            out_.append(c_)
                        elif not (off + n_ <= lo or (hi is not None and off >= hi)):
                            return None   # the cut goes through a value
                        off += n_
                    return out_
                if q[0] == "call" and q[2].split("::")[-1] == "index" and len(q[3]) == 2 and is_agg(q[3][1]):
                    kind = q[3][1][1].split("::")[-1]
                    d_ = dict(q[3][1][3])
                    if kind == "RangeTo":
                        return cutseq(q[3][0], 0, ev(ctx, d_.get("end")))
                    if kind == "RangeFrom":
                        return cutseq(q[3][0], ev(ctx, d_.get("start")), None)
                    if kind == "Range":
                        return cutseq(q[3][0], ev(ctx, d_.get("start")), ev(ctx, d_.get("end")))
                if q[0] == "field" and q[2] in ("0", "1") and strip(q[1])[0] == "call" and strip(q[1])[2].split("::")[-1] == "split_at":
                    sp = strip(q[1])
                    k_ = ev(ctx, sp[3][1])
                    return cutseq(sp[3][0], 0, k_) if q[2] == "0" else cutseq(sp[3][0], k_, None)
                if q[0] == "call" and q[2].split("::")[-1] == "next" and q[3] and strip(q[3][0])[0] == "call" and strip(q[3][0])[2].split("::")[-1] in ("chunks", "chunks_exact"):
                    ch = strip(q[3][0])
                    if every_element_reaches(fa, q[1], u_site):
                        return seq_of(ch[3][0])
                    return None
                return seq_of(q)
            cs = []
            for q, u_site in zip([strip(x) for x in a[2:]], ups[2:]):
                f_ = fed(q, u_site)
                cs = None if (cs is None or f_ is None) else cs + f_
            cut = "%d piece(s)" % len(a[2:])
            p = a[2:]
            hs = strip(a[1])
            node = term_sig(hs[3][0]) if hs[0] == "call" and hs[3] else "?"
            good = (strip(a[0]) == ("const", "crypto::hash::ROOT_TYPE") and ups[0] not in body and all(u in body for u in ups[1:])
                    and hs[0] == "call" and hs[2].endswith("::hash") and "next(roots)" in term_sig(hs)
                    and cs in ([(("fixedle", 8), "as_fixed_width(index(node))"), (("fixedle", 8), "as_fixed_width(len(node))")],
                               [(("fixedle", 8), "as_fixed_width(index(%s))" % node), (("fixedle", 8), "as_fixed_width(len(%s))" % node)])
                    and all(fa.dominates(x, y) or (y in body and x in body and len(p) == 1) for x, y in zip(ups[1:], ups[2:])))
            why = "type %s; per root: %s, then %s of %s" % (term_str(a[0])[:20], term_sig(hs)[:40], cut, cs)
        ctx.check(P, rule, "tree pre-image = [ROOT_TYPE] then per root [hash][u64le index][u64le length]", good, "type byte once, then hash, index, length for every root in order", "Hash::tree feeds %s" % why, key="C05|C05.R1|Hash::tree|pre-image")
        it = [s for s in sites(fa, "std::iter::Iterator::next")]
        it = [s for s in it if "roots" in term_str(fa.arg_origin(s, 0))]
        if it and len(ups) in (3, 4) and loops:
            # every root obtained from the iterator is hashed: no path from `Some(node)` back to the
            # next iteration (or out of the loop) avoids the three updates
            sw = [x for x in switch_edges_on(fa, lambda o: o[0] == "disc" and it[0] in call_root_bb(o[1]))]
            skip = True
            if sw:
                some_t = sw[0][2].get(1)
                def must(u):
                    # an update inside an inner loop (chunks fed one by one): the inner loop's own
                    # driving next() is what every root has to pass
                    for h_, lb_, _ in loops:
                        if u in lb_ and it[0] not in lb_:
                            nx = [x for x in sites(fa, "std::iter::Iterator::next") if x in lb_]
                            if nx:
                                return nx[0]
                    return u
                skip = some_t is None or any(fa.can_reach(some_t, it[0], avoiding=[must(u)]) for u in ups[1:])
            ctx.check(P, rule, "every root contributes to the tree hash", not skip, "each iteration performs the three updates unconditionally",
                      "Hash::tree can move on to the next root (or finish) without hashing the current one: a conditional skip inside the per-root loop changes the signed root hash for some root sets",
                      [site_desc(fa, it[0])], key="C05|C05.R1|Hash::tree|root skipped")
        ctx.check(P, rule, "tree hash visits the roots in the given order", bool(it) and strip(fa.arg_origin(it[0], 0)) == ("param", "roots"), "for node in roots", "root iteration is not the plain order of `roots`")


def r2(ctx):
    rule = "C05.R2"
    want = {"crypto::hash::LEAF_TYPE": [0], "crypto::hash::PARENT_TYPE": [1], "crypto::hash::ROOT_TYPE": [2], "crypto::hash::TREE": TREE_NS}
    for k, v in want.items():
        got = ctx.crate.const_val(k)
        ctx.check(P, rule, "%s has the v10 value" % k.split("::")[-1], got == v, "= %s" % (v if len(v) < 4 else "tree namespace (32 bytes)"), "%s evaluates to %s" % (k, got), key="C05|C05.R2|%s" % k)


def r3(ctx):
    rule = "C05.R3"
    fa = ctx.fn(SIGNABLE_TREE)
    if not need(ctx, P, rule, SIGNABLE_TREE, fa):
        return
    rets = [t for _, _, t in ret_assigns(fa)]
    cs, _ = closure_seq(ctx, rets[0], fa) if rets else (None, None)
    want = [(("fixed", 32), "TREE"), (("fixed", 32), "ok(as_array(hash))"), (("fixedle", 8), "as_fixed_width(length)"), (("fixedle", 8), "as_fixed_width(fork)")]
    ctx.check(P, rule, "signable = [TREE namespace][hash:32][u64le length][u64le fork]", cs == want, "namespace, root hash, length, fork in that order", "signable_tree encodes %s" % cs, key="C05|C05.R3|signable_tree|layout")


def r4(ctx):
    rule = "C05.R4"
    legacy = {"crypto::hash::Hash::from_leaf", "crypto::hash::Hash::from_hashes", "crypto::hash::Hash::from_roots"}
    callers = set()
    for fa in ctx.all_fas():
        if sites(fa, U64_BE):
            callers.add(fn_of(fa.body.name))
    ctx.check(P, rule, "big-endian sizes are confined to the legacy hash functions", callers <= legacy, "u64_as_be called only by %s" % sorted(x.split("::")[-1] for x in callers), "u64_as_be is called from %s" % sorted(callers - legacy))
    used = []
    for fa in ctx.all_fas():
        for s, t in fa.calls():
            if callee_of(t) in legacy:
                used.append(site_desc(fa, s) + " in " + fa.body.name)
    ctx.check(P, rule, "the legacy (big-endian) hash functions have no caller in the library", not used, "from_leaf / from_hashes / from_roots unused outside tests", "legacy hash function used: %s" % used, used, key="C05|C05.R4|legacy hash used")
    # every v10 producer of node hashes goes through Hash::data / Hash::parent
    prod = {}
    for fa in ctx.all_fas():
        for s in sites(fa, "common::node::Node::new"):
            h = fa.arg_origin(s, 1)
            src = "Hash::data" if term_has_call(h, HASH_DATA) is not None else "Hash::parent" if term_has_call(h, HASH_PARENT) is not None else "bytes"
            prod.setdefault(fn_of(fa.body.name), []).append(src)
    want = {CS_APPEND: ["Hash::data"], CS_APPEND_ROOT: ["Hash::parent"], BLOCK_NODE: ["Hash::data"], PARENT_NODE: ["Hash::parent"]}
    for f, w in want.items():
        ctx.check(P, rule, "%s computes its node hash with %s" % (f.split("::")[-1], w[0]), prod.get(f) == w, "Node::new(.., %s(..), ..)" % w[0], "%s builds nodes from %s" % (f, prod.get(f)), key="C05|C05.R4|%s|hash source" % f)
    fa = ctx.fn(CS_APPEND)
    if need(ctx, P, rule, CS_APPEND, fa):
        s = sites(fa, "common::node::Node::new")[0]
        a = [fa.arg_origin(s, i) for i in range(3)]
        good = lin(ctx, a[0]) == {"self.length": 2} and strip(term_arg(a[1], HASH_DATA, 0)) == ("param", "data") and strip(unwrap_ovf(a[2])) == ("len", ("param", "data"))
        ctx.check(P, rule, "appended leaf: index 2*length, hash of the data, size len(data)", good, "Node::new(2*self.length, Hash::data(data), data.len())", "append builds Node::new(%s)" % [term_str(x)[:50] for x in a])
    fa = ctx.fn(CS_APPEND_ROOT)
    if need(ctx, P, rule, CS_APPEND_ROOT, fa):
        s = sites(fa, "common::node::Node::new")[0]
        a = [fa.arg_origin(s, i) for i in range(3)]
        ln = unwrap_ovf(a[2])
        good = strip(a[0])[0] == "call" and strip(a[0])[2].endswith("Iterator::parent") and ln[0] == "bin" and ln[1] == "Add" and all("length" in term_str(x) and "self.roots" in term_str(x) for x in (ln[2], ln[3]))
        ctx.check(P, rule, "merged parent: index iter.parent(), size = sum of the two last roots", good, "Node::new(iter.parent(), Hash::parent(a, b), a.length + b.length)", "append_root builds Node::new(%s)" % [term_str(x)[:60] for x in a])


def term_arg(term, callee, i):
    for s in subterms(term):
        if isinstance(s, tuple) and len(s) == 4 and s[0] == "call" and s[2] == callee:
            return s[3][i]
    return ("unknown",)


def r5(ctx):
    rule = "C05.R5"
    fa = ctx.fn(CS_HASH_SIGN)
    if need(ctx, P, rule, CS_HASH_SIGN, fa):
        sg = sites(fa, CRYPTO_SIGN)
        good = False
        if sg:
            k, m = fa.arg_origin(sg[0], 0), strip(fa.arg_origin(sg[0], 1))
            good = strip(k) == ("param", "signing_key") and m[0] == "call" and m[2] == CS_SIGNABLE and strip(m[3][0]) == ("param", "self") and term_has_call(m[3][1], CS_HASH) is not None
        ctx.check(P, rule, "hash_and_sign signs self.signable(self.hash()) with the given key", good, "sign(signing_key, signable(hash()))", "hash_and_sign signs something else", key="C05|C05.R5|hash_and_sign|message")
        ws = assign_sites_prefix(fa, "self")
        vals = {p: fa.origin_rvalue(fa.blocks[b].stmts[si]["rv"], b, si) for b, si, p in ws}
        good = (set(vals) == {"self.hash", "self.signature"} and is_agg(vals["self.hash"], "Some") and term_has_call(vals["self.hash"], CS_HASH) is not None
                and is_agg(vals["self.signature"], "Some") and term_has_call(vals["self.signature"], CRYPTO_SIGN) is not None)
        ctx.check(P, rule, "hash_and_sign stores that hash and that signature", good, "self.hash = Some(hash); self.signature = Some(signature)", "hash_and_sign stores %s" % {k: term_str(v)[:50] for k, v in vals.items()})
    fs = ctx.fn(CRYPTO_SIGN)
    if need(ctx, P, rule, CRYPTO_SIGN, fs):
        c = [s for s, t in fs.calls() if (t.get("callee") or "").endswith("Signer::sign")]
        ctx.check(P, rule, "sign = Ed25519 signature of the message with the key", bool(c) and strip(fs.arg_origin(c[0], 0)) == ("param", "signing_key") and strip(fs.arg_origin(c[0], 1)) == ("param", "msg"), "signing_key.sign(msg)", "crypto::sign does not sign msg with signing_key")
    fu = ctx.fn(UPDATE_HDR)
    if need(ctx, P, rule, UPDATE_HDR, fu):
        ws = assign_sites_prefix(fu, "header.tree")
        vals = {p: term_str(fu.origin_rvalue(fu.blocks[b].stmts[si]["rv"], b, si)) for b, si, p in ws}
        # `mem::replace(&mut header.tree.x, v)` stores v in the field as well (and yields the OLD value)
        for s_, t_ in fu.calls():
            if (t_.get("callee") or "") in ("std::mem::replace", "core::mem::replace") and len(t_["args"]) == 2:
                pth = path_of(strip(fu.arg_origin(s_, 0)))
                if pth and pth.startswith("header.tree."):
                    vals[pth] = term_str(fu.arg_origin(s_, 1))
        good = ("changeset.hash" in vals.get("header.tree.root_hash", "") and "changeset.signature" in vals.get("header.tree.signature", "") and "to_bytes" in vals.get("header.tree.signature", "")
                and vals.get("header.tree.length") == "changeset.length")
        ctx.check(P, rule, "the header stores the changeset's root hash, signature and length", good, "header.tree.{root_hash,signature,length} <- changeset", "header.tree fields are set from %s" % vals, key="C05|C05.R5|update_header_with_changeset|fields")
        ent = [fu.origin_rvalue(st["rv"], b.i, si) for b in fu.live() for si, st in enumerate(b.stmts) if st["k"] == "assign" and st["rv"]["k"] == "agg" and st["rv"].get("name", "").endswith("EntryTreeUpgrade")]
        ent_site = [b.i for b in fu.live() for si, st in enumerate(b.stmts) if st["k"] == "assign" and st["rv"]["k"] == "agg" and st["rv"].get("name", "").endswith("EntryTreeUpgrade")]
        depth_ok = [True]
        good = False
        if ent:
            d = {k: term_str(v) for k, v in ent[0][3]}
            # the signature must BE the changeset's (converted), not merely mention it: what
            # `mem::replace(&mut header.tree.signature, new)` yields is the header's previous signature
            def conv_of(t, path):
                t = strip(t)
                CONV = ("to_bytes", "into", "from", "clone", "expect", "unwrap", "as_ref", "to_vec", "into_boxed_slice", "to_owned", "deref", "borrow", "into_vec", "as_slice", "into_boxed")
                while isinstance(t, tuple) and t[0] == "call" and t[2].split("::")[-1] in CONV and t[3]:
                    t = strip(t[3][0])
                if isinstance(t, tuple) and t[0] == "join":
                    return all(conv_of(x, path) for x in t[1])
                if path_of(t) == path:
                    return True
                # a read of a place this function has stored the value in before (the analysis joins
                # the incoming value of a field behind `&mut` with what was assigned: weak update)
                pth = path_of(t)
                st_ = [(b_, si_) for b_, si_, p_ in ws if p_ == pth]
                if pth and len(st_) == 1 and depth_ok[0]:
                    depth_ok[0] = False
                    b_, si_ = st_[0]
                    r = conv_of(fu.origin_rvalue(fu.blocks[b_].stmts[si_]["rv"], b_, si_), path) and fu.dominates(b_, ent_site[0])
                    depth_ok[0] = True
                    return r
                return False
            sig = dict(ent[0][3]).get("signature")
            good = d.get("fork") == "changeset.fork" and d.get("ancestors") == "changeset.ancestors" and d.get("length") == "changeset.length" and sig is not None and conv_of(sig, "changeset.signature")
        ctx.check(P, rule, "the log entry carries the changeset's fork, ancestors, length and signature", good, "EntryTreeUpgrade fields <- changeset", "EntryTreeUpgrade is built from %s: replaying the entry on reopen installs that as the tree's signature, and the core then serves a signature that is not over its current head" % (d if ent else None),
                  key="C05|C05.R5|update_header_with_changeset|entry fields")
    fa = ctx.real_body(APPEND_BATCH, [APPEND_CS])
    if need(ctx, P, rule, APPEND_BATCH, fa):
        hs, ac = sites(fa, CS_HASH_SIGN), sites(fa, APPEND_CS)
        ctx.check(P, rule, "append signs the changeset before it is logged", bool(hs) and bool(ac) and fa.dominates(hs[0], ac[0]) and strip(fa.arg_origin(hs[0], 0)) == strip(fa.arg_origin(ac[0], 1)),
                  "hash_and_sign(changeset) dominates append_changeset(changeset)", "the logged changeset is not the signed one or is logged before signing")


def r6(ctx):
    c06.r6(ctx, P, "C05.R6")


def r7(ctx):
    """MerkleTree::truncate (replay of a logged upgrade on reopen) rebuilds the root list position by
    position: the root for position i is pushed only where `roots.len() <= i` is established, i.e.
    every stale root from the first differing position on has been dropped"""
    rule = "C05.R7"
    from .c09 import known_relations, term_sig_
    fa = ctx.fn(MT_TRUNCATE)
    if not need(ctx, P, rule, MT_TRUNCATE, fa):
        return
    pushes = [s for s, t in fa.calls() if (t.get("callee") or "").endswith("Vec::<T, A>::push") and term_sig_(fa.arg_origin(s, 0)).endswith(".roots")]
    if not need(ctx, P, rule, "truncate: changeset.roots.push(node)", pushes):
        return
    s = pushes[0]
    base = term_sig_(fa.arg_origin(s, 0))
    ok = False
    seen = []
    for op, a, b in known_relations(ctx, fa, s):
        if a is None or b is None or not isinstance(op, str):
            continue
        sa, sb = term_sig_(a), term_sig_(b)
        seen.append("%s(%s, %s)" % (op, sa[:40], sb[:40]))
        if op in ("Le", "Eq", "Lt") and sa == "len(%s)" % base and "enumerate" in sb:
            ok = True
    if not ok:
        # the same trim spelled with the std call: roots.truncate(i) leaves len(roots) <= i
        for ts, tt in fa.calls():
            if (tt.get("callee") or "").endswith("Vec::<T, A>::truncate") and fa.dominates(ts, s) and term_sig_(fa.arg_origin(ts, 0)) == base and "enumerate" in term_sig_(fa.arg_origin(ts, 1)):
                ok = True
    ctx.check(P, rule, "the replacement root is pushed at its own position", ok, "push dominated by the exit of `while roots.len() > i { roots.pop() }`",
              "MerkleTree::truncate pushes the root for position i where `roots.len() <= i` is not established (facts: %s): stale roots after the first differing position survive, so the root set after replay — and every later root hash and signature — is not the prescribed one" % seen[:4],
              [site_desc(fa, s)], key="C05|C05.R7|truncate|push position")
    node = fa.arg_origin(s, 1)
    ctx.check(P, rule, "the replacement root is the stored node of that full root", term_has_call(node, MT_REQUIRED_NODE) is not None and "full_roots" in term_str(node) or "enumerate" in term_str(node), "required_node(full_roots[i])",
              "pushed root is %s" % term_str(node)[:100])
    # final trim and totals
    ws = {p: fa.origin_rvalue(fa.blocks[b].stmts[si]["rv"], b, si) for b, si, p in assign_sites_prefix(fa, "~MerkleTreeChangeset")}
    good = strip(ws.get("~MerkleTreeChangeset.length", ("x",))) == ("param", "length") and strip(ws.get("~MerkleTreeChangeset.ancestors", ("x",))) == ("param", "length") and strip(ws.get("~MerkleTreeChangeset.fork", ("x",))) == ("param", "fork") and term_is_lit(ws.get("~MerkleTreeChangeset.upgraded", ("x",)), 1)
    ctx.check(P, rule, "the rebuilt changeset carries the logged length and fork and is an upgrade", good, "length = ancestors = length param, fork = fork param, upgraded = true", "truncate sets %s" % {k: term_str(v)[:40] for k, v in ws.items()})
    bl = ws.get("~MerkleTreeChangeset.byte_length")
    # however the sum is written (fold, map+sum, a for loop): an accumulator that starts at 0 and
    # adds .length of each element of the changeset's roots
    sm = loop_sum(bl) if bl is not None else None
    good = sm is not None and term_is_lit(sm[0], 0) and strip(sm[1])[0] == "field" and strip(sm[1])[2] == "length" and "next" in term_str(sm[1]) and "roots" in term_str(sm[1])
    ctx.check(P, rule, "byte length is the sum of the rebuilt roots' sizes", good, "0 + sum of node.length over changeset.roots", "byte_length is %s" % (term_str(bl)[:160] if bl else None))


def r8(ctx):
    """the key that signs (and is named in the stored header and manifest) is one key: the core's
    key pair is the one of the header Oplog::open returned — not a key pair supplied again by the
    caller on a later build over existing storage (same clause as C12.R6)"""
    from . import c12
    c12.r6(ctx, P, "C05.R8")


def r9(ctx):
    """the signed tree head never reaches the disk ahead of the nodes it signs: the periodic flush
    writes (and checks) the tree nodes before the oplog header that carries length, root hash and
    signature and that obsoletes the log entries holding those nodes — otherwise a crash or a
    failed tree write leaves a validly signed head over missing (zero) nodes (the clauses of C02.R4)"""
    from . import c02
    before = len(ctx.insts)
    c02.r4(ctx)
    # ... and the signed head of an append enters the in-memory header (from where the next flush
    # writes it) only after the entry that carries its nodes is logged: a failed entry write must
    # not leave the header describing a tree head whose nodes exist nowhere (C02.R1)
    c02.order_rule(ctx, P, "C05.R9", APPEND_BATCH, BS_APPEND, False)
    for i in ctx.insts[before:]:
        i.prop, i.rule = P, "C05.R9"
        i.key = i.key.replace("C02|C02.R4", "C05|C05.R9")


def r10(ctx):
    """no node that is not the prescribed value enters the stored tree through a proof without upgrade: verify_proof compares the HASH of the recomputed root with the hash of the node the core holds (Node's Ord / Eq by index would always agree) — the comparison clauses of C04.R3"""
    from . import c04
    before = len(ctx.insts)
    c04.r3(ctx)
    kept = []
    for i in ctx.insts[before:]:
        if "hash" in i.anchor or "compared" in i.anchor or "verify_proof" in i.anchor:
            i.prop, i.rule = P, "C05.R10"
            i.key = i.key.replace("C04|C04.R3", "C05|C05.R10")
            kept.append(i)
    ctx.insts[before:] = kept
    if not kept:
        ctx.missing(P, "C05.R10", "shared clauses of c04.r3", "no instance")


RULES = [r1, r2, r3, r4, r5, r6, r7, r8, r9, r10]
EXPLANATION = ("C05 (tree, root hash and signature match the v10 scheme): decides the hash pre-image layouts from the ordered Digest::update calls and the immediately-called encoding closures — "
               "leaf [0][u64le len][data], parent [1][u64le sum][lower-index child hash][other hash], tree [2] then per root [hash][u64le index][u64le length] (R1); the type bytes and the 32-byte tree "
               "namespace (R2); signable = [TREE][hash:32][u64le length][u64le fork] (R3); big-endian helper confined to unused legacy functions and every node producer hashing through Hash::data / "
               "Hash::parent with index / size operands of the scheme (R4); sign/verify symmetry and the header / entry copies of hash, signature, length (R5); the 40-byte tree record (R6); the position-by-position rebuild of the root list when a logged upgrade is replayed (R7). R8: the key pair a core signs with is the key pair of the header Oplog::open returned (shared with C12.R6). R9: the periodic flush writes and checks the tree nodes before the header that carries the signed head (the clauses of C02.R4).")
NOT_DECIDED = "the numeric value of any hash or signature; append_root's choice of which roots to merge (flat-tree arithmetic); flat in-order numbering itself (flat_tree dependency)."
ASSUMPTIONS = ["blake2 and ed25519-dalek implement BLAKE2b-256 and Ed25519", "reference layout table = Hypercore v10 scheme as named in the property"]
