"""C06 — on-disk layout: sibling tables of writers and readers agree."""
from ..engine import *
from ..codec import *
from ..analysis import term_sig, term_str, strip, roots, subterms, contains, callee_of
from .codec_rules import three_way, entry_flags, V
from .names import *

P = "C06"
STR = ("seq", "string")
B = ("bytes",)
REF = {
    "Header": [(None, ("fixed", 2)), ("key", ("fixed", 32)), ("manifest", ("nested", "Manifest")), ("key_pair", ("nested", "PartialKeypair")), ("user_data", STR),
               ("tree", ("nested", "HeaderTree")), ("hints", ("nested", "HeaderHints"))],
    "HeaderTree": [("fork", V), ("length", V), ("root_hash", B), ("signature", B)],
    "HeaderHints": [("reorgs", STR), ("contiguous_length", V)],
    "Manifest": [(None, ("fixed", 1)), (None, ("fixed", 1)), (None, ("fixed", 1)), ("signer", ("nested", "ManifestSigner"))],
    "ManifestSigner": [(None, ("fixed", 1)), ("namespace", ("fixed", 32)), ("public_key", ("fixed", 32))],
    "EntryTreeUpgrade": [("fork", V), ("ancestors", V), ("length", V), ("signature", B)],
    "BitfieldUpdate": [(None, ("fixed", 1)), ("start", V), ("length", V)],
    "Node": [("index", V), ("length", V), ("hash", ("fixed", 32))],
}


def r1(ctx):
    rule = "C06.R1"
    fns = codec_fns(ctx)
    for ty, ref in REF.items():
        three_way(ctx, P, rule, ty, ref, fns)
    # Entry: sections are conditional; shapes compared section-wise in R2, order here
    d = fns.get("Entry")
    if d and all(k in d for k in ("size", "encode", "decode")):
        enc, dec = seq(ctx, d["encode"]), seq(ctx, d["decode"])
        want = [(None, ("fixed", 1)), ("user_data", STR), ("tree_nodes", ("seq", "Node")), ("tree_upgrade", ("nested", "EntryTreeUpgrade")), ("bitfield", ("nested", "BitfieldUpdate"))]
        got = [(e.field, e.cls) for e in enc]
        ctx.check(P, rule, "Entry: encode writes flag byte then the four sections in order", got == want, "flag, user_data, tree_nodes, tree_upgrade, bitfield", "Entry::encode writes %s" % got, key="C06|C06.R1|Entry|encode order")
        ctx.check(P, rule, "Entry: decode reads the sections in encode's order", [e.cls for e in dec] == [e.cls for e in enc], "same shapes, same order", "Entry::decode reads %s" % [e.cls for e in dec], key="C06|C06.R1|Entry|decode order")
        fmap, _ = decode_field_map(ctx, d["decode"], dec)
        ctx.check(P, rule, "Entry: decoded sections land in their fields", fmap == {"user_data": 1, "tree_nodes": 2, "tree_upgrade": 3, "bitfield": 4}, "k-th section -> k-th field", "Entry::decode field mapping is %s" % fmap, key="C06|C06.R1|Entry|field mapping")
    else:
        ctx.missing(P, rule, "Entry: CompactEncoding impl", "not found")
    # PartialKeypair: hand-written at byte level
    d = fns.get("PartialKeypair")
    if d and all(k in d for k in ("size", "encode", "decode")):
        PK = const_lookup(ctx, "ed25519_dalek::PUBLIC_KEY_LENGTH") or 32
        SK = const_lookup(ctx, "ed25519_dalek::SECRET_KEY_LENGTH") or 32
        adds = literal_addends(d["size"])
        names = [a[1].split("::")[-1] if isinstance(a, tuple) else a for a in adds]
        ctx.check(P, rule, "PartialKeypair: size = 1+PK + (1+SK+PK | 1)", sorted(map(str, names)) == sorted(["1", "1", "1", "PUBLIC_KEY_LENGTH", "PUBLIC_KEY_LENGTH", "SECRET_KEY_LENGTH"]) or
                  sorted(map(str, names)) == sorted(["1", "1", "PUBLIC_KEY_LENGTH", "PUBLIC_KEY_LENGTH", "SECRET_KEY_LENGTH"]),
                  "addends %s" % names, "PartialKeypair::encoded_size addends are %s" % names)
        dec = seq(ctx, d["decode"])
        shapes = [e.cls for e in dec]
        full = ctx.crate.const_val("oplog::header::<impl compact_encoding::CompactEncoding for crypto::key_pair::PartialKeypair>::decode::FULL_SIGNING_KEY_LENGTH")
        if full is None:
            # the constant may live anywhere (fn-local or module level): any crate constant of that name
            cands = [c_.get("v") for n_, c_ in ctx.crate.consts.items() if n_.endswith("::FULL_SIGNING_KEY_LENGTH")]
            full = cands[0] if len(cands) == 1 else None
        ctx.check(P, rule, "PartialKeypair: decode = len, 32 bytes, len, 64 bytes (secret||public)", shapes == [("lenprefix",), ("fixed", 32), ("lenprefix",), ("fixed", 64), ("fixed", 32)] and full in (None, SK + PK) and SK + PK == 64,
                  "len-prefixed public key (32) and full signing key (64 = secret 32 + public 32)", "PartialKeypair::decode shapes %s, FULL_SIGNING_KEY_LENGTH=%s" % (shapes, full))
        enc = seq(ctx, d["encode"])
        fe_ = d["encode"]
        # first the public key; then, on alternative paths, the full key or the zero byte (the two
        # alternatives are listed in block order, which depends on how the branch is written)
        alt_ok = len(enc) == 3 and enc[0].cls == B and sorted(map(str, (enc[1].cls, enc[2].cls))) == sorted(map(str, (B, ("fixed", 1)))) and \
            not fe_.can_reach(enc[1].site, enc[2].site) and not fe_.can_reach(enc[2].site, enc[1].site) and fe_.dominates(enc[0].site, enc[1].site) and fe_.dominates(enc[0].site, enc[2].site)
        ctx.check(P, rule, "PartialKeypair: encode = bytes(public), then bytes(secret||public) or a single 0", alt_ok, "two length-prefixed byte strings or a zero byte",
                  "PartialKeypair::encode shapes %s" % [e.cls for e in enc])
        fe = d["encode"]
        cc = [s for s, t in fe.calls() if (t.get("callee") or "").endswith("::concat")]
        good = False
        if cc:
            a = strip(fe.arg_origin(cc[0], 0))
            good = is_agg(a) and a[1] == "array" and len(a[3]) == 2 and term_has_call(a[3][0][1], "ed25519_dalek::SigningKey::to_bytes") is not None and "public" in term_str(a[3][1][1])
        if not cc:
            # the same concatenation spelled with a growing Vec: sk.to_bytes().to_vec() then extend_from_slice(public)
            ex = [s_ for s_, t_ in fe.calls() if (t_.get("callee") or "").endswith("::extend_from_slice")]
            if len(ex) == 1:
                base, tail = fe.arg_origin(ex[0], 0), fe.arg_origin(ex[0], 1)
                full_key = [e_ for e_ in enc if e_.cls == B and e_.site != enc[0].site]
                good = term_has_call(base, "ed25519_dalek::SigningKey::to_bytes") is not None and "public" in term_str(tail) and not any(isinstance(x, tuple) and x[0] == "cycle" for x in subterms(base)) \
                    and bool(full_key) and fe.dominates(ex[0], full_key[0].site) and term_has_call(fe.arg_origin(full_key[0].site, 0), "ed25519_dalek::SigningKey::to_bytes") is not None
        ctx.check(P, rule, "PartialKeypair: stored secret is secret bytes followed by the public key", good, "[sk.to_bytes(), public_key].concat()", "secret key bytes are not laid out as secret || public")
    else:
        ctx.missing(P, rule, "PartialKeypair: CompactEncoding impl", "not found")


def r2(ctx):
    entry_flags(ctx, P, "C06.R2")


def _find(term, pred):
    for s in subterms(term):
        if isinstance(s, tuple) and pred(s):
            return s
    return None


def r3(ctx):
    rule = "C06.R3"
    fb, fv, fw, fe = ctx.fn(BUILD_LEN), ctx.fn(VALIDATE_LEADER), ctx.fn(WRITE_LEADER), ctx.fn(ENC_LEADER)
    if not all(need(ctx, P, rule, n, f) for n, f in ((BUILD_LEN, fb), (VALIDATE_LEADER, fv), (WRITE_LEADER, fw), (ENC_LEADER, fe))):
        return
    crc, leader = const_lookup(ctx, "oplog::CRC_SIZE"), const_lookup(ctx, "oplog::LEADER_SIZE")
    ctx.check(P, rule, "CRC_SIZE = 4, LEADER_SIZE = 8", crc == 4 and leader == 8, "leader = 4 checksum bytes + 4 length/flag bytes", "CRC_SIZE=%s LEADER_SIZE=%s" % (crc, leader))
    # writer
    rets = [t for _, _, t in ret_assigns(fb)]
    w = rets[0] if rets else ("unknown",)
    shl = _find(w, lambda s: s[0] == "bin" and s[1] == "Shl")
    wshift = ev(ctx, shl[3]) if shl else None
    # header / partial constants: literal assigned on the true edge of the switch on the parameter
    def bit_const(param):
        for b, o, tr, fl in bool_switches(fb, lambda o: strip(o) == ("param", param)):
            for bb in region(fb, tr):
                if not fb.dominates(tr, bb) or (fl is not None and fb.dominates(fl, bb)):
                    continue
                for st in fb.blocks[bb].stmts:
                    if st["k"] == "assign" and st["rv"]["k"] == "use" and "k" in st["rv"]["op"] and st["rv"]["op"]["k"].get("ty") == "u32" and fb.dominates(tr, bb) and not fb.can_reach(fl, bb):
                        return st["rv"]["op"]["k"].get("v")
        return None
    def bit_direct(param):
        # the flag spelled without a branch: u32::from(flag) / flag as u32 (bit 0), optionally << k
        for s_ in subterms(w):
            if isinstance(s_, tuple) and s_[0] == "bin" and s_[1] == "BitOr":
                for side in (s_[2], s_[3]):
                    side = unwrap_ovf(side)
                    if strip(side) == ("param", param):
                        return 1
                    if side[0] == "bin" and side[1] == "Shl" and strip(side[2]) == ("param", param) and ev(ctx, side[3]) is not None:
                        return 1 << ev(ctx, side[3])
        return None
    wh, wp = bit_const("header_bit"), bit_const("partial_bit")
    wh = bit_direct("header_bit") if wh is None else wh
    wp = bit_direct("partial_bit") if wp is None else wp
    # path-sensitive value table over both flags: decides any spelling (two `if`s, `match (h, p)`,
    # u32::from(flag) << k) and is the deciding clause where it applies
    tab = flag_table(fb, ["header_bit", "partial_bit"])
    tab_ok = None
    if tab is not None and len({o for _, o in tab.values()}) == 1 and len(next(iter(tab.values()))[1]) == 1:
        v00, v01, v10, v11 = (tab[(h_, p_)][0] for h_, p_ in ((False, False), (False, True), (True, False), (True, True)))
        tab_ok = v00 == 0 and v11 == (v10 | v01)
        if tab_ok:
            wh, wp = v10, v01
        else:
            wh = wp = None
    ors = [s for s in subterms(w) if isinstance(s, tuple) and s[0] == "bin" and s[1] == "BitOr"]
    ctx.check(P, rule, "writer: (len << 2) | header_bit | partial_bit", wshift is not None and (len(ors) == 2 or (tab_ok and len(ors) >= 1)) and wh is not None and wp is not None, "shift %s, header bit %s, partial bit %s" % (wshift, wh, wp),
              "build_len_and_info_header returns %s" % term_str(w)[:200])
    # the guard `if len & MASK != 0 { panic }`: the mask is whatever constant the length is tested
    # against on a branch whose non-zero side never returns
    mask = None
    lenterm = shl[2] if shl else None
    for b, o, tr, fl in bool_switches(fb, lambda o: o[0] == "bin" and o[1] in ("Eq", "Ne") and ev(ctx, o[3]) == 0 and strip(o[2])[0] == "bin" and strip(o[2])[1] == "BitAnd"):
        ba = strip(o[2])
        nonzero = fl if o[1] == "Eq" else tr
        if nonzero is None or any(fb.can_reach(nonzero, rb) for rb, _, _ in ret_assigns(fb)):
            continue
        for m_, v_ in ((ba[2], ba[3]), (ba[3], ba[2])):
            if ev(ctx, m_) is not None and lenterm is not None and term_sig(unwrap_ovf(v_)) == term_sig(unwrap_ovf(lenterm)):
                mask = ev(ctx, m_)
    ctx.check(P, rule, "writer refuses lengths beyond 30 bits", mask == (3 << 30) and wshift == 2, "length & (3<<30) != 0 panics, with shift 2", "MASK=%s shift=%s" % (mask, wshift))
    # reader
    some = [t for _, _, t in ok_returns(fv) if is_agg(agg_field(t, "0"), "Some")]
    if not need(ctx, P, rule, "validate_leader: Ok(Some(outcome))", some):
        return
    out = agg_field(agg_field(some[0], "0"), "0")
    hb, pb = agg_field(out, "header_bit"), agg_field(out, "partial_bit")
    def mask_of(t):
        m = _find(t, lambda s: s[0] == "bin" and s[1] == "BitAnd")
        if m is None:
            return None, None
        k = ev(ctx, m[3])
        cmp_ = t if t[0] == "bin" else None
        rhs = ev(ctx, cmp_[3]) if cmp_ else None
        return k, (cmp_[1], rhs) if cmp_ else None
    rh, rhc = mask_of(hb)
    rp, rpc = mask_of(pb)
    shr = None
    for s, t in fv.calls():
        for i in range(len(t["args"])):
            x = _find(fv.arg_origin(s, i), lambda s_: s_[0] == "bin" and s_[1] == "Shr")
            if x is not None:
                shr = x
    rshift = ev(ctx, shr[3]) if shr else None
    ctx.check(P, rule, "reader and writer agree on the length shift", rshift == wshift == 2, "length = combined >> 2", "reader shifts by %s, writer by %s" % (rshift, wshift), key="C06|C06.R3|leader length shift")
    ctx.check(P, rule, "reader and writer agree on the header bit", rh == wh == 1 and rhc in (("Eq", 1), ("Ne", 0)), "header bit = bit 0", "reader masks header bit with %s (%s), writer sets %s" % (rh, rhc, wh), key="C06|C06.R3|leader header bit")
    ctx.check(P, rule, "reader and writer agree on the partial bit", rp == wp == 2 and rpc in (("Eq", 2), ("Ne", 0)), "partial bit = bit 1", "reader masks partial bit with %s (%s), writer sets %s" % (rp, rpc, wp), key="C06|C06.R3|leader partial bit")
    # both fields come from the second fixed-width u32 of the leader, the checksum from the first
    decs = [s for s, t in fv.calls() if t.get("callee") == CE + "::decode" and "FixedWidthUint<'_, u32>" in (t.get("callee_full") or "")]
    decs.sort()
    good = len(decs) == 2 and decs[0] < decs[1] and fv.dominates(decs[0], decs[1]) and strip(fv.arg_origin(decs[0], 0)) == ("param", "buffer") and term_has_call(fv.arg_origin(decs[1], 0), CE + "::decode") == decs[0]
    ctx.check(P, rule, "reader: leader = u32le checksum then u32le length/flags", good, "two fixed-width u32 reads, second from the rest of the first", "leader is not read as two consecutive fixed-width u32 values")
    if good:
        ctx.check(P, rule, "reader: flags come from the second word", term_has_call(hb, CE + "::decode") == decs[1] and shr is not None and term_has_call(shr, CE + "::decode") == decs[1], "combined = second word", "length/flags are not taken from the second leader word")
        hs = sites(fv, "crc32fast::hash")
        if need(ctx, P, rule, "validate_leader: crc32fast::hash", hs):
            rng = _find(fv.arg_origin(hs[0], 0), lambda s: s[0] == "agg" and s[1].endswith("Range"))
            okr = False
            if rng is not None:
                d = dict(rng[3])
                l_ = lin(ctx, d.get("end"))
                okr = ev(ctx, d.get("start")) == crc and l_ is not None and l_.get(1) == leader and len([k for k in l_ if k != 1]) == 1 and shr is not None and term_has_call(d.get("end"), "std::convert::TryFrom::try_from") is not None
            ctx.check(P, rule, "reader: checksum covers bytes [CRC_SIZE, LEADER_SIZE+len)", okr and strip(fv.arg_origin(hs[0], 0))[3][0] == ("param", "buffer") if strip(fv.arg_origin(hs[0], 0))[0] == "call" else False,
                      "crc32(buffer[4..8+len])", "checksum range is %s" % term_str(rng)[:160] if rng else "no range")
            cmp_ = [o for b, o, tr, fl in bool_switches(fv, lambda o: o[0] == "bin" and o[1] in ("Ne", "Eq") and term_has_call(o, "crc32fast::hash") == hs[0])]
            ctx.check(P, rule, "reader: computed checksum compared with the first word", bool(cmp_) and term_has_call(cmp_[0], CE + "::decode") is not None and any(
                isinstance(x, tuple) and len(x) == 4 and x[0] == "call" and x[1] == decs[0] for side in (cmp_[0][2], cmp_[0][3]) if term_has_call(side, "crc32fast::hash") is None for x in subterms(side)),
                      "calculated != stored (first word)", "checksum comparison does not use the stored first word")
    # writer checksum: update(len_and_meta_zone) then update(data); stored in crc_zone
    ups = sites(fw, "crc32fast::Hasher::update")
    ups.sort(key=lambda s: len(fw.dom[s]))
    good = len(ups) == 2 and strip(fw.arg_origin(ups[0], 1)) == ("param", "len_and_meta_zone") and strip(fw.arg_origin(ups[1], 1)) == ("param", "data") and fw.dominates(ups[0], ups[1])
    ctx.check(P, rule, "writer: checksum covers length/flags word then data", good, "hasher.update(len_and_meta); hasher.update(data)", "writer's checksum input order differs")
    encs = [s for s, t in fw.calls() if t.get("callee") == CE + "::encode"]
    dest = {}
    for s in encs:
        src = fw.arg_origin(s, 0)
        to = strip(fw.arg_origin(s, 1))
        dest["crc" if term_has_call(src, "crc32fast::Hasher::finalize") is not None else "len"] = to
    ctx.check(P, rule, "writer: checksum into the crc zone, length/flags into the meta zone", dest.get("crc") == ("param", "crc_zone") and dest.get("len") == ("param", "len_and_meta_zone") and fw.dominates(encs[0], ups[0]),
              "len word written before hashing, crc written last", "writer zones: %s" % {k: term_str(v) for k, v in dest.items()})
    lw = sites(fw, BUILD_LEN)
    ctx.check(P, rule, "writer: length field is the data length", bool(lw) and strip(fw.arg_origin(lw[0], 0)) == ("len", ("param", "data")), "build_len_and_info_header(data.len(), ..)", "length argument is not data.len()")
    # encode_with_leader: zones
    ws = sites(fe, WRITE_LEADER)
    if need(ctx, P, rule, "encode_with_leader: write_leader_parts call", ws):
        a = [fe.arg_origin(ws[0], i) for i in range(5)]
        sp = sites(fe, "compact_encoding::get_slices_mut_checked")
        split_leader = [s for s in sp if ev(ctx, fe.arg_origin(s, 1)) == crc]
        tk = sites(fe, "compact_encoding::take_array_mut")
        n_leader = int(fe.blocks[tk[0]].term["gargs"][0]) if tk and fe.blocks[tk[0]].term["gargs"][0].isdigit() else None
        good = (strip(a[0]) == ("param", "header_bit") and strip(a[1]) == ("param", "partial_bit") and split_leader and n_leader == leader
                and term_str(a[2]).endswith(".0))") and term_has_call(a[2], "compact_encoding::get_slices_mut_checked") == split_leader[0]
                and term_str(a[3]).endswith(".1))") and term_has_call(a[3], "compact_encoding::get_slices_mut_checked") == split_leader[0])
        ctx.check(P, rule, "encode_with_leader: 8 leader bytes split 4/4 into crc and meta zones", good, "take_array_mut::<8>, split at CRC_SIZE, (.0 -> crc, .1 -> meta)", "leader zones are wired differently: %s" % [term_str(x)[:60] for x in a[:4]])
        en = [s for s, t in fe.calls() if t.get("callee") == CE + "::encode"]
        good2 = bool(en) and strip(fe.arg_origin(en[0], 0)) == ("param", "thing") and strip(a[4]) == strip(fe.arg_origin(en[0], 1)) and fe.dominates(en[0], ws[0])
        ctx.check(P, rule, "encode_with_leader: checksum is computed over the encoded payload", good2, "thing.encode(data_buff) then write_leader_parts(.., data_buff)", "leader is computed over a buffer other than the encoded payload, or before encoding")


def r4(ctx):
    rule = "C06.R4"
    hs = const_lookup(ctx, "oplog::HEADER_SIZE")
    a = ctx.crate.adts.get("oplog::OplogSlot")
    if not need(ctx, P, rule, "enum OplogSlot", a):
        return
    d = {v["name"]: v.get("discr") for v in a["variants"]}
    ctx.check(P, rule, "slot table: headers at 0 and 4096, entries from 8192", hs == 4096 and d == {"FirstHeader": 0, "SecondHeader": 4096, "Entries": 8192}, "HEADER_SIZE=4096; slots 0 / 4096 / 8192",
              "HEADER_SIZE=%s, OplogSlot=%s" % (hs, d), key="C06|C06.R4|slot table")
    fo = ctx.fn(OPLOG_OPEN)
    if need(ctx, P, rule, OPLOG_OPEN, fo):
        gets = [s for s, t in fo.calls() if (t.get("callee") or "").endswith("<impl [T]>::get")]
        ranges = []
        for s in gets:
            r = strip(fo.arg_origin(s, 1))
            if is_agg(r) and r[1].endswith("Range"):
                dd = dict(r[3])
                ranges.append((ev(ctx, dd["start"]), ev(ctx, dd["end"])))
        ctx.check(P, rule, "open reads header slots [0,4096) and [4096,8192)", sorted(ranges) == [(0, 4096), (4096, 8192)], "both header slots sliced at the table offsets", "header slot ranges read: %s" % ranges, key="C06|C06.R4|open slot ranges")
        gs = sites(fo, "compact_encoding::get_slices_checked")
        ctx.check(P, rule, "open reads entries from byte 8192", bool(gs) and ev(ctx, fo.arg_origin(gs[0], 1)) == 8192, "entries start at OplogSlot::Entries", "entries offset is %s" % (term_str(fo.arg_origin(gs[0], 1)) if gs else None))
        vl = sites(fo, VALIDATE_LEADER)
        hdr_vl = [s for s in vl if not any(s in body for _, body, _ in fo.loops())]
        good = len(hdr_vl) == 2 and all(term_has_call(fo.arg_origin(s, 0), fo.blocks[gets[0]].term["callee"]) is not None for s in hdr_vl) if gets else False
        ctx.check(P, rule, "each header slot is validated from its own slice", good, "validate_leader(h1), validate_leader(h2)", "header validation does not take the two slot slices")
    fa = ctx.fn(APPEND_ENTRIES)
    if need(ctx, P, rule, APPEND_ENTRIES, fa):
        nc = sites(fa, SI_CONTENT)
        good = False
        if nc:
            l_ = lin(ctx, fa.arg_origin(nc[0], 1))
            good = l_ == {1: 8192, "self.entries_byte_length": 1}
            st = strip(fa.arg_origin(nc[0], 0))
            good = good and is_agg(st, "Oplog")
        ctx.check(P, rule, "entries are appended at 8192 + entries_byte_length of the oplog store", good, "new_content(Store::Oplog, Entries + self.entries_byte_length, ..)", "append offset is %s" % (term_str(fa.arg_origin(nc[0], 1))[:120] if nc else None), key="C06|C06.R4|append offset")
        # bookkeeping: byte length grows by the bytes written
        ws = [(b, si) for b, si in assign_sites(fa, "self.entries_byte_length")]
        good = False
        if ws and nc:
            v = lin(ctx, fa.origin_rvalue(fa.blocks[ws[0][0]].stmts[ws[0][1]]["rv"], ws[0][0], ws[0][1]))
            buf = fa.arg_origin(nc[0], 2)
            al = [s for s in sites_any(fa, ("std::vec::from_elem",))]
            sz = lin(ctx, fa.arg_origin(al[0], 1)) if al else None
            if v is not None and sz is not None:
                inc = dict(v)
                inc["self.entries_byte_length"] = inc.get("self.entries_byte_length", 0) - 1
                inc = {k: c for k, c in inc.items() if c != 0}
                good = inc == {k: c for k, c in sz.items() if c != 0} and term_has_call(buf, "std::vec::from_elem") == al[0]
        ctx.check(P, rule, "entries_byte_length advances by the size of the batch", good, "entries_byte_length += size", "entries_byte_length update is %s" % (v if ws else None))
    fi = ctx.fn(INSERT_HEADER)
    if need(ctx, P, rule, INSERT_HEADER, fi):
        nt = sites(fi, SI_TRUNC)
        good = bool(nt) and lin(ctx, fi.arg_origin(nt[0], 1)) == {1: 8192, "entries_byte_length": 1}
        ctx.check(P, rule, "flush truncates the log at 8192 + entries_byte_length", good, "new_truncate(Store::Oplog, Entries + entries_byte_length)", "truncate offset is %s" % (term_str(fi.arg_origin(nt[0], 1))[:100] if nt else None))
        nc = sites(fi, SI_CONTENT)
        if nc:
            o = fi.arg_origin(nc[0], 1)
            ctx.check(P, rule, "header is written at the slot chosen by the rotation", term_has_call(o, NEXT_SLOT) is not None, "offset = discriminant of the slot from get_next_header_oplog_slot_and_bit_value", "header offset is %s" % term_str(o)[:100])


def _indexed_reader(ctx, prop, rule, fd, words):
    # from_data: word index relative to the page start
    idxs = []
    for b in fd.live():
        for si, st in enumerate(b.stmts):
            if st["k"] == "assign" and st["place"]["p"] and any(isinstance(e, dict) and "i" in e for e in st["place"]["p"]) and fd.body.local_ty(st["place"]["l"]).startswith("[u32;"):
                e = [e for e in st["place"]["p"] if isinstance(e, dict) and "i" in e][0]
                idxs.append((b.i, si, fd.origin_local(e["i"], b.i, si)))
    if need(ctx, prop, rule, "FixedBitfield::from_data: store into the word array", idxs):
        b_, si_, it = idxs[0]
        l_ = lin(ctx, it)
        dep = None if l_ is None else l_.get("data_index", 0)
        ctx.check(prop, rule, "reader: words are stored relative to the page start", l_ is not None and dep == 0,
                  "word index does not grow with data_index (%s)" % ({str(k): str(v) for k, v in l_.items()} if l_ else None),
                  "FixedBitfield::from_data stores word `%s`: the index grows with the absolute byte offset `data_index`, so for any page but the first it lies outside the %s-word page (panic) or fills the wrong words" % (
                      term_str(it)[:80], const_lookup(ctx, "bitfield::fixed::FIXED_BITFIELD_LENGTH")), [loc(fd, b_, si_)], key="%s|%s|FixedBitfield::from_data|word index absolute" % (prop, rule))
        # little endian
        v = fd.origin_rvalue(fd.blocks[b_].stmts[si_]["rv"], b_, si_)
        pairs = set()
        for s in subterms(v):
            if isinstance(s, tuple) and s[0] == "bin" and s[1] == "Shl":
                sh = ev(ctx, s[3])
                ix = _find(s[2], lambda q: q[0] == "index")
                if ix is not None:
                    li = lin(ctx, ix[2])
                    base = lin(ctx, strip(_find(v, lambda q: q[0] == "index")[2]))
                    pairs.add((sh, str(li.get(1, 0)) if li else None))
        first = _find(v, lambda q: q[0] == "index")
        le_ok = {p[0] for p in pairs} == {8, 16, 24} and {p[1] for p in pairs} == {"1", "2", "3"} and all(int(p[1]) * 8 == p[0] for p in pairs)
        le_how = "byte k shifted by 8k"
        if not pairs:
            # the same word spelled u32::from_le_bytes([data[i], data[i + 1], data[i + 2], data[i + 3]])
            fl = _find(v, lambda q: q[0] == "call" and len(q) == 4 and q[2].split("::")[-1] == "from_le_bytes" and "u32" in q[2])
            arr = strip(fl[3][0]) if fl is not None and fl[3] else None
            if arr is not None and is_agg(arr) and arr[1] == "array" and len(arr[3]) == 4:
                offs = []
                for _, el in arr[3]:
                    el = strip(el)
                    li = lin(ctx, el[2]) if el[0] == "index" and strip(el[1]) == ("param", "data") else None
                    offs.append(li)
                if all(o is not None for o in offs):
                    rel = [{k_: o.get(k_, 0) - offs[0].get(k_, 0) for k_ in set(o) | set(offs[0])} for o in offs]
                    le_ok = all(all(v_ == 0 for k_, v_ in r_.items() if k_ != 1) and r_.get(1, 0) == n_ for n_, r_ in enumerate(rel))
                    le_how = "u32::from_le_bytes over data[i], data[i+1], data[i+2], data[i+3] in order"
                    pairs = {("from_le_bytes", str([str(r_.get(1, 0)) for r_ in rel]))}
        ctx.check(prop, rule, "reader: u32 words are little-endian", le_ok,
                  le_how, "byte/shift pairs are %s" % sorted(pairs))
    # trip count of the reader's word loop for a full page == words per page
    trip = None
    detail = "no affine word loop found"
    for h, body, _ in fd.loops():
        for b, o, tr, fl in bool_switches(fd, lambda o: o[0] == "bin" and o[1] == "Lt"):
            if b not in body:
                continue
            # canonical test Lt(x, y): the loop continues either while x < y (true edge stays in the
            # loop) or while y <= x (false edge stays)
            if tr in body and fl not in body:
                op, lhs, rhs = "Lt", o[2], o[3]
            elif fl in body and tr not in body:
                op, lhs, rhs = "Le", o[3], o[2]
            else:
                continue
            li = lin(ctx, lhs)
            if li is None or "<loop>" not in li:
                continue
            init = {k: v for k, v in li.items() if k != "<loop>"}
            # bound with min(a, len) resolved to its first argument (a complete page is available)
            def full(t_):
                t_ = unwrap_ovf(t_)
                if isinstance(t_, tuple) and t_[0] == "call" and t_[2].split("::")[-1] == "min":
                    return full(t_[3][0])
                if isinstance(t_, tuple) and t_[0] == "bin":
                    return ("bin", t_[1], full(t_[2]), full(t_[3]))
                return t_
            lb = lin(ctx, full(rhs))
            if lb is None:
                continue
            diff = dict(lb)
            for k, v in init.items():
                diff[k] = diff.get(k, 0) - v
            diff = {k: v for k, v in diff.items() if v != 0}
            if set(diff) <= {1}:
                span = diff.get(1, 0)
                step = None
                for st_b in body:
                    for st in fd.blocks[st_b].stmts:
                        if st["k"] == "assign" and st["rv"]["k"] == "bin" and st["rv"]["op"].startswith("Add") and named_local(fd, st["rv"]["l"], st_b, 0) == named_local(fd, {"c": {"l": 0, "p": []}}, 0, 0):
                            pass
                # step: the literal added to the loop variable
                lv = unwrap_ovf(lhs)
                steps = [ev(ctx, x[3]) for x in subterms(lv) if isinstance(x, tuple) and x[0] == "bin" and x[1] == "Add" and ev(ctx, x[3]) is not None and contains(x[2], lambda q: isinstance(q, tuple) and q and q[0] == "cycle")]
                if steps:
                    step = steps[0]
                    from math import ceil, floor
                    trip = int(floor(span / step)) + 1 if op == "Le" else int(ceil(span / step))
                    detail = "for a complete page: i from page start, step %s, while i %s start + %s => %s iterations" % (step, "<=" if op == "Le" else "<", span, trip)
    if trip is None and idxs:
        # the word loop written over a range: for i in (start..=limit).step_by(4) / (start..end).step_by(4)
        from .c09 import _range_of
        for x_ in subterms(idxs[0][2]):
            r_ = _range_of(x_) if isinstance(x_, tuple) and x_ and x_[0] in ("some", "call") else None
            if r_ is None:
                continue
            st_, en_, incl, stp = r_
            def full(t_):
                t_ = unwrap_ovf(t_)
                if isinstance(t_, tuple) and t_[0] == "call" and t_[2].split("::")[-1] == "min":
                    return full(t_[3][0])
                if isinstance(t_, tuple) and t_[0] == "bin":
                    return ("bin", t_[1], full(t_[2]), full(t_[3]))
                return t_
            ls, le, sv = lin(ctx, st_), lin(ctx, full(en_)), ev(ctx, stp)
            if ls is not None and le is not None and sv:
                diff = {k_: le.get(k_, 0) - ls.get(k_, 0) for k_ in set(le) | set(ls)}
                if all(v_ == 0 for k_, v_ in diff.items() if k_ != 1):
                    from math import ceil, floor
                    span = diff.get(1, 0)
                    trip = int(floor(span / sv)) + 1 if incl else int(ceil(span / sv))
                    detail = "for a complete page: i over start..%s start + %s step %s => %s iterations" % ("=" if incl else "", span, sv, trip)
                    break
    ctx.check(prop, rule, "reader: a complete page yields all %s words" % words, trip == words, detail,
              "FixedBitfield::from_data reads %s words of a complete page (%s) but a page holds %s: the last word(s) of every reloaded page stay zero" % (trip, detail, words), key="%s|%s|FixedBitfield::from_data|word loop trip count" % (prop, rule))


def _chunked_reader(ctx, fd, page, words):
    """the page decode written with chunks: data[data_index..min(data_index+PAGE, len)].chunks_exact(4)
    zipped with the words of the page array, each word = u32::from_le_bytes(chunk).  Returns
    (relative, little_endian, chunks of a complete page, description) or None if the reader is not
    of this form."""
    fl = [s_ for s_, t_ in fd.calls() if (t_.get("callee") or "").split("::")[-1] == "from_le_bytes"]
    if len(fl) != 1:
        return None
    arg = strip(fd.arg_origin(fl[0], 0))
    zips = [x for x in subterms(arg) if isinstance(x, tuple) and len(x) == 4 and x[0] == "call" and x[2].split("::")[-1] == "zip"]
    if not zips:
        return None
    z = zips[0]
    parts = [strip(a_) for a_ in z[3]]
    chunk_side = [i for i, a_ in enumerate(parts) if a_[0] == "call" and a_[2].split("::")[-1] == "chunks_exact"]
    word_side = [i for i, a_ in enumerate(parts) if a_[0] == "call" and a_[2].split("::")[-1] in ("iter_mut",)]
    if len(chunk_side) != 1 or len(word_side) != 1:
        return None
    ce = parts[chunk_side[0]]
    n = ev(ctx, ce[3][1])
    src = strip(ce[3][0])
    rel = False
    full = None
    det = "chunks_exact(%s, %s) zip %s" % (term_sig(src)[:70], n, term_sig(parts[word_side[0]])[:30])
    if src[0] == "call" and src[2].split("::")[-1] == "index" and len(src[3]) == 2 and strip(src[3][0]) == ("param", "data") and is_agg(src[3][1]):
        rng = src[3][1]
        d_ = dict(rng[3])
        st_, en_ = d_.get("start"), d_.get("end")
        if st_ is not None and strip(st_) == ("param", "data_index"):
            rel = True
            if en_ is None:
                full = None
            else:
                e_ = unwrap_ovf(strip(en_))
                if e_[0] == "call" and e_[2].split("::")[-1] == "min":
                    for a_ in e_[3]:
                        la = lin(ctx, a_)
                        if la is not None and la.get("data_index") == 1 and set(la) <= {"data_index", 1}:
                            full = int(la.get(1, 0))
    # the word array is the [u32; words] local, visited from its first element
    wa = strip(parts[word_side[0]][3][0])
    rel = rel and (wa[0] == "repeat" and str(wa[2]) == str(words))
    # the store writes through the word side of the zipped pair, the bytes come from the chunk side
    stored = False
    for b_ in fd.live():
        for si_, st in enumerate(b_.stmts):
            if st["k"] == "assign" and st["place"]["p"] == ["*"] and term_has_call(fd.origin_rvalue(st["rv"], b_.i, si_), fd.blocks[fl[0]].term.get("callee")) == fl[0]:
                stored = True
    nx = [x for x in subterms(arg) if isinstance(x, tuple) and len(x) == 4 and x[0] == "call" and x[2].split("::")[-1] == "next" and x[3] and strip(x[3][0]) == z]
    every = bool(nx) and every_element_reaches(fd, nx[0][1], fl[0])
    # little endian: from_le_bytes over [chunk[0], chunk[1], chunk[2], chunk[3]] or over the chunk itself
    le = False
    if is_agg(arg) and arg[1] == "array" and len(arg[3]) == 4:
        ks = []
        for _, el in arg[3]:
            el = strip(el)
            ks.append(ev(ctx, el[2]) if el[0] == "index" else None)
        le = ks == [0, 1, 2, 3]
    elif "try_into" in term_sig(arg) or "try_from" in term_sig(arg):
        le = True
    trip = (full // n) if (full is not None and n) else None
    return rel and stored and every and n == 4, le, trip, det


def r5(ctx, prop=P, rule="C06.R5"):
    page = const_lookup(ctx, "bitfield::fixed::FIXED_BITFIELD_BYTES_LENGTH")
    ff, fo, fd, ft = ctx.fn(BF_FLUSH), ctx.fn(BF_OPEN), ctx.fn(FB_FROM_DATA), ctx.fn(FB_TO_BYTES)
    if not all(need(ctx, prop, rule, n, f) for n, f in ((BF_FLUSH, ff), (BF_OPEN, fo), (FB_FROM_DATA, fd), (FB_TO_BYTES, ft))):
        return
    ctx.check(prop, rule, "a bitfield page is 4096 bytes", page == 4096, "FIXED_BITFIELD_BYTES_LENGTH = 4096", "FIXED_BITFIELD_BYTES_LENGTH = %s" % page)
    # writer: to_bytes builds a [u8; page] ; offset = id * len(to_bytes())
    arr = [l for l in ft.body.locals if l["ty"] == "[u8; %s]" % page]
    ctx.check(prop, rule, "writer: to_bytes serialises a whole page", bool(arr), "[u8; 4096] buffer", "to_bytes does not build a [u8; %s] buffer" % page)
    nc = sites(ff, SI_CONTENT)
    good = False
    if nc:
        o = unwrap_ovf(ff.arg_origin(nc[0], 1))
        good = o[0] == "bin" and o[1] == "Mul" and term_has_call(o, FB_TO_BYTES) is not None and any(isinstance(x, tuple) and x[0] == "len" for x in subterms(o))
    ctx.check(prop, rule, "writer: page offset = page id x page byte length", good, "unflushed_id * to_bytes().len()", "flush offset is %s" % (term_str(ff.arg_origin(nc[0], 1))[:120] if nc else None))
    # reader: stride and divisor
    # name-free: the byte offset handed to FixedBitfield::from_data is an arithmetic progression
    # (a counter `+= S` or `(0..len).step_by(S)`); the page id under which the page is stored is that
    # offset divided by D
    strides, divisors = [], []
    fds = sites(fo, FB_FROM_DATA)
    off = fo.arg_origin(fds[0], 0) if fds else None
    st_ = stride_of(off) if off is not None else None
    if st_ is not None and term_is_lit(st_[0], 0):
        strides.append((ev(ctx, st_[1]), term_str(st_[1])))
    for s_, t_ in fo.calls():
        if (t_.get("callee") or "").endswith("::insert") and "IntMap" in (t_.get("callee") or "") and len(t_["args"]) == 3:
            kterm = unwrap_ovf(strip(fo.arg_origin(s_, 1)))
            if kterm[0] == "bin" and kterm[1] == "Div" and off is not None and term_sig(unwrap_ovf(kterm[2])) == term_sig(unwrap_ovf(off)):
                divisors.append((ev(ctx, kterm[3]), term_str(kterm[3])))
    if not (need(ctx, prop, rule, "DynamicBitfield::open: stride of the page byte offset", strides) and need(ctx, prop, rule, "DynamicBitfield::open: page index divisor", divisors)):
        return
    ctx.check(prop, rule, "reader: pages are read at the writer's stride", all(v == page for v, _ in strides) and all(v == page for v, _ in divisors),
              "stride = divisor = %s bytes" % page,
              "DynamicBitfield::open advances `data_index` (a byte offset) by %s and derives the page id by dividing by %s, but DynamicBitfield::flush writes pages %s bytes apart: with more than one page, pages are loaded from the wrong bytes" % (
                  [t for _, t in strides], [t for _, t in divisors], page), [loc(fo, 0)], key="%s|%s|DynamicBitfield::open|page stride" % (prop, rule))
    words = const_lookup(ctx, "bitfield::fixed::FIXED_BITFIELD_LENGTH")
    ch = _chunked_reader(ctx, fd, page, words)
    if ch is not None:
        ok_rel, ok_le, trip_, det_ = ch
        ctx.check(prop, rule, "reader: words are stored relative to the page start", ok_rel, "word k of the page array receives chunk k of data[data_index..]: " + det_,
                  "chunked reader does not pair chunk k of the page bytes with word k of the page array (%s)" % det_, key="%s|%s|FixedBitfield::from_data|word index absolute" % (prop, rule))
        ctx.check(prop, rule, "reader: u32 words are little-endian", ok_le, "u32::from_le_bytes over the 4 bytes of a chunk in order", "chunk bytes are not combined little-endian (%s)" % det_)
        ctx.check(prop, rule, "reader: a complete page yields all %s words" % words, trip_ == words, "chunks_exact(4) over a complete page: %s chunks" % trip_,
                  "FixedBitfield::from_data reads %s words of a complete page (%s) but a page holds %s: the last word(s) of every reloaded page stay zero" % (trip_, det_, words), key="%s|%s|FixedBitfield::from_data|word loop trip count" % (prop, rule))
    else:
        _indexed_reader(ctx, prop, rule, fd, words)
    les = [s for s, t in ft.calls() if (t.get("callee") or "").endswith("::to_le_bytes")]
    ctx.check(prop, rule, "writer: u32 words are little-endian", bool(les), "to_le_bytes", "to_bytes does not use to_le_bytes")
    # open requests the whole store, multiples of 4
    return


def r6(ctx, prop=P, rule="C06.R6"):
    node_size = const_lookup(ctx, "tree::merkle_tree::NODE_SIZE")
    ctx.check(prop, rule, "a tree record is 40 bytes", node_size == 40, "NODE_SIZE = 40 = 8 + 32", "NODE_SIZE = %s" % node_size)
    n = 0
    for fa in ctx.all_fas():
        for s, t in fa.calls():
            c = callee_of(t)
            if not (c.startswith(SI + "::new_") or c.startswith(SII + "::new_")):
                continue
            st = strip(fa.arg_origin(s, 0))
            if not is_agg(st, "Tree"):
                continue
            n += 1
            off = fa.arg_origin(s, 1)
            l_ = lin(ctx, off)
            fn = fn_of(fa.body.name).split("::")[-1]
            if c.endswith("new_truncate"):
                # (truncate_to - 1) * 80 + 40  == 2*(t-1) nodes + 1 ... or literal 0
                rs = roots(off)
                good = True
                for r in rs:
                    lr = lin(ctx, r)
                    good = good and lr is not None and (lr == {1: 0} or (len([k for k in lr if k != 1]) == 1 and [v for k, v in lr.items() if k != 1][0] == 2 * node_size and lr.get(1, 0) == -node_size))
                ctx.check(prop, rule, "%s: truncate offset is a whole number of records" % fn, good, "0 or (n-1)*80+40 = (2n-1) records", "tree truncate offset is %s" % term_str(off)[:120], [site_desc(fa, s)])
                continue
            good = l_ is not None and len([k for k in l_ if k != 1]) == 1 and [v for k, v in l_.items() if k != 1][0] == node_size and l_.get(1, 0) == 0
            ctx.check(prop, rule, "%s: tree offset = index x 40 @%s" % (fn, c.split("::")[-1]), good, "offset linear form %s" % ({str(k): str(v) for k, v in l_.items()} if l_ else None),
                      "tree store offset at %s is %s, not index*%s" % (loc(fa, s), term_str(off)[:100], node_size), [site_desc(fa, s)], key="%s|%s|%s|tree offset" % (prop, rule, fn_of(fa.body.name)))
            if c.startswith(SII) and len(t["args"]) > 2:
                ln = ev(ctx, fa.arg_origin(s, 2))
                ctx.check(prop, rule, "%s: tree read length = 40" % fn, ln == node_size, "length 40", "tree read length at %s is %s" % (loc(fa, s), ln), [site_desc(fa, s)])
    if ctx.crate.name == "hypercore" and n < 5:
        ctx.missing(prop, rule, "tree store offset sites", "found %d (floor 5)" % n)
    fi = ctx.fn(INDEX_FROM_INFO)
    if need(ctx, prop, rule, INDEX_FROM_INFO, fi):
        r = [t for _, _, t in ret_assigns(fi)]
        l_ = lin(ctx, r[0]) if r else None
        ctx.check(prop, rule, "index_from_info divides by the record size", l_ is not None and l_.get("info.index") is not None and 1 / l_["info.index"] == node_size, "info.index / 40", "index_from_info returns %s" % (term_str(r[0]) if r else None))
    fn_ = ctx.fn(NODE_FROM_BYTES)
    if need(ctx, prop, rule, NODE_FROM_BYTES, fn_):
        cuts = []
        for s, t in fn_.calls():
            if t.get("callee") == "std::ops::Index::index":
                r = strip(fn_.arg_origin(s, 1))
                if is_agg(r):
                    cuts.append((r[1].split("::")[-1], tuple(ev(ctx, o) for _, o in r[3])))
        ctx.check(prop, rule, "node_from_bytes splits a record at byte 8", sorted(cuts) == [("RangeFrom", (8,)), ("RangeTo", (8,))], "[..8] length, [8..] hash", "record split is %s" % cuts)
        nn = sites(fn_, "common::node::Node::new")
        if nn:
            a = [fn_.arg_origin(nn[0], i) for i in range(3)]
            good = "FixedWidthUint" in str(fn_.blocks[[s for s, t in fn_.calls() if t.get("callee") == CE + "::decode"][0]].term.get("callee_full")) and "RangeTo" in term_str(a[2]) and "RangeFrom" in term_str(a[1]) and strip(a[0]) == ("param", "index")
            ctx.check(prop, rule, "node_from_bytes: length = u64le of the first 8 bytes, hash = the rest", good, "Node::new(index, data[8..], u64le(data[..8]))", "node_from_bytes builds Node::new(%s)" % [term_str(x)[:60] for x in a])
    ff = None
    for b in ctx.crate.group(MT_FLUSH_NODES):
        fa = ctx.fa(b)
        if any((t.get("callee") or "").endswith("as_fixed_width") for _, t in fa.calls()):
            ff = fa
    if need(ctx, prop, rule, "flush_nodes: record encoder", ff):
        es = [(s, t) for s, t in ff.calls() if t.get("callee") == CE + "::encode"]
        order = sorted(es, key=lambda x: len(ff.dom[x[0]]))
        shapes = []
        for s, t in order:
            shapes.append(classify_type(self_type_of(t.get("callee_full")) or "?", {}))
        srcs = [term_str(ff.arg_origin(s, 0)) for s, t in order]
        ctx.check(prop, rule, "flush_nodes writes [u64le length][32-byte hash]", shapes == [("fixedle", 8), ("fixed", 32)] and "length" in srcs[0] and "hash" in srcs[1], "8 + 32 bytes: length then hash",
                  "flush_nodes record is %s from %s" % (shapes, [x[:50] for x in srcs]), key="%s|%s|flush_nodes|record layout" % (prop, rule))


def r7(ctx):
    rule = "C06.R7"
    fa = ctx.fn(APPEND_ENTRIES)
    if not need(ctx, P, rule, APPEND_ENTRIES, fa):
        return
    es = sites(fa, ENC_LEADER)
    if not need(ctx, P, rule, "append_entries: encode_with_leader", es):
        return
    # the batch written as `if let Some((last, init)) = batch.split_last()`: every entry of `init` gets
    # partial = atomic, the last entry partial = false — the same bits as `atomic && i < len - 1`
    split_ok = False
    if len(es) == 2:
        inl = [s for s in es if any(s in body for _, body, _ in fa.loops())]
        out = [s for s in es if s not in inl]
        if len(inl) == 1 and len(out) == 1:
            e_in, e_out = strip(fa.arg_origin(inl[0], 0)), strip(fa.arg_origin(out[0], 0))
            def part(t_, f_):
                return t_[0] == "field" and t_[2] == f_ and strip(t_[1])[0] == "call" and strip(t_[1])[2].split("::")[-1] == "split_last" and strip(strip(t_[1])[3][0]) == ("param", "batch")
            in_init = e_in[0] == "call" and e_in[2].split("::")[-1] == "next" and e_in[3] and part(strip(e_in[3][0]), "1")
            split_ok = in_init and part(e_out, "0") and strip(fa.arg_origin(inl[0], 1)) == ("param", "atomic") and term_is_lit(fa.arg_origin(out[0], 1), 0) \
                and fa.can_reach(inl[0], out[0]) and not fa.can_reach(out[0], inl[0])
    for s in es:
        hb = fa.arg_origin(s, 2)
        ctx.check(P, rule, "entries carry the current header bit", term_has_call(hb, CUR_HDR_BIT) is not None and strip(hb)[0] == "call", "header_bit = self.get_current_header_bit()", "entry header bit is %s" % term_str(hb)[:80], [site_desc(fa, s)],
                  key="C06|C06.R7|append_entries|header bit")
        pb = unwrap_ovf(fa.arg_origin(s, 1))
        rs = roots(pb)
        lt = [r for r in rs if r[0] == "bin" and r[1] == "Lt" and "len(batch)" in term_str(r)]
        at = [tr for _, o, tr, fl in bool_switches(fa, lambda o: strip(o) == ("param", "atomic"))]
        lt_blocks = [b.i for b in fa.live() for st in b.stmts if st["k"] == "assign" and st["rv"]["k"] == "bin" and st["rv"]["op"] == "Lt"]
        good = len(rs) == 2 and lt and any(term_is_lit(r, 0) for r in rs) and at and any(fa.dominates(at[0], x) for x in lt_blocks)
        ctx.check(P, rule, "only non-final entries of an atomic batch are partial", good or split_ok, "partial = atomic && i < len-1", "partial bit is %s" % term_str(pb)[:80])
    fc = ctx.fn(CUR_HDR_BIT)
    if need(ctx, P, rule, CUR_HDR_BIT, fc):
        r = [t for _, _, t in ret_assigns(fc)]
        good = r and r[0][0] == "bin" and r[0][1] == "Ne" and "header_bits" in term_str(r[0]) and {ev(ctx, x[2]) for x in subterms(r[0]) if isinstance(x, tuple) and x[0] == "index"} == {0, 1}
        ctx.check(P, rule, "current header bit = header_bits[0] != header_bits[1]", good, "bits differ -> 1", "get_current_header_bit returns %s" % (term_str(r[0]) if r else None))
    fi = ctx.fn(INSERT_HEADER)
    if need(ctx, P, rule, INSERT_HEADER, fi):
        es = sites(fi, ENC_LEADER)
        if es:
            hb, pb = fi.arg_origin(es[0], 2), fi.arg_origin(es[0], 1)
            ctx.check(P, rule, "header slot carries the rotated bit and is never partial", term_has_call(hb, NEXT_SLOT) is not None and term_is_lit(pb, 0), "bit from get_next_header_oplog_slot_and_bit_value, partial=false", "header leader bits: %s / %s" % (term_str(hb)[:60], term_str(pb)))
    fo = ctx.fn(OPLOG_OPEN)
    if need(ctx, P, rule, OPLOG_OPEN, fo):
        # header choice by the two bits: equal -> slot 1, different -> slot 2
        sw = [x for x in bool_switches(fo, lambda o: o[0] == "bin" and o[1] in ("Eq", "Ne") and term_str(o).count("header_bit") >= 2)]
        good = False
        if sw:
            b, o, tr, fl = sw[0]
            same, diff = (tr, fl) if o[1] == "Eq" else (fl, tr)
            dec = [s for s, t in fo.calls() if (t.get("resolved") or "").endswith("Header as compact_encoding::CompactEncoding>::decode")]
            d_same = [s for s in dec if fo.dominates(same, s)]
            d_diff = [s for s in dec if fo.dominates(diff, s)]
            vls = sorted(s for s in sites(fo, VALIDATE_LEADER) if not any(s in body for _, body, _ in fo.loops()))
            if d_same and d_diff and len(vls) == 2:
                good = term_has_call(fo.arg_origin(d_same[0], 0), VALIDATE_LEADER) == vls[0] and term_has_call(fo.arg_origin(d_diff[0], 0), VALIDATE_LEADER) == vls[1]
            elif len(vls) == 2:
                # one decode after the choice: `let state = if bits equal { h1.state } else { h2.state }`
                for d in dec:
                    picks = {}
                    for t_, db_ in guarded_values(fo, fo.blocks[d].term["args"][0]):
                        if db_ is None:
                            continue
                        which = term_has_call(t_, VALIDATE_LEADER)
                        if fo.dominates(same, db_) and not fo.dominates(diff, db_):
                            picks["same"] = which
                        elif fo.dominates(diff, db_) and not fo.dominates(same, db_):
                            picks["diff"] = which
                    if picks == {"same": vls[0], "diff": vls[1]}:
                        good = True
        ctx.check(P, rule, "open chooses slot 1 when the bits are equal, slot 2 otherwise", good, "equal bits -> first header, different -> second", "header choice by bits is wired differently", key="C06|C06.R7|open|slot choice")


def r7b(ctx):
    """header slots are chosen by their header bits, also when only one slot is valid (shared with C07.R5)"""
    from . import c07
    c07.r5(ctx, P, "C06.R7")


def r8(ctx):
    from . import c09, c02
    c09.loops_can_exit(ctx, P, "C06.R8", [OPLOG_OPEN])
    c02.r8c(ctx, P, "C06.R8")
    fo = ctx.fn(OPLOG_OPEN)
    if need(ctx, P, "C06.R8", OPLOG_OPEN, fo):
        vl = [s for s in sites(fo, VALIDATE_LEADER) if any(s in body for _, body, _ in fo.loops())]
        used = False
        if vl:
            for s, t in fo.calls():
                if (t.get("callee") or "").endswith("::push"):
                    o = fo.arg_origin(s, 1)
                    if "partial_bit" in term_str(o) and term_has_call(o, VALIDATE_LEADER) == vl[0]:
                        used = True
        ctx.check(P, "C06.R8", "the partial bit of every entry is recorded", used, "partials.push(entry_outcome.partial_bit)", "partial bit of entry leaders is not recorded")


def r9(ctx):
    """entries carry the header bit a reader derives from the two on-disk slots: what Oplog::flush
    remembers as header bits is what its last header write put on disk, and a trace-clearing flush
    truncates between its two header writes (the clauses of C02.R5)"""
    from . import c02
    before = len(ctx.insts)
    c02.r5(ctx)
    for i in ctx.insts[before:]:
        i.prop, i.rule = P, "C06.R9"
        i.key = i.key.replace("C02|C02.R5", "C06|C06.R9")


RULES = [r1, r2, r3, r4, r5, r6, r7, r7b, r8, r9]
EXPLANATION = ("C06 (files follow the JavaScript on-disk layout): decides agreement of sibling tables — size/encode/decode of every persisted type against the reference field order and byte shapes "
               "(R1), Entry flag bits set by the encoder vs tested by the decoder vs the table 1/2/4/8 (R2), leader bit layout of writer vs reader (shift 2, header bit 1, partial bit 2, checksum over "
               "bytes [4, 8+len), zones 4/4) (R3), slot table 0/4096/8192 and the offsets of append / truncate / header writes (R4), bitfield page stride of writer vs reader and page-relative little-endian "
               "words (R5), 40-byte tree records at index*40 with [u64le length][hash] (R6), entries carrying the current header bit and slot choice by the two bits (R7), partial-entry trimming loop able to exit (R8). R9: the header bits Oplog::flush remembers are those of its last header write, and a trace-clearing flush truncates the log between its two header writes (shared with C02.R5).")
NOT_DECIDED = "the five-step golden-hash scenario (needs execution); values of version/flag bytes inside promoted constants; equality of the state an independent reader reconstructs."
ASSUMPTIONS = ["compact_encoding primitives follow the compact-encoding spec", "reference tables frozen from the repository's own layout comments and the JS layout named in the property"]
