"""C07 — torn final write: frame validation and header slot fallback."""
from ..engine import *
from ..analysis import term_str, strip, roots, subterms, contains, callee_of, term_sig
from .names import *

P = "C07"
CE_DECODE = "compact_encoding::CompactEncoding::decode"


def r1(ctx):
    rule = "C07.R1"
    fa = ctx.fn(VALIDATE_LEADER)
    if not need(ctx, P, rule, VALIDATE_LEADER, fa):
        return
    lead = const_lookup(ctx, "oplog::LEADER_SIZE")
    short = [x for x in bool_switches(fa, lambda o: o[0] == "bin" and o[1] == "Lt" and strip(o[2]) == ("len", ("param", "buffer")) and ev(ctx, o[3]) is not None)]
    if need(ctx, P, rule, "validate_leader: buffer.len() < LEADER_SIZE", short):
        b, o, tr, fl = short[0]
        k = ev(ctx, o[3])
        vals = [t for _, _, t in ret_values_in_region(fa, tr)]
        decs = [s for s, t in fa.calls() if t.get("callee") == CE_DECODE]
        good = k == lead == 8 and vals and all(is_agg(t, "Ok") and is_agg(agg_field(t, "0"), "None") for t in vals) and decs and all(fa.dominates(fl, s) for s in decs)
        ctx.check(P, rule, "a leader shorter than 8 bytes ends the log", good, "buffer.len() < 8 => Ok(None), before any decoding", "short-leader guard: bound %s, returns %s" % (k, [term_str(v)[:30] for v in vals]), key="C07|C07.R1|short leader")
    # len == 0 || data.len() < len  => Ok(None)
    idx = [s for s, t in fa.calls() if t.get("callee") == "std::ops::Index::index"]
    hs = sites(fa, "crc32fast::hash")
    if need(ctx, P, rule, "validate_leader: payload slice and checksum", idx and hs):
        facts_ok = {"zero": False, "short": False}
        from .c09 import dominating_conditions
        for o, truth, sb in dominating_conditions(fa, idx[0]):
            s = term_sig(unwrap_ovf(o))
            if o[0] == "bin" and o[1] == "Eq" and ev(ctx, o[3]) == 0 and truth is False and "Shr" in s:
                facts_ok["zero"] = True
            if o[0] == "bin" and o[1] == "Lt" and truth is False and s.startswith("Lt(len(ok(decode(") and "Shr" in term_sig(unwrap_ovf(o[3])):
                # the bytes that follow the 8-byte leader (remainder of the second fixed-width read)
                facts_ok["short"] = True
        ctx.check(P, rule, "a zero-length or incomplete frame ends the log before it is sliced", all(facts_ok.values()), "len == 0 || data.len() < len => Ok(None) dominates buffer[4..8+len] and the checksum",
                  "payload slice at %s is not guarded by both `len != 0` and `data.len() >= len` (%s)" % (loc(fa, idx[0]), facts_ok), [site_desc(fa, idx[0])], key="C07|C07.R1|incomplete frame")
        for nm, key_ in (("zero", "Eq"), ("short", "Lt")):
            pass
        sw = [x for x in bool_switches(fa, lambda o: o[0] == "bin" and o[1] == "Lt" and "Shr" in term_sig(unwrap_ovf(o[3])) and term_sig(unwrap_ovf(o[2])).startswith("len("))]
        if sw:
            vals = [t for _, _, t in ret_values_in_region(fa, sw[0][2])]
            ctx.check(P, rule, "an incomplete frame is reported as end of log, not as an error", vals and all(is_agg(t, "Ok") and is_agg(agg_field(t, "0"), "None") for t in vals), "Ok(None)", "incomplete frame returns %s" % [term_str(v)[:40] for v in vals])


def r2(ctx):
    rule = "C07.R2"
    fa = ctx.fn(VALIDATE_LEADER)
    if not need(ctx, P, rule, VALIDATE_LEADER, fa):
        return
    hs = sites(fa, "crc32fast::hash")
    if not need(ctx, P, rule, "validate_leader: crc32fast::hash", hs):
        return
    cmp_ = [x for x in bool_switches(fa, lambda o: o[0] == "bin" and o[1] in ("Ne", "Eq") and term_has_call(o, "crc32fast::hash") == hs[0])]
    if not need(ctx, P, rule, "validate_leader: checksum comparison", cmp_):
        return
    b, o, tr, fl = cmp_[0]
    equal = fl if o[1] == "Ne" else tr
    differ = tr if o[1] == "Ne" else fl
    somes = [(bb, s, t) for bb, s, t in ok_returns(fa) if is_agg(agg_field(t, "0"), "Some")]
    ctx.check(P, rule, "a frame is accepted only when its checksum matches", somes and all(fa.dominates(equal, bb) for bb, s, t in somes), "Ok(Some(..)) only on the equal-checksum edge",
              "Ok(Some(..)) is reachable without the checksum comparison succeeding", [loc(fa, bb, s) for bb, s, t in somes], key="C07|C07.R2|checksum decides")
    vals = [t for bb, _, t in ret_assigns(fa) if fa.dominates(differ, bb)]
    ctx.check(P, rule, "a checksum mismatch never yields a frame", vals and not any(is_agg(t, "Ok") and is_agg(agg_field(t, "0"), "Some") for t in vals), "mismatch edge returns %s" % ("Err" if vals and is_agg(vals[0], "Err") else "Ok(None)"),
              "mismatch edge can return a frame")


def _header_sites(fo):
    loops = fo.loops()
    vl = sites(fo, VALIDATE_LEADER)
    return sorted(s for s in vl if not any(s in body for _, body, _ in loops)), sorted(s for s in vl if any(s in body for _, body, _ in loops))


def r3(ctx):
    rule = "C07.R3"
    fv, fo = ctx.fn(VALIDATE_LEADER), ctx.fn(OPLOG_OPEN)
    if not (need(ctx, P, rule, VALIDATE_LEADER, fv) and need(ctx, P, rule, OPLOG_OPEN, fo)):
        return
    can_err = bool(err_returns(fv)) or any(t.get("callee", "").endswith("from_residual") for _, t in fv.calls())
    hdr, ent = _header_sites(fo)
    if len(hdr) != 2:
        ctx.missing(P, rule, "Oplog::open: two header-slot validate_leader sites", "found %d" % len(hdr))
        return
    explicit_err = bool(err_returns(fv))
    for i, s in enumerate(hdr):
        c = checked(fo, s)
        straight = c is not None and err_returns_directly(fo, c["err"])[0]
        bad = explicit_err and straight
        ctx.check(P, rule, "an invalid header slot %d falls back to the other slot" % (i + 1), not bad,
                  "validate_leader %s: %s" % ("cannot fail with a checksum error" if not explicit_err else "error is handled", "slot outcome feeds the four-way selection"),
                  "validate_leader returns Err on a checksum mismatch and Oplog::open propagates that error with `?` for header slot %d (%s): a torn header write makes open fail instead of using the other slot" % (i + 1, loc(fo, s)),
                  [site_desc(fo, s)], key="C07|C07.R3|Oplog::open|header slot error propagated")
    for s in ent:
        c = checked(fo, s)
        straight = c is not None and err_returns_directly(fo, c["err"])[0]
        bad = explicit_err and straight
        ctx.check(P, rule, "a torn log entry ends the log instead of failing open", not bad, "entry validation error does not abort open",
                  "validate_leader returns Err on a checksum mismatch and the entry loop of Oplog::open propagates it with `?` (%s): a half-written entry over older bytes makes open fail instead of being ignored" % loc(fo, s),
                  [site_desc(fo, s)], key="C07|C07.R3|Oplog::open|entry error propagated")


def r4(ctx):
    rule = "C07.R4"
    fo = ctx.fn(OPLOG_OPEN)
    if not need(ctx, P, rule, OPLOG_OPEN, fo):
        return
    hdr, _ = _header_sites(fo)
    if len(hdr) != 2:
        ctx.missing(P, rule, "Oplog::open: two header-slot validate_leader sites", "found %d" % len(hdr))
        return
    def sw_on(site):
        out = []
        for b, o, tg, other in switch_edges_on(fo, lambda o: o[0] == "disc" and term_has_call(o[1], VALIDATE_LEADER) == site and not (o[1][0] in ("branch",))):
            if 1 in tg:
                out.append((b, tg[1], tg.get(0, other)))
        return out
    s1, s2 = sw_on(hdr[0]), sw_on(hdr[1])
    if not (need(ctx, P, rule, "open: match on the first slot's outcome", s1) and need(ctx, P, rule, "open: match on the second slot's outcome", s2)):
        return
    dec = [s for s, t in fo.calls() if (t.get("resolved") or "").endswith("Header as compact_encoding::CompactEncoding>::decode")]
    fresh = sites(fo, "oplog::Oplog::fresh")
    some1, none1 = s1[0][1], s1[0][2]
    both = [x for x in s2 if fo.dominates(some1, x[0])]
    only2 = [x for x in s2 if fo.dominates(none1, x[0])]
    ok_both = bool(both) and any(fo.dominates(both[0][1], d) for d in dec)
    ok_only1 = bool(both) and any(fo.dominates(both[0][2], d) and term_has_call(fo.arg_origin(d, 0), VALIDATE_LEADER) == hdr[0] for d in dec)
    ok_only2 = bool(only2) and any(fo.dominates(only2[0][1], d) and term_has_call(fo.arg_origin(d, 0), VALIDATE_LEADER) == hdr[1] for d in dec)
    none_region = only2[0][2] if only2 else None
    # the EmptyStorage error is built inside the (None, None) region and is what an error return carries
    # (it may travel through a helper's `?` before it reaches this function's return)
    built = [b_.i for b_ in fo.live() for st in b_.stmts if st["k"] == "assign" and st["rv"]["k"] == "agg" and st["rv"].get("variant") == "EmptyStorage"]
    ok_none = none_region is not None and (any(fo.dominates(none_region, f) for f in fresh)) and bool(built) and all(fo.dominates(none_region, b_) for b_ in built) and \
        any(is_err_value(t, "EmptyStorage") for bb, _, t in ret_assigns(fo) for t in roots(t))
    ctx.check(P, rule, "both slots valid: a header is decoded", ok_both, "region (Some, Some) decodes a header", "no header decode under (slot1 valid, slot2 valid)", key="C07|C07.R4|both")
    ctx.check(P, rule, "only the first slot valid: it is used", ok_only1, "region (Some, None) decodes slot 1", "slot 1 alone is not used when slot 2 is invalid", key="C07|C07.R4|only first")
    ctx.check(P, rule, "only the second slot valid: it is used", ok_only2, "region (None, Some) decodes slot 2", "slot 2 alone is not used when slot 1 is invalid", key="C07|C07.R4|only second")
    ctx.check(P, rule, "no valid slot: fresh log with a key pair, otherwise EmptyStorage", ok_none, "region (None, None): fresh(key_pair) or Err(EmptyStorage)", "(None, None) region does not create a fresh log / report empty storage", key="C07|C07.R4|none")


def r5(ctx, P=P, rule="C07.R5"):
    """the header bits remembered after open are consistent with the slot that was chosen:
    get_current_header_bit() (= bits differ) and the slot rotation are derived from them"""
    fo = ctx.fn(OPLOG_OPEN)
    if not need(ctx, P, rule, OPLOG_OPEN, fo):
        return
    hdr, _ = _header_sites(fo)
    if len(hdr) != 2:
        ctx.missing(P, rule, "Oplog::open: two header-slot validate_leader sites", "found %d" % len(hdr))
        return
    def hb_of(t):
        """(slot index, negated) if t is [!]validate_leader(slot).header_bit"""
        neg = False
        t = strip(t)
        while t[0] == "un" and t[1] == "Not":
            t = strip(t[2])
            neg = not neg
        if t[0] == "field" and t[2] == "header_bit":
            s = term_has_call(t, VALIDATE_LEADER)
            if s in hdr:
                return (hdr.index(s), neg)
        return None
    shapes = []
    for b in fo.live():
        for si, st in enumerate(b.stmts):
            if st["k"] == "assign" and st["rv"]["k"] == "agg" and st["rv"].get("name") == OPLOG and "header_bits" in st["rv"]["fields"]:
                t = fo.origin_operand(st["rv"]["ops"][st["rv"]["fields"].index("header_bits")], b.i, si)
                for r in roots(t):
                    if is_agg(r) and r[1] == "array" and len(r[3]) == 2:
                        shapes.append((loc(fo, b.i, si), hb_of(r[3][0][1]), hb_of(r[3][1][1])))
                    elif r[0] == "const":
                        shapes.append((loc(fo, b.i, si), "const", r[1]))
    got = sorted(set((a, b) for _, a, b in shapes if a != "const"), key=str)
    want = sorted({((0, False), (1, False)), ((0, False), (0, False)), ((1, True), (1, False))}, key=str)
    ctx.check(P, rule, "remembered header bits match the slot whose header is used", got == want,
              "both valid: [h1, h2]; only slot 1: [h1, h1] (equal => slot 1 current); only slot 2: [!h2, h2] (different => slot 2 current)",
              "Oplog::open remembers header bits %s (slot, negated) — expected [h1,h2] / [h1,h1] / [!h2,h2]: with other bits get_current_header_bit() and the slot rotation disagree with the header that was actually loaded, so the entries written under it are skipped and the next flush overwrites the only valid slot" % got,
              [s for s, _, _ in shapes], key="%s|%s|Oplog::open|header bits vs chosen slot" % (P, rule))
    # a brand-new log: the bits remembered are those returned by the header write that created it
    # (insert_header flips the bit of the slot it writes; keeping the initial bits makes the first
    # flush overwrite the only valid header in place, with no second copy to fall back on)
    n_fresh = 0
    for fx in ctx.all_fas():
        nm_ = fn_of(fx.body.name)
        if nm_ in (OPLOG_OPEN, OPLOG_FLUSH) or not nm_.startswith("oplog::"):
            continue
        ih = sites(fx, INSERT_HEADER)
        if not ih:
            continue
        for b in fx.live():
            for si, st in enumerate(b.stmts):
                if st["k"] == "assign" and st["rv"]["k"] == "agg" and st["rv"].get("name") == OPLOG and "header_bits" in st["rv"]["fields"]:
                    n_fresh += 1
                    t = fx.origin_operand(st["rv"]["ops"][st["rv"]["fields"].index("header_bits")], b.i, si)
                    rs = roots(t)
                    good = bool(rs) and all(r[0] == "field" and r[2] == "0" and term_has_call(r, INSERT_HEADER) in ih for r in rs)
                    ctx.check(P, rule, "%s: a new log remembers the header bits its header write returned" % nm_.split("::")[-1], good, "Oplog { header_bits: insert_header(..).0, .. }",
                              "%s builds the Oplog with header_bits = %s, not the bits returned by its insert_header call: memory and disk disagree on which slot is current until the first flush, which then overwrites the only valid header slot in place" % (nm_.split("::")[-1], term_str(t)[:80]),
                              [loc(fx, b.i, si)], key="%s|%s|%s|header bits of a new log" % (P, rule, nm_.split("::")[-1]))
    if n_fresh < 1 and ctx.crate.name == "hypercore":
        ctx.missing(P, rule, "construction of a new Oplog next to its first insert_header", "found %d (floor 1)" % n_fresh)
    fc = ctx.fn(CUR_HDR_BIT)
    if need(ctx, P, rule, CUR_HDR_BIT, fc):
        r = [t for _, _, t in ret_assigns(fc)]
        good = r and r[0][0] == "bin" and r[0][1] == "Ne" and "header_bits" in term_str(r[0])
        ctx.check(P, rule, "current header bit = bits differ", good, "header_bits[0] != header_bits[1]", "get_current_header_bit returns %s" % (term_str(r[0]) if r else None))


def r6(ctx):
    """reopening does not panic: every panic-capable construct on the open path is discharged
    (same engine and reviewed table as C09.R1, entry = Hypercore::new)"""
    from . import c09
    c09.panic_rule(ctx, P, "C07.R6", [NEW], floor=60)
    c09.loops_can_exit(ctx, P, "C07.R6", [OPLOG_OPEN, BF_OPEN, MT_OPEN, FB_FROM_DATA, VALIDATE_LEADER, NEW], floor=4)


def r7(ctx):
    """a torn entry write leaves a tail behind the accepted entries; open cuts it off, and it must
    cut exactly there — at 8192 + the BYTE length of the accepted entries — or the recovery itself
    destroys acknowledged entries that are only in the log (same clause as C02.R12)"""
    from . import c02
    c02.cut_behind_accepted(ctx, P, "C07.R7")


RULES = [r1, r2, r3, r4, r5, r6, r7]
EXPLANATION = ("C07 (a torn final write is tolerated): decides that validate_leader reports a leader shorter than 8 bytes, a zero length and an incomplete payload as end-of-log before decoding or slicing "
               "(R1), that a frame is accepted only on the equal-checksum edge (R2), that a checksum failure of a header slot or of a log entry is not propagated as an error out of Oplog::open (R3, conditional "
               "on validate_leader having an error return), and that the four combinations of slot validity each lead to the intended header choice / fresh log / EmptyStorage (R4), and that the header bits remembered for each combination agree with the slot whose header is used (R5), and that every panic-capable construct and every loop on the open path (closure of Hypercore::new) is discharged / can exit (R6). R7 (= C02.R12): the cut Oplog::open applies behind the accepted entries lies at 8192 + their byte length.")
NOT_DECIDED = "which state a torn write recovers to (C02's undecided part); sector semantics of the disk; torn writes to the tree / bitfield / data stores."
ASSUMPTIONS = ["a torn write leaves a byte prefix of the new data over the old data"]
