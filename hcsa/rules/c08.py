"""C08 — has() / contiguous_length: unit constants, page layout, hint pairing."""
from ..engine import *
from ..analysis import term_str, strip, roots, subterms, contains, callee_of, term_sig
from .names import *
from . import c06

P = "C08"


def _mask_div_consts(ctx, fa):
    """values (named constants are folded by the normaliser) used as in-page mask `x & (V-1)`, as
    divisor `x / V` and as constant multiplier"""
    masks, divs, muls = set(), set(), set()
    def val(t):
        v = ev(ctx, t)
        return v if v is not None else term_str(t)
    for b in fa.live():
        for si, st in enumerate(b.stmts):
            if st["k"] != "assign" or st["rv"]["k"] != "bin":
                continue
            op = st["rv"]["op"].replace("WithOverflow", "")
            r = unwrap_ovf(fa.origin_operand(st["rv"]["r"], b.i, si))
            l = unwrap_ovf(fa.origin_operand(st["rv"]["l"], b.i, si))
            if op == "BitAnd":
                for side in (r, l):
                    if side[0] == "bin" and side[1] == "Sub" and ev(ctx, side[3]) == 1:
                        masks.add(val(side[2]))
                    elif ev(ctx, side) is not None and ev(ctx, side) > 1 and (ev(ctx, side) + 1) & ev(ctx, side) == 0:
                        masks.add(ev(ctx, side) + 1)   # a mask written as the literal V-1
            if op == "Div":
                divs.add(val(r))
            if op == "Mul":
                for side in (r, l):
                    if ev(ctx, side) is not None:
                        muls.add(ev(ctx, side))
    return masks, divs, muls


def r1(ctx):
    rule = "C08.R1"
    g = lambda n: const_lookup(ctx, n)
    page, bits, byts, words, per = g("bitfield::dynamic::DYNAMIC_BITFIELD_PAGE_SIZE"), g("bitfield::fixed::FIXED_BITFIELD_BITS_LENGTH"), g("bitfield::fixed::FIXED_BITFIELD_BYTES_LENGTH"), g("bitfield::fixed::FIXED_BITFIELD_LENGTH"), g("bitfield::fixed::FIXED_BITFIELD_BITS_PER_ELEM")
    ctx.check(P, rule, "page size units agree", page == bits == 8 * (byts or 0) == 32 * (words or 0) and per == 32 and page == 32768, "32768 bits = 4096 bytes = 1024 words of 32 bits",
              "PAGE_SIZE=%s BITS_LENGTH=%s BYTES_LENGTH=%s LENGTH=%s BITS_PER_ELEM=%s" % (page, bits, byts, words, per), key="C08|C08.R1|constants")
    PAGE = page
    for fn in (BF_GET, BF_SET, BF_SET_RANGE, BF_INDEX_OF, BF_LAST_INDEX_OF):
        fa = ctx.fn(fn)
        if not need(ctx, P, rule, fn, fa):
            continue
        m, d, mu = _mask_div_consts(ctx, fa)
        ctx.check(P, rule, "%s: in-page mask and page divisor use the page size" % fn.split("::")[-1], m == {PAGE} and d == {PAGE} and mu <= {PAGE},
                  "index & (PAGE-1), (index - j) / PAGE", "%s uses mask constants %s, divisors %s, multipliers %s" % (fn, sorted(m), sorted(d), sorted(mu)), key="C08|C08.R1|%s|page arithmetic" % fn)
    PER = per
    for fn in (FB + "::get", FB + "::set", FB + "::set_range"):
        fa = ctx.fn(fn)
        if not need(ctx, P, rule, fn, fa):
            continue
        m, d, mu = _mask_div_consts(ctx, fa)
        ctx.check(P, rule, "FixedBitfield::%s: bit offset and word index use 32 bits per word" % fn.split("::")[-1], m == {PER} and d == {PER},
                  "index & (n-1), (index - offset) / n with n = BITS_PER_ELEM", "%s uses mask constants %s, divisors %s" % (fn, sorted(m), sorted(d)), key="C08|C08.R1|%s|word arithmetic" % fn)
    fg = ctx.fn(FB + "::get")
    if fg is not None:
        r = [t for _, _, t in ret_assigns(fg)]
        good = r and r[0][0] == "bin" and r[0][1] == "Ne" and any(isinstance(x, tuple) and x[0] == "bin" and x[1] == "Shl" and ev(ctx, x[2]) == 1 for x in subterms(r[0]))
        ctx.check(P, rule, "FixedBitfield::get tests bit (1 << offset) of the word", good, "word & (1 << offset) != 0", "FixedBitfield::get returns %s" % (term_str(r[0])[:100] if r else None))
    fb = ctx.fn(BF_GET)
    if fb is not None:
        # missing page reads as false
        # the presence test: contains_key(page), or a match / if-let / is_some on pages.get(page)
        tests = [(b_, tr_, fl_) for b_, o_, tr_, fl_ in bool_switches(fb, lambda o: o[0] == "call" and o[2].endswith("::contains_key"))]
        tests += [(b_, some_, none_) for b_, v_, some_, none_ in option_tests(fb, lambda v_: strip(v_)[0] == "call" and strip(v_)[2].split("::")[-1] == "get" and "self.pages" in term_str(strip(v_)[3][0]))]
        good = False
        if tests:
            _, present, absent = tests[0]
            vals = [t for _, _, t in ret_values_in_region(fb, absent) if not fb.dominates(present, _)]
            vals = [t for bb_, _, t in ret_values_in_region(fb, absent)]
            good = bool(vals) and all(term_is_lit(r_, 0) for t in vals for r_ in roots(t) if not term_has_call(r_, FB + "::get"))
            inner = [s for s in sites(fb, FB + "::get") if fb.dominates(present, s)]
            good = good and bool(inner) and not any(s in fb.reach(absent, include_src=True) and not fb.dominates(present, s) for s in sites(fb, FB + "::get"))
        ctx.check(P, rule, "a page that does not exist reads as all-false", good, "!contains_key(page) => false, else page.get(j)", "DynamicBitfield::get does not answer false for a missing page")


def r2(ctx):
    c06.r5(ctx, P, "C08.R2")


def r3(ctx):
    rule = "C08.R3"
    n = 0
    for fa in ctx.all_fas():
        if not fa.body.name.startswith("core::"):
            continue
        for s in sites(fa, BF_UPDATE):
            n += 1
            upd = strip(fa.arg_origin(s, 1))
            us = [u for u in sites(fa, UCL) if term_sig(strip(fa.arg_origin(u, 2))) == term_sig(upd)]
            good = bool(us) and any(fa.dominates(s, u) and fa.postdominates(u, s) for u in us)
            bf = [term_sig(strip(fa.arg_origin(u, 1))) == term_sig(strip(fa.arg_origin(s, 0))) for u in us]
            ctx.check(P, rule, "%s: Bitfield::update is always followed by update_contiguous_length on the same update" % fn_of(fa.body.name).split("::")[-1], good and all(bf),
                      "update at %s paired with update_contiguous_length (same update, same bitfield) on every path to return" % loc(fa, s),
                      "Bitfield::update at %s is not followed on every path by update_contiguous_length with the same update and bitfield: the contiguous-length hint goes stale" % loc(fa, s), [site_desc(fa, s)],
                      key="C08|C08.R3|%s|update without hint maintenance" % fn_of(fa.body.name))
        for s in sites(fa, BF_SET_RANGE):
            n += 1
            # clear: contiguous_length = min(contiguous_length, start), on every path after set_range
            HINT_ = "self.header.hints.contiguous_length"
            ws = [(bb, si) for bb, si in assign_sites(fa, HINT_) if fa.can_reach(s, bb) or bb == s]
            good = False
            if ws:
                ok_, why_ = lowers_to_min(ctx, fa, ws[0][0], ws[0][1], lambda g: g == HINT_, lambda g: g == "start")
                gates = [d for d in fa.dom.get(ws[0][0], ()) if d in fa.reach(s, include_src=True)]
                good = ok_ and any(fa.postdominates(d, s) for d in gates) and term_is_lit(fa.arg_origin(s, 3), 0)
            else:
                # the two in-memory steps in the other order: the hint is lowered first, and the bits
                # are cleared on every way from there with nothing of this crate called in between
                # (nothing that could fail, flush or observe the intermediate state)
                wb = [(bb, si) for bb, si in assign_sites(fa, HINT_) if fa.can_reach(bb, s) or bb == s]
                if wb:
                    ok_, why_ = lowers_to_min(ctx, fa, wb[0][0], wb[0][1], lambda g: g == HINT_, lambda g: g == "start")
                    gates = [d for d in fa.dom.get(wb[0][0], ()) if fa.dominates(d, s) and fa.postdominates(s, d)]
                    quiet = False
                    if gates:
                        d0 = max(gates, key=lambda d: len(fa.dom.get(d, ())))
                        between = [x for x in fa.reach(d0, include_src=True) if x != s and fa.can_reach(x, s)]
                        quiet = not any(fa.blocks[x].term["k"] == "call" and fa.blocks[x].term.get("callee_local") for x in between)
                    good = ok_ and bool(gates) and quiet and term_is_lit(fa.arg_origin(s, 3), 0)
            ctx.check(P, rule, "clear lowers the contiguous-length hint to the start of the cleared range", good, "if start < contiguous_length { contiguous_length = start } follows set_range(start, end-start, false) on every path",
                      "clearing at %s is not followed by lowering the contiguous-length hint" % loc(fa, s), [site_desc(fa, s)], key="C08|C08.R3|clear|hint not lowered")
    if n < 4 and ctx.crate.name == "hypercore":
        ctx.missing(P, rule, "bitfield mutation sites in core.rs", "found %d (floor 4)" % n)
    fi = ctx.fn(INFO)
    if need(ctx, P, rule, INFO, fi):
        for bb in fi.nodes:
            for si, st in enumerate(fi.blocks[bb].stmts):
                if st["k"] == "assign" and st["rv"]["k"] == "agg" and st["rv"].get("name") == "core::Info":
                    t = fi.origin_rvalue(st["rv"], bb, si)
                    ctx.check(P, rule, "info reports the maintained hint", path_of(strip(agg_field(t, "contiguous_length"))) == "self.header.hints.contiguous_length", "Info.contiguous_length = header.hints.contiguous_length",
                              "Info.contiguous_length is %s" % term_str(agg_field(t, "contiguous_length")))
    fu = ctx.fn(UCL)
    if need(ctx, P, rule, UCL, fu):
        ws = assign_sites(fu, "header.hints.contiguous_length")
        gets = sites(fu, BF_GET)
        lp = fu.loops()
        good = bool(ws) and bool(gets) and any(gets[0] in body for _, body, _ in lp) and strip(fu.arg_origin(gets[0], 0)) == ("param", "bitfield")
        ctx.check(P, rule, "update_contiguous_length extends over blocks already held", good, "while bitfield.get(c) { c += 1 } then store", "update_contiguous_length does not scan the bitfield past the update / does not store the result")
        sw = list(bool_switches(fu, lambda o: path_of(strip(o)) == "bitfield_update.drop"))
        ctx.check(P, rule, "update_contiguous_length distinguishes drop from set", bool(sw), "branch on bitfield_update.drop", "no branch on the drop flag")


def lowers_to_min(ctx, fa, bb, si, is_old, is_start, skip=lambda sig: False):
    """Is the value stored by statement (bb, si) `min(old, start)`, however written —
    `min(old, start)`, or `start` exactly when `start < old` and the old value otherwise?  Decided
    over the alternative values of the stored operand and the comparison facts that dominate each
    assignment.  Returns (ok, why)."""
    from .c09 import dominating_conditions
    rv = fa.blocks[bb].stmts[si]["rv"]
    if rv["k"] != "use":
        return False, "stored value is not a plain value"
    alts = guarded_values(fa, rv["op"]) if op_place_(rv["op"]) is not None else [(fa.origin_operand(rv["op"], bb, si), bb)]
    saw_lower = False
    for term, db in alts:
        db = bb if db is None else db
        conds = [(o, tr) for o, tr, _ in dominating_conditions(fa, db) if isinstance(tr, bool) and not skip(term_sig(o))]
        on_old = [(o, tr) for o, tr in conds if o[0] == "bin" and o[1] in ("Lt", "Eq") and (is_old(term_sig(strip(o[2]))) or is_old(term_sig(strip(o[3]))))]
        lt_true = [(o, tr) for o, tr in on_old if o[1] == "Lt" and tr is True and is_start(term_sig(strip(o[2]))) and is_old(term_sig(strip(o[3])))]
        t = strip(unwrap_ovf(term))
        for r in roots(t):
            r = strip(r)
            sig = term_sig(r)
            if r[0] == "call" and r[2].split("::")[-1] == "min" and len(r[3]) == 2:
                a_, b_ = term_sig(strip(r[3][0])), term_sig(strip(r[3][1]))
                if (is_old(a_) and is_start(b_)) or (is_start(a_) and is_old(b_)):
                    if on_old:
                        return False, "min(old, start) is stored only under %s" % [(term_sig(o), tr) for o, tr in on_old]
                    saw_lower = True
                    continue
            if is_start(sig):
                others = [(term_sig(o), tr) for o, tr in on_old if (o, tr) not in lt_true and not (o[1] == "Eq" and tr is False)]
                if not lt_true:
                    return False, "`start` is stored without the guard start < old (%s)" % [(term_sig(o), tr) for o, tr in on_old]
                if others:
                    return False, "`start` is stored only under the additional condition(s) %s" % others
                saw_lower = True
                continue
            if is_old(sig):
                if lt_true:
                    return False, "the old value is kept although start < old"
                continue
            # some other value (the non-drop branch of update_contiguous_length): must not be reachable under start < old of the drop case
            if lt_true:
                return False, "a different value (%s) is stored under start < old" % sig[:60]
    return saw_lower, ("stores min(old, start)" if saw_lower else "no alternative lowers the value to `start`")


def op_place_(o):
    return o.get("c") or o.get("m")


def r3b(ctx):
    """sibling agreement: the live path (clear) and the replay path (update_contiguous_length,
    drop branch) lower the hint under the same condition — whenever it exceeds the start of the
    dropped range (hint := min(hint, start)); an additional bound on the replay side makes a
    replayed clear keep a stale hint"""
    rule = "C08.R3"
    fu = ctx.fn(UCL)
    if not need(ctx, P, rule, UCL, fu):
        return
    HINT = "header.hints.contiguous_length"
    ws = assign_sites(fu, HINT)
    if not need(ctx, P, rule, "update_contiguous_length: store to the hint", ws):
        return
    ok_, why_ = lowers_to_min(ctx, fu, ws[0][0], ws[0][1], lambda g: g == HINT, lambda g: g == "bitfield_update.start", skip=lambda sig: "drop" in sig)
    ctx.check(P, rule, "a replayed drop lowers the hint whenever it exceeds the start of the dropped range", ok_ and len(ws) == 1,
              "update_contiguous_length (drop): hint := min(hint, start), exactly what clear() does",
              "update_contiguous_length does not lower the hint to min(hint, start) on a drop (%s): clear() lowers it whenever start < contiguous_length, so a clear in the middle of the contiguous range that is replayed from the oplog on reopen leaves a stale contiguous length" % why_,
              [loc(fu, ws[0][0], ws[0][1])], key="C08|C08.R3|update_contiguous_length|drop lowering condition")
    fc = ctx.real_body(CLEAR, [OPLOG_CLEAR])
    if need(ctx, P, rule, CLEAR, fc):
        wc = assign_sites(fc, "self.header.hints.contiguous_length")
        good, why_ = False, "no store to the hint"
        if wc:
            good, why_ = lowers_to_min(ctx, fc, wc[0][0], wc[0][1], lambda g: g == "self.header.hints.contiguous_length", lambda g: g == "start")
        ctx.check(P, rule, "clear lowers the hint exactly when start < contiguous_length", good and len(wc) == 1, "hint := min(hint, start)", "clear's lowering differs: %s" % why_)


def r4(ctx):
    from . import c01
    c01.read_gate(ctx, P, "C08.R4")


def r5(ctx):
    """the page walk of DynamicBitfield::set_range covers exactly [start, start + length): on every
    way round its loop the in-page offset restarts at 0, the page number advances by one and the
    remaining length shrinks by exactly the part of the range that lies in the current page,
    min(length, PAGE - j) — which is also the count handed to the page's own set_range.  Decided by
    path-sensitive affine dataflow over one iteration (hcsa/pathval.py); a way round that touches
    no page (an "absent page" short cut) is held to the same arithmetic."""
    from .. import pathval as PV
    rule = "C08.R5"
    fa = ctx.fn(BF_SET_RANGE)
    if not need(ctx, P, rule, BF_SET_RANGE, fa):
        return
    page = const_lookup(ctx, "bitfield::dynamic::DYNAMIC_BITFIELD_PAGE_SIZE")
    loops = sorted(fa.loops(), key=lambda x: -len(x[1]))
    if not need(ctx, P, rule, "DynamicBitfield::set_range: page loop", loops):
        return
    h, body, _ = loops[0]
    paths = PV.walk(fa, h, {h})
    if not need(ctx, P, rule, "DynamicBitfield::set_range: loop-free page loop body", paths):
        return
    rounds = [p_ for p_ in paths if p_.end == "stop"]
    if not need(ctx, P, rule, "DynamicBitfield::set_range: ways round the page loop", rounds):
        return
    # loop-carried variables: named locals assigned on some way round and defined before the loop
    carried = sorted({l for p_ in rounds for l in p_.env if fa.body.local_name(l) and (1 <= l <= fa.body.arg_count or any(d[1] not in body for d in fa.body.defs.get(l, [])))})
    # roles by what every way round does to them
    def all_same(l):
        vs = {PV.render(p_.env.get(l, PV.lf_sym(fa.body.local_name(l)))) for p_ in rounds}
        return vs
    role = {}
    for l in carried:
        vs = all_same(l)
        nm = fa.body.local_name(l)
        if vs == {"0"}:
            role["offset"] = l
        elif vs == {"1 + %s" % nm}:
            role["page"] = l
    # the remaining length: the carried variable every way round decreases (other carried variables,
    # e.g. an `any_changed` accumulator, play no part in the walk)
    rest = [l for l in carried if l not in role.values() and all(v.startswith("Sub(%s, " % fa.body.local_name(l)) for v in all_same(l))]
    ctx.check(P, rule, "every way round restarts the in-page offset at 0 and moves to the next page", "offset" in role and "page" in role and len(rest) == 1,
              "j := 0, i := i + 1 on all %d ways round" % len(rounds),
              "ways round the page loop of set_range disagree on the loop variables: %s" % {fa.body.local_name(l): sorted(all_same(l)) for l in carried},
              key="C08|C08.R5|set_range|offset and page advance")
    if not ("offset" in role and "page" in role and len(rest) == 1):
        return
    jn, ln = fa.body.local_name(role["offset"]), fa.body.local_name(rest[0])
    in_page = PV.render(("min", PV.lf_add(PV.lf_const(page), PV.lf_sym(jn), -1), PV.lf_sym(ln)))
    want = "Sub(%s, %s)" % (ln, in_page)
    bad = sorted({PV.render(p_.env.get(rest[0], PV.lf_sym(ln))) for p_ in rounds} - {want})
    ctx.check(P, rule, "every way round consumes exactly the part of the range inside the current page", not bad,
              "%s := %s on all ways round" % (ln, want),
              "a way round the page loop of set_range shrinks the remaining length to %s instead of %s: when the range starts inside the page (j > 0) the walk drifts and bits near the end of the range are never written" % (bad, want),
              key="C08|C08.R5|set_range|length consumed per page")
    # the page's own set_range gets (j, that count, value); ways round without it only for an absent page and value == false
    n_set = 0
    odd = []
    for p_ in rounds:
        cs = [(c_, a_) for c_, a_, _ in p_.calls if c_.endswith("FixedBitfield::set_range")]
        if cs:
            n_set += 1
            a_ = cs[0][1]
            if not (len(cs) == 1 and len(a_) == 4 and PV.render(a_[1]) == jn and PV.render(a_[2]) == in_page and PV.render(a_[3]) == "value"):
                odd.append("FixedBitfield::set_range(%s)" % ", ".join(PV.render(x) for x in a_[1:]))
        else:
            absent = any(k.startswith("contains_key(") and v is False for k, v in p_.cond.items()) or any(k.startswith("disc(get") for k in p_.cond)
            if not (absent and p_.cond.get("value") is False):
                odd.append("a way round without FixedBitfield::set_range under %s" % {k: v for k, v in p_.cond.items() if not k.startswith("Lt(")})
    ctx.check(P, rule, "each page receives set_range(j, min(length, PAGE - j), value)", n_set > 0 and not odd, "%d ways round call it with (j, %s, value)" % (n_set, in_page),
              "page walk of set_range: %s" % sorted(set(odd))[:3], key="C08|C08.R5|set_range|page call")
    # a page whose bits changed and that is not yet queued is queued for the next flush
    unq = []
    n_q = 0
    for p_ in rounds:
        ch = [v for k, v in p_.cond.items() if k.startswith("set_range(")]
        dirty = [v for k, v in p_.cond.items() if k.endswith(".dirty")]
        if ch and ch[0] is True and (not dirty or dirty[0] is False):
            pushes = [a_ for c_, a_, _ in p_.calls if c_.endswith("::push") and len(a_) == 2 and "unflushed" in PV.render(a_[0]) and PV.render(a_[1]) == fa.body.local_name(role["page"])]
            n_q += 1
            if not pushes:
                unq.append({k: v for k, v in p_.cond.items() if not k.startswith("Le(")})
    ctx.check(P, rule, "a page that changed is queued for the next flush", n_q > 0 and not unq, "changed && !dirty => unflushed.push(i) on %d ways round" % n_q,
              "a way round the page loop of set_range changes a page that is not marked dirty without pushing it to `unflushed` (%s): the page is never written and the bits come back on reopen" % unq[:1],
              key="C08|C08.R5|set_range|changed page queued")
    # the loop runs while length remains
    hd = fa.origin_operand(fa.blocks[h].term["discr"], h, len(fa.blocks[h].stmts)) if fa.blocks[h].term["k"] == "switch" else None
    conds = [c for c in (canon_cond(hd),) if hd is not None]
    sw = [(o, tr, fl) for b_, o, tr, fl in bool_switches(fa, lambda o: o[0] == "bin" and o[1] in ("Lt", "Eq")) if b_ in body and (tr not in body or fl not in body)]
    good = False
    for o, tr, fl in sw:
        # canonical Lt(0, length): continue on true; or Eq(length, 0): continue on false
        if o[1] == "Lt" and term_is_lit(o[2], 0) and tr in body and fl not in body:
            good = True
        if o[1] == "Eq" and (term_is_lit(o[3], 0) or term_is_lit(o[2], 0)) and fl in body and tr not in body:
            good = True
    ctx.check(P, rule, "the walk continues while length remains", good, "while length > 0", "set_range's loop condition is %s" % [term_str(o)[:60] for o, _, _ in sw], key="C08|C08.R5|set_range|loop condition")


def fixed_set_range(ctx, prop, rule):
    """FixedBitfield::set_range walks the 32-bit words of the range: every way round its loop
    restarts the bit offset at 0, moves to the next word and consumes the rest of the current
    word (remaining -= 32 - offset); and the flag it returns — on which DynamicBitfield::set_range
    decides whether the page is queued for the next flush — accumulates over all words: once a
    word changed it stays true.  (A flag that only reflects the last word leaves a changed page
    unwritten, and the cleared bits come back on reopen.)"""
    from .. import pathval as PV
    FSR = "bitfield::fixed::FixedBitfield::set_range"
    fa = ctx.fn(FSR)
    if not need(ctx, prop, rule, FSR, fa):
        return
    per = const_lookup(ctx, "bitfield::fixed::FIXED_BITFIELD_BITS_PER_ELEM")
    loops = sorted(fa.loops(), key=lambda x: -len(x[1]))
    if not need(ctx, prop, rule, "FixedBitfield::set_range: word loop", loops):
        return
    h, body, _ = loops[0]
    consts = PV.loop_constants(ctx, fa, h, body)
    paths = PV.walk(fa, h, {h}, init=consts)
    if not need(ctx, prop, rule, "FixedBitfield::set_range: loop-free word loop body", paths):
        return
    rounds = [p_ for p_ in paths if p_.end == "stop"]
    if not need(ctx, prop, rule, "FixedBitfield::set_range: ways round the word loop", rounds):
        return
    carried = sorted({l for p_ in rounds for l in p_.env if l not in consts and fa.body.local_name(l) and (1 <= l <= fa.body.arg_count or any(d[1] not in body for d in fa.body.defs.get(l, [])))})
    vals = {l: {PV.render(p_.env.get(l, PV.lf_sym(fa.body.local_name(l)))) for p_ in rounds} for l in carried}
    nm = lambda l: fa.body.local_name(l)
    off = [l for l in carried if vals[l] == {"0"}]
    word = [l for l in carried if vals[l] == {"1 + %s" % nm(l)}]
    good = len(off) == 1 and len(word) == 1
    rem = []
    if good:
        rem = [l for l in carried if vals[l] == {PV.render(PV.lf_add(PV.lf_add(PV.lf_sym(nm(l)), PV.lf_sym(nm(off[0]))), PV.lf_const(per), -1))}]
    ctx.check(prop, rule, "every way round the word loop restarts the offset, moves one word on and consumes the rest of the word", good and len(rem) == 1,
              "offset := 0, i := i + 1, remaining := remaining - (%s - offset) on all %d ways round" % (per, len(rounds)),
              "ways round the word loop of FixedBitfield::set_range update the loop variables as %s" % {nm(l): sorted(v)[:3] for l, v in vals.items()}, key="%s|%s|FixedBitfield::set_range|word walk" % (prop, rule))
    # the returned flag
    rets = [d for d in fa.body.defs.get(0, []) if d[1] in fa.succ and not d[3]["p"]]
    flag = None
    for d in rets:
        if d[0] == "assign" and d[4]["k"] == "use":
            pl = d[4]["op"].get("c") or d[4]["op"].get("m")
            if pl and not pl["p"]:
                flag = pl["l"]
    if need(ctx, prop, rule, "FixedBitfield::set_range: returned flag variable", flag if flag in carried else None):
        fv = vals[flag]
        mono = fv <= {"1", nm(flag)} or all(v in ("1", nm(flag)) or v.startswith("BitOr(%s, " % nm(flag)) for v in fv)
        ctx.check(prop, rule, "the returned `changed` flag accumulates over the words", mono and ("1" in fv or any(v.startswith("BitOr(") for v in fv)), "on every way round the flag keeps its value or becomes true",
                  "FixedBitfield::set_range overwrites its returned flag on a way round the word loop (%s): it reports only whether the LAST word changed, so DynamicBitfield::set_range does not queue a page whose earlier words changed, the page is never written and the bits come back on reopen" % sorted(fv - {"1", nm(flag)})[:2],
                  key="%s|%s|FixedBitfield::set_range|flag accumulates" % (prop, rule))


def r6(ctx):
    fixed_set_range(ctx, P, "C08.R6")


def r7(ctx):
    """has() after a crash: the bitfield pages of a flush reach the disk before the header write that obsoletes the log entries holding the same updates (the ordering clauses of C02.R4)"""
    from . import c02
    before = len(ctx.insts)
    c02.r4(ctx)
    kept = []
    for i in ctx.insts[before:]:
        if True:
            i.prop, i.rule = P, "C08.R7"
            i.key = i.key.replace("C02|C02.R4", "C08|C08.R7")
            kept.append(i)
    ctx.insts[before:] = kept
    if not kept:
        ctx.missing(P, "C08.R7", "shared clauses of c02.r4", "no instance")


RULES = [r1, r2, r3, r3b, r4, r5, r6, r7]
EXPLANATION = ("C08 (has / contiguous_length exact for large, sparse, reopened cores): decides that every page/bit computation uses one named unit constant consistently (mask C-1 and divisor C, "
               "32768 bits = 4096 bytes = 1024 x 32-bit words) and that a missing page reads false (R1); that the page reader uses the writer's byte stride and page-relative little-endian words (R2); "
               "that every Bitfield::update in core.rs is followed on all paths by update_contiguous_length on the same update and bitfield, clear lowers the hint to `start`, info reports the "
               "maintained hint, and the replay path lowers the hint under the same condition as the live clear path (R3); that has()/get() are gated by Bitfield::get(index) (R4).")
NOT_DECIDED = "the arithmetic inside update_contiguous_length and the bit masks of FixedBitfield::set_range (value level); behaviour after crash recovery (C02)."
ASSUMPTIONS = ["intmap::IntMap behaves as a map"]
