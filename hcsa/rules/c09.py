"""C09 — no peer input can panic or hang the node: loop-exit rule and
panic-site discipline over the call-graph closure of the peer-facing entries."""
import json, os
from ..engine import *
from ..analysis import term_str, strip, roots, subterms, contains, callee_of, BRANCH, POLL, TRANSPARENT
from ..facts import op_place
from .names import *

P = "C09"

PURE_OBSERVERS = {
    "std::vec::Vec::<T, A>::len", "std::vec::Vec::<T, A>::is_empty", "core::slice::<impl [T]>::len", "core::slice::<impl [T]>::is_empty",
    "std::ops::Index::index", "core::slice::<impl [T]>::get", "std::vec::Vec::<T, A>::contains", "core::slice::<impl [T]>::contains", "core::slice::<impl [T]>::last", "core::slice::<impl [T]>::first",
    "std::option::Option::<T>::is_some", "std::option::Option::<T>::is_none", "std::cmp::PartialEq::eq", "std::cmp::PartialEq::ne", "std::cmp::PartialOrd::lt", "std::cmp::PartialOrd::le",
    "std::cmp::PartialOrd::gt", "std::cmp::PartialOrd::ge",
}


def _loop_mutations(fa, body):
    """(paths assigned, object roots passed by &mut / assigned) inside a loop"""
    paths, objs, locals_ = set(), [], set()
    for bi in body:
        b = fa.blocks[bi]
        for si, st in enumerate(b.stmts):
            if st["k"] != "assign":
                continue
            pl = st["place"]
            if pl["p"] or fa.upvar_name(pl) is not None:
                t = fa.origin_place(pl, bi, si)
                p = path_of(t)
                if p:
                    paths.add(p)
                for r in roots(strip_fields(t)):
                    objs.append(r)
            if st["rv"]["k"] == "ref" and st["rv"]["mut"]:
                t = fa.origin_place(st["rv"]["place"], bi, si)
                for r in roots(strip_fields(t)):
                    objs.append(r)
                p = path_of(t)
                if p:
                    paths.add(p)
        t = b.term
        if t["k"] == "call":
            for i, ty in enumerate(t.get("arg_tys", [])):
                if ty.startswith("&mut"):
                    o = fa.arg_origin(bi, i)
                    for r in roots(strip_fields(o)):
                        objs.append(r)
                    p = path_of(strip(o))
                    if p:
                        paths.add(p)
    return paths, objs


def strip_fields(t):
    t = strip(t)
    while isinstance(t, tuple) and t and t[0] in ("field", "variant", "index", "subslice"):
        t = strip(t[1])
    return t


def _changeable(fa, body, term, paths, objs):
    t = term
    if not isinstance(t, tuple) or not t:
        return False
    k = t[0]
    if k in ("lit", "const", "litrepr", "fn"):
        return False
    if k in ("cycle", "resume", "undef", "unknown", "deep"):
        return True
    if k == "join":
        return True  # several reaching definitions: redefined along some path through the loop
    if k == "param" or k == "field":
        p = path_of(t)
        if p is not None:
            return any(p == q or p.startswith(q + ".") or q.startswith(p + ".") for q in paths) or (k == "field" and _changeable(fa, body, t[1], paths, objs))
        return _changeable(fa, body, t[1], paths, objs) if k == "field" else False
    if k == "call":
        if t[1] in body:
            if t[2] not in PURE_OBSERVERS:
                return True
            return any(_changeable(fa, body, a, paths, objs) for a in t[3])
        # value computed before the loop: an object; changes if mutated inside
        return any(o == t for o in objs)
    if k == "agg":
        return any(_changeable(fa, body, o, paths, objs) for _, o in t[3])
    if k in ("closure",):
        return True
    return any(_changeable(fa, body, x, paths, objs) for x in t[1:] if isinstance(x, tuple))


def loops_can_exit(ctx, prop, rule, fn_names, floor=0):
    n = 0
    for name in fn_names:
        bodies = ctx.crate.group(name)
        if not bodies:
            ctx.missing(prop, rule, name, "function not found")
            continue
        for b in bodies:
            fa = ctx.fa(b)
            fa.pdom  # computes _can_return
            for h, body, backs in fa.loops():
                # await loops and their like exit on poll(&mut fut)
                exits = []
                for bi in body:
                    for s in fa.succ[bi]:
                        if s not in body:
                            exits.append((bi, s))
                real = [(bi, s) for bi, s in exits if s in fa._can_return]
                n += 1
                anchor = "%s: loop at %s can exit" % (name.split("::")[-1], loc(fa, h))
                key = "%s|%s|%s|loop cannot exit|%s" % (prop, rule, name, _loop_sig(fa, body))
                if not real:
                    ctx.fail(prop, rule, anchor, "loop headed at %s has no exit edge that reaches a return" % loc(fa, h), [loc(fa, h)], key=key)
                    continue
                paths, objs = _loop_mutations(fa, body)
                ok = False
                conds = []
                for bi, s in real:
                    t = fa.blocks[bi].term
                    if t["k"] != "switch":
                        ok = True
                        break
                    o = fa.origin_operand(t["discr"], bi, len(fa.blocks[bi].stmts))
                    conds.append(term_str(o)[:120])
                    if _changeable(fa, body, o, paths, objs):
                        ok = True
                        break
                ctx.check(prop, rule, anchor, ok, "an exit condition depends on state the loop body changes",
                          "loop at %s in %s cannot terminate once entered: every exit condition (%s) is built only from values that no statement of the loop body assigns, mutably borrows or passes by &mut" % (
                              loc(fa, h), name, "; ".join(conds)), [loc(fa, h)], key=key)
    if floor and n < floor and ctx.crate.name == "hypercore":
        ctx.missing(prop, rule, "natural loops in the analysed functions", "found %d (floor %d)" % (n, floor))
    return n


def _loop_sig(fa, body):
    """position-independent signature of a loop: the callees invoked in it"""
    cs = sorted(set(callee_of(fa.blocks[b].term).split("::")[-1] for b in body if fa.blocks[b].term["k"] == "call"))
    return ",".join(cs)[:120]


RULES = []
