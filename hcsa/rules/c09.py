"""C09 — no peer input can panic or hang the node: loop-exit rule and
panic-site discipline over the call-graph closure of the peer-facing entries."""
import json, os
from ..engine import *
from ..analysis import term_str, term_sig, strip, roots, subterms, contains, callee_of, BRANCH, POLL, TRANSPARENT
from ..facts import op_place
from .names import *

P = "C09"

PURE_OBSERVERS = {
    "std::vec::Vec::<T, A>::len", "std::vec::Vec::<T, A>::is_empty", "core::slice::<impl [T]>::len", "core::slice::<impl [T]>::is_empty",
    "std::ops::Index::index", "core::slice::<impl [T]>::get", "std::vec::Vec::<T, A>::contains", "core::slice::<impl [T]>::contains", "core::slice::<impl [T]>::last", "core::slice::<impl [T]>::first",
    "std::option::Option::<T>::is_some", "std::option::Option::<T>::is_none", "std::cmp::PartialEq::eq", "std::cmp::PartialEq::ne", "std::cmp::PartialOrd::lt", "std::cmp::PartialOrd::le",
    "std::cmp::PartialOrd::gt", "std::cmp::PartialOrd::ge",
}


def _loop_mutations(fa, body):
    """(paths assigned, object roots passed by &mut / assigned) inside a loop"""
    paths, objs, locals_ = set(), [], set()
    for bi in body:
        b = fa.blocks[bi]
        for si, st in enumerate(b.stmts):
            if st["k"] != "assign":
                continue
            pl = st["place"]
            if pl["p"] or fa.upvar_name(pl) is not None:
                t = fa.origin_place(pl, bi, si)
                p = path_of(t)
                if p:
                    paths.add(p)
                for r in roots(strip_fields(t)):
                    objs.append(r)
            if st["rv"]["k"] == "ref" and st["rv"]["mut"]:
                t = fa.origin_place(st["rv"]["place"], bi, si)
                for r in roots(strip_fields(t)):
                    objs.append(r)
                p = path_of(t)
                if p:
                    paths.add(p)
        t = b.term
        if t["k"] == "call":
            for i, ty in enumerate(t.get("arg_tys", [])):
                if ty.startswith("&mut"):
                    o = fa.arg_origin(bi, i)
                    for r in roots(strip_fields(o)):
                        objs.append(r)
                    p = path_of(strip(o))
                    if p:
                        paths.add(p)
    return paths, objs


def strip_fields(t):
    t = strip(t)
    while isinstance(t, tuple) and t and t[0] in ("field", "variant", "index", "subslice"):
        t = strip(t[1])
    return t


def _changeable(fa, body, term, paths, objs):
    t = term
    if not isinstance(t, tuple) or not t:
        return False
    k = t[0]
    if k in ("lit", "const", "litrepr", "fn"):
        return False
    if k in ("cycle", "resume", "undef", "unknown", "deep"):
        return True
    if k == "join":
        return True  # several reaching definitions: redefined along some path through the loop
    if k == "param" or k == "field":
        p = path_of(t)
        if p is not None:
            return any(p == q or p.startswith(q + ".") or q.startswith(p + ".") for q in paths) or (k == "field" and _changeable(fa, body, t[1], paths, objs))
        return _changeable(fa, body, t[1], paths, objs) if k == "field" else False
    if k == "call":
        if t[1] in body:
            if t[2] not in PURE_OBSERVERS:
                return True
            return any(_changeable(fa, body, a, paths, objs) for a in t[3])
        # value computed before the loop: an object; changes if mutated inside
        return any(o == t for o in objs)
    if k == "agg":
        return any(_changeable(fa, body, o, paths, objs) for _, o in t[3])
    if k in ("closure",):
        return True
    return any(_changeable(fa, body, x, paths, objs) for x in t[1:] if isinstance(x, tuple))


def loops_can_exit(ctx, prop, rule, fn_names, floor=0):
    n = 0
    for name in fn_names:
        bodies = ctx.crate.group(name)
        if not bodies:
            ctx.missing(prop, rule, name, "function not found")
            continue
        for b in bodies:
            fa = ctx.fa(b)
            fa.pdom  # computes _can_return
            for h, body, backs in fa.loops():
                # await loops and their like exit on poll(&mut fut)
                exits = []
                for bi in body:
                    for s in fa.succ[bi]:
                        if s not in body:
                            exits.append((bi, s))
                real = [(bi, s) for bi, s in exits if s in fa._can_return]
                n += 1
                anchor = "%s: loop at %s can exit" % (name.split("::")[-1], loc(fa, h))
                key = "%s|%s|%s|loop cannot exit|%s" % (prop, rule, name, _loop_sig(fa, body))
                if not real:
                    ctx.fail(prop, rule, anchor, "loop headed at %s has no exit edge that reaches a return" % loc(fa, h), [loc(fa, h)], key=key)
                    continue
                paths, objs = _loop_mutations(fa, body)
                ok = False
                conds = []
                for bi, s in real:
                    t = fa.blocks[bi].term
                    if t["k"] != "switch":
                        ok = True
                        break
                    o = fa.origin_operand(t["discr"], bi, len(fa.blocks[bi].stmts))
                    conds.append(term_str(o)[:120])
                    if _changeable(fa, body, o, paths, objs):
                        ok = True
                        break
                ctx.check(prop, rule, anchor, ok, "an exit condition depends on state the loop body changes",
                          "loop at %s in %s cannot terminate once entered: every exit condition (%s) is built only from values that no statement of the loop body assigns, mutably borrows or passes by &mut" % (
                              loc(fa, h), name, "; ".join(conds)), [loc(fa, h)], key=key)
    if floor and n < floor and ctx.crate.name == "hypercore":
        ctx.missing(prop, rule, "natural loops in the analysed functions", "found %d (floor %d)" % (n, floor))
    return n


def _loop_sig(fa, body):
    """position-independent signature of a loop: the callees invoked in it"""
    cs = sorted(set(callee_of(fa.blocks[b].term).split("::")[-1] for b in body if fa.blocks[b].term["k"] == "call"))
    return ",".join(cs)[:120]


RULES = []


# ===========================================================================
# panic-site discipline
PANIC_CALLEES_PREFIX = ("core::panicking::", "std::rt::begin_panic", "std::rt::panic_fmt", "core::panicking::panic", "std::process::abort", "std::process::exit")
UNWRAPS = ("std::option::Option::<T>::unwrap", "std::option::Option::<T>::expect", "std::result::Result::<T, E>::unwrap", "std::result::Result::<T, E>::expect",
           "std::result::Result::<T, E>::unwrap_err", "std::result::Result::<T, E>::expect_err")
INDEXERS = ("std::ops::Index::index", "std::ops::IndexMut::index_mut")
OTHER_PANICKY = ("core::slice::<impl [T]>::copy_from_slice", "core::slice::<impl [T]>::split_at", "core::slice::<impl [T]>::split_at_mut", "std::vec::Vec::<T, A>::remove", "std::vec::Vec::<T, A>::insert",
                 "std::vec::Vec::<T, A>::drain", "std::vec::Vec::<T, A>::swap_remove", "std::vec::Vec::<T, A>::split_off", "std::cell::RefCell::<T>::borrow", "std::cell::RefCell::<T>::borrow_mut",
                 "core::num::<impl u32>::pow", "core::num::<impl u64>::pow", "core::slice::<impl [T]>::chunks", "core::slice::<impl [T]>::windows", "std::iter::Iterator::step_by",
                 "core::slice::<impl [T]>::chunks_exact", "core::slice::<impl [T]>::chunks_mut", "core::slice::<impl [T]>::chunks_exact_mut")
ASSERT_OBLIGATIONS = ("BoundsCheck", "Overflow(Sub)", "DivisionByZero", "RemainderByZero")
ASSERT_COUNTED = ("Overflow(Add)", "Overflow(Mul)", "Overflow(Shl)", "Overflow(Shr)", "OverflowNeg")


class Site:
    ctx = None

    def __init__(self, fa, bb, kind, detail, ops):
        self.fa, self.bb, self.kind, self.detail, self.ops = fa, bb, kind, detail, ops
        self.fn = fn_of(fa.body.name)

    def sig(self):
        return "%s(%s)" % (self.detail, ", ".join(term_sig_(o) for o in self.ops))

    def coarse(self):
        """robust operand signature: the parameter / field paths, constants and
        callee names the operands are built from (structure and literals dropped)"""
        leaves = set()
        for o in self.ops:
            for s in subterms(unwrap_ovf(o)):
                if not isinstance(s, tuple) or not s:
                    continue
                if s[0] in ("param", "field"):
                    p = path_of(s)
                    if p:
                        leaves.add(p)
                elif s[0] == "const":
                    leaves.add(s[1].split("::")[-1])
                elif s[0] == "call":
                    nm_ = s[2].split("::")[-1]
                    if nm_ not in ("unwrap", "expect", "cloned", "copied", "as_ref", "as_mut"):
                        leaves.add(nm_ + "()")   # Option / Result plumbing does not identify the data
        # keep only maximal paths
        ps = sorted(leaves)
        ps = [p for p in ps if not any(q != p and q.startswith(p + ".") for q in ps)]
        # arithmetic shape of the operands (linear form over parameters / loop counter) where it
        # exists: an A3/A4 entry lapses when the arithmetic changes, not when a local is renamed
        shape = ""
        if self.kind in ("assert", "index") and self.ctx is not None:
            forms = []
            for o in (self.ops[1:] if self.kind == "index" else self.ops):
                l_ = lin(self.ctx, o)
                if l_ is not None and all(isinstance(k, (str, int)) for k in l_) and len(l_) <= 4 and all(not (isinstance(k, str) and ("(" in k or "@" in k)) for k in l_):
                    forms.append("+".join("%s*%s" % (v, k) for k, v in sorted(l_.items(), key=lambda kv: str(kv[0])) if v != 0) or "0")
                else:
                    forms.append("?")
            if any(f != "?" for f in forms):
                shape = "#" + ";".join(forms)
        return "%s{%s}%s" % (self.detail, ",".join(ps), shape)

    def key(self):
        return "%s|%s|%s" % (self.fn, self.kind, self.coarse())

    def where(self):
        return "%s in %s" % (loc(self.fa, self.bb), self.fa.body.name)


def term_sig_(t):
    from ..analysis import term_sig
    return term_sig(unwrap_ovf(t))[:140]


def panic_sites(ctx, fa):
    out, counted = [], 0
    for b in fa.live():
        t = b.term
        if t["k"] == "assert":
            ak = t["akind"]
            ops = [fa.origin_operand(o, b.i, len(b.stmts)) for o in t["aops"]]
            if ak in ("DivisionByZero", "RemainderByZero"):
                # the assert message carries the dividend; the divisor is in the condition `divisor == 0`
                c = fa.origin_operand(t["cond"], b.i, len(b.stmts))
                if c[0] == "bin" and c[1] == "Eq":
                    ops = [c[2]]
            if ak in ASSERT_OBLIGATIONS:
                out.append(Site(fa, b.i, "assert", ak, ops))
            elif ak in ASSERT_COUNTED:
                counted += 1
        elif t["k"] == "call":
            c = t.get("callee") or ""
            if t["span"].get("exp") and ("format_args" in str(t["span"].get("macro")) or "tracing" in str(t["span"].get("macro"))):
                pass
            if c in UNWRAPS:
                out.append(Site(fa, b.i, "unwrap", c.split("::")[-1], [fa.arg_origin(b.i, 0)]))
            elif c in INDEXERS:
                ops = [fa.arg_origin(b.i, i) for i in range(len(t["args"]))]
                base_ty = t["arg_tys"][0] if t.get("arg_tys") else ""
                out.append(Site(fa, b.i, "index", "index<%s>" % _short_ty(base_ty), ops))
            elif c.startswith(PANIC_CALLEES_PREFIX):
                out.append(Site(fa, b.i, "panic", c.split("::")[-1], []))
            elif c in OTHER_PANICKY:
                ops = [fa.arg_origin(b.i, i) for i in range(len(t["args"]))]
                out.append(Site(fa, b.i, "call", c.split("::")[-1], ops))
    return out, counted


def _short_ty(ty):
    ty = ty.replace("&mut ", "").replace("&", "")
    if ty.startswith("std::vec::Vec<"):
        return "Vec"
    if ty.startswith("["):
        return "slice"
    if ty.startswith("std::boxed::Box<["):
        return "slice"
    return ty.split("<")[0].split("::")[-1]


# ---------------------------------------------------------------- guards
def dominating_conditions(fa, bb):
    """[(cond term (Not-stripped), truth)] of bool switches one edge of which
    dominates bb, and discriminant tests [(('disc', term), variant value)]"""
    out = []
    for b in fa.live():
        t = b.term
        if t["k"] != "switch" or b.i == bb and False:
            continue
        o = fa.origin_operand(t["discr"], b.i, len(b.stmts))
        m = {v: x for v, x in t["targets"]}
        if t.get("discr_ty") == "bool":
            o, neg = canon_cond(o)
            f = m.get(0, t["otherwise"])
            tr = t["otherwise"] if 0 in m else m.get(1)
            if tr is not None and tr != f:
                if fa.dominates(tr, bb) and not fa.dominates(f, bb):
                    out.append((unwrap_ovf(o), (not neg), b.i))
                elif fa.dominates(f, bb) and not fa.dominates(tr, bb):
                    out.append((unwrap_ovf(o), neg, b.i))
        else:
            integer = o[0] != "disc" and (t.get("discr_ty") or "") in ("u8", "u16", "u32", "u64", "u128", "usize", "i8", "i16", "i32", "i64", "i128", "isize")
            for v, x in list(m.items()) + [("otherwise", t["otherwise"])]:
                others = [y for w, y in list(m.items()) + [("otherwise", t["otherwise"])] if w != v]
                if fa.dominates(x, bb) and not any(fa.dominates(y, bb) for y in others if y != x):
                    out.append((unwrap_ovf(o), v, b.i))
                    if integer:
                        # `match n { 0 => .., k => .. }` states the same facts as `if n == 0 { .. } else { .. }`
                        if v == "otherwise":
                            for w in m:
                                out.append((("bin", "Eq", unwrap_ovf(o), ("lit", w)), False, b.i))
                        else:
                            out.append((("bin", "Eq", unwrap_ovf(o), ("lit", v)), True, b.i))
    return out


def same(a, b):
    return term_sig_(strip(a)) == term_sig_(strip(b))


def cond_spellings(o, truth):
    """every equivalent rendering of the dominating fact (canonical condition o, truth value): a
    reviewed guard written as `Ge(len(data)` matches however the source spells the test"""
    s0 = term_sig_(o)
    out = [s0 + ("" if truth is True else "=%s" % (truth,))]
    if isinstance(o, tuple) and o[0] == "bin" and o[1] in ("Lt", "Eq") and isinstance(truth, bool):
        a, b = term_sig_(o[2]), term_sig_(o[3])
        if o[1] == "Lt":
            out += ["Gt(%s, %s)" % (b, a)] if truth else ["Ge(%s, %s)" % (a, b), "Le(%s, %s)" % (b, a), "Gt(%s, %s)=False" % (b, a)]
        else:
            out += ["Eq(%s, %s)" % (b, a)] if truth else ["Ne(%s, %s)" % (a, b), "Ne(%s, %s)" % (b, a)]
    if isinstance(o, tuple) and o[0] == "call" and isinstance(truth, bool) and not truth:
        if s0.startswith("is_some("):
            out.append("is_none(" + s0[len("is_some("):])
        if s0.startswith("is_ok("):
            out.append("is_err(" + s0[len("is_ok("):])
    return out


CMP_FLIP = {"Lt": "Gt", "Gt": "Lt", "Le": "Ge", "Ge": "Le", "Eq": "Eq", "Ne": "Ne"}
CMP_NEG = {"Lt": "Ge", "Ge": "Lt", "Gt": "Le", "Le": "Gt", "Eq": "Ne", "Ne": "Eq"}


def known_relations(ctx, fa, bb):
    """normalised facts (op, a, b) that hold on entry to bb"""
    facts = []
    for o, truth, sb in dominating_conditions(fa, bb):
        if not isinstance(o, tuple):
            continue
        if o[0] == "bin" and o[1] in CMP_FLIP and isinstance(truth, bool):
            op = o[1] if truth else CMP_NEG[o[1]]
            facts.append((op, o[2], o[3]))
            facts.append((CMP_FLIP[op], o[3], o[2]))
        elif o[0] == "call" and isinstance(truth, bool):
            nm = o[2].split("::")[-1]
            if nm == "is_empty":
                facts.append(("Gt" if not truth else "Eq", ("len", strip(o[3][0])), ("lit", 0)))
            elif nm in ("is_some", "is_ok") and truth or nm in ("is_none", "is_err") and not truth:
                facts.append(("present", strip(o[3][0]), None))
            elif nm == "contains_key" and truth:
                facts.append(("has_key", o[3][0], o[3][1]))
        elif o[0] == "disc":
            if truth == 1 or truth == 0:
                facts.append(("variant", strip(o[1]), truth))
    return facts


U32, U64 = (1 << 32) - 1, (1 << 64) - 1


def ub(ctx, fa, t, depth=0):
    """upper bound of an unsigned integer term, or None"""
    t = unwrap_ovf(t)
    v = ev(ctx, t)
    if v is not None:
        return v
    if depth > 12 or not isinstance(t, tuple):
        return None
    k = t[0]
    if k in ("ok", "some", "await"):
        return ub(ctx, fa, t[1], depth + 1)
    if k == "join":
        xs = [x for x in t[1] if not contains(x, lambda s: isinstance(s, tuple) and s and s[0] == "cycle")]
        bs = [ub(ctx, fa, x, depth + 1) for x in xs]
        if len(xs) == len(t[1]) and bs and all(b is not None for b in bs):
            return max(bs)
        return None
    if k == "bin":
        a, b = ub(ctx, fa, t[2], depth + 1), ub(ctx, fa, t[3], depth + 1)
        op = t[1]
        if op == "BitAnd":
            c = [x for x in (ev(ctx, t[2]), ev(ctx, t[3])) if x is not None]
            if c:
                return min(c)
            return min([x for x in (a, b) if x is not None], default=None)
        if op == "Div" and a is not None:
            d = ev(ctx, t[3])
            return a // d if d else None
        if op == "Rem":
            d = ev(ctx, t[3])
            return d - 1 if d else None
        if op == "Sub":
            return a
        if op == "Shr" and a is not None:
            s = ev(ctx, t[3])
            return a >> s if s is not None else a
        if op in ("Add", "Mul") and a is not None and b is not None:
            return a + b if op == "Add" else a * b
        return None
    if k == "call":
        nm = t[2].split("::")[-1]
        if nm == "min":
            bs = [ub(ctx, fa, x, depth + 1) for x in t[3]]
            bs = [b for b in bs if b is not None]
            return min(bs) if bs else None
        if nm in ("expect", "unwrap", "try_into", "try_from", "into", "from"):
            return ub(ctx, fa, t[3][0], depth + 1)
    return None


def const_size(ctx, fa, t, depth=0):
    """value of a size expression built from constants and encoded_size() of fixed-width codec
    types (FixedWidthUint<uN> = N/8 bytes, [u8; N] = N bytes), else None"""
    from ..codec import self_type_of, classify_type
    from ..analysis import wrap_payload
    if depth > 12 or not isinstance(t, tuple):
        return None
    t = unwrap_ovf(strip(t))
    v = ev(ctx, t)
    if v is not None:
        return v
    if t[0] == "bin" and t[1] in ("Add", "Mul"):
        a, b = const_size(ctx, fa, t[2], depth + 1), const_size(ctx, fa, t[3], depth + 1)
        if a is None or b is None:
            return None
        return a + b if t[1] == "Add" else a * b
    if t[0] == "call" and t[2] == "compact_encoding::CompactEncoding::encoded_size" and 0 <= t[1] < len(fa.blocks):
        st = self_type_of(fa.blocks[t[1]].term.get("callee_full"))
        c = classify_type(st or "?", {})
        if c[0] in ("fixed", "fixedle") and isinstance(c[1], int):
            return c[1]
    if t[0] == "join":
        vs = [const_size(ctx, fa, x, depth + 1) for x in t[1]]
        if vs and all(x is not None and x == vs[0] for x in vs):
            return vs[0]
    return None


def const_len(ctx, fa, t, depth=0):
    """length of a byte buffer term when it is a compile-time constant: `vec![x; N]` with N a
    const_size, through expect/unwrap of a Result whose only Ok member is such a buffer"""
    from ..analysis import wrap_payload
    if depth > 8 or not isinstance(t, tuple):
        return None
    t = strip(t)
    if t[0] == "call" and t[2].split("::")[-1] in ("expect", "unwrap") and t[3]:
        inner = t[3][0]
        p = wrap_payload("ok", inner)
        if p[0] == "ok":
            p = wrap_payload("some", inner)
        if p == ("never",) or p[0] in ("ok", "some"):
            return None
        return const_len(ctx, fa, p, depth + 1)
    if t[0] == "call" and t[2].split("::")[-1] == "from_elem" and len(t[3]) == 2:
        return const_size(ctx, fa, t[3][1])
    if t[0] == "repeat":
        try:
            return int(t[2])
        except Exception:
            return None
    if t[0] == "join":
        vs = [const_len(ctx, fa, x, depth + 1) for x in t[1]]
        if vs and all(x is not None and x == vs[0] for x in vs):
            return vs[0]
    return None


# ---------------------------------------------------------------- symbolic bounds
def _range_of(t):
    """(start, end, inclusive, step) if t is an element of `(a..b)`, `(a..=b)` or such a range `.step_by(s)`"""
    t = strip(t)
    if not (t[0] == "call" and t[2].split("::")[-1] == "next" and t[3]):
        return None
    it = strip(t[3][0])
    step = ("lit", 1)
    if it[0] == "call" and it[2].split("::")[-1] == "step_by" and len(it[3]) == 2:
        step = it[3][1]
        it = strip(it[3][0])
    if is_agg(it) and it[1].split("::")[-1] == "Range":
        return agg_field(it, "start"), agg_field(it, "end"), False, step
    if it[0] == "call" and it[2].endswith("RangeInclusive::<Idx>::new") and len(it[3]) == 2:
        return it[3][0], it[3][1], True, step
    if is_agg(it) and it[1].split("::")[-1] == "RangeInclusive":
        return agg_field(it, "start"), agg_field(it, "end"), True, step
    return None


def upper_bounds(ctx, fa, bb, E):
    """[(B, strict)]: terms with E <= B (E < B if strict) at block bb — from dominating comparison
    facts and from what a range iterator can yield"""
    out = []
    for op, a, b in known_relations(ctx, fa, bb):
        if a is None or b is None:
            continue
        if op in ("Le", "Lt") and same(a, E):
            out.append((b, op == "Lt"))
    r = _range_of(E)
    if r is not None:
        out.append((r[1], not r[2]))
    return out


def lower_bounds(ctx, fa, bb, E):
    """terms L with E >= L: the start of the range it is drawn from, or the initial value of a counter
    that is only ever increased by a positive constant"""
    out = []
    r = _range_of(E)
    if r is not None:
        out.append(r[0])
    sm = loop_sum(E)
    if sm is not None:
        st = ev(ctx, sm[1])
        if st is not None and st > 0:
            out.append(sm[0])
    for op, a, b in known_relations(ctx, fa, bb):
        if a is not None and b is not None and op in ("Ge", "Gt") and same(a, E):
            out.append(b)
    return out


def _min_parts(t):
    t = unwrap_ovf(strip(t))
    if t[0] == "call" and t[2].split("::")[-1] == "min" and len(t[3]) == 2:
        return [unwrap_ovf(strip(x)) for x in t[3]]
    return [t]


def discharge_bounds(ctx, site):
    """A2 by symbolic bounds: i <= min(P, len(base)) - c  gives  i + k < len(base) for k < c, etc."""
    fa, bb = site.fa, site.bb
    if site.kind != "assert":
        return None, None
    d = site.detail
    if d == "BoundsCheck":
        ln, ix = (unwrap_ovf(strip(x)) for x in site.ops)
        k = 0
        E = ix
        if ix[0] == "bin" and ix[1] == "Add" and ev(ctx, ix[3]) is not None:
            E, k = unwrap_ovf(strip(ix[2])), ev(ctx, ix[3])
        N = ev(ctx, ln)
        # (E - y) / dv < N
        if N is not None and ix[0] == "bin" and ix[1] == "Div" and ev(ctx, ix[3]):
            dv = ev(ctx, ix[3])
            num = unwrap_ovf(strip(ix[2]))
            if num[0] == "bin" and num[1] == "Sub":
                E2, y = unwrap_ovf(strip(num[2])), unwrap_ovf(strip(num[3]))
                ly = lin(ctx, y)
                for B, strict in upper_bounds(ctx, fa, bb, E2):
                    Bu = unwrap_ovf(strip(B))
                    c = 0
                    if Bu[0] == "bin" and Bu[1] == "Sub" and ev(ctx, Bu[3]) is not None:
                        c, Bu = ev(ctx, Bu[3]), unwrap_ovf(strip(Bu[2]))
                    for M in _min_parts(Bu):
                        lm = lin(ctx, M)
                        if lm is None or ly is None:
                            continue
                        diff = {k_: lm.get(k_, 0) - ly.get(k_, 0) for k_ in set(lm) | set(ly)}
                        if all(v == 0 for k_, v in diff.items() if k_ != 1):
                            top = int(diff.get(1, 0)) - c - (1 if strict else 0)
                            if top >= 0 and top // dv < N:
                                return "A2", "(i - y) / %d with i <= y + %d: at most %d < %d" % (dv, top, top // dv, N)
        # E + k < len(base)
        if ln[0] == "len":
            for B, strict in upper_bounds(ctx, fa, bb, E):
                Bu = unwrap_ovf(strip(B))
                c = 0
                if Bu[0] == "bin" and Bu[1] == "Sub" and ev(ctx, Bu[3]) is not None:
                    c, Bu = ev(ctx, Bu[3]), unwrap_ovf(strip(Bu[2]))
                for M in _min_parts(Bu):
                    if same(M, ln) and (k < c or (strict and k <= c)):
                        return "A2", "index <= min(.., len(base)) - %d, offset %d: below len(base)" % (c, k)
    if d == "Overflow(Sub)":
        a, b = (unwrap_ovf(strip(x)) for x in site.ops)
        for L in lower_bounds(ctx, fa, bb, a):
            if same(L, b):
                return "A2", "minuend is drawn from a range / counter that starts at the subtrahend"
        # min(P, Q) - c with P >= c and Q >= c
        cv = ev(ctx, b)
        if cv is not None and a[0] == "call" and a[2].split("::")[-1] == "min":
            def at_least(t_):
                t_ = unwrap_ovf(strip(t_))
                if t_[0] == "bin" and t_[1] == "Add" and ((ev(ctx, t_[3]) or 0) >= cv or (ev(ctx, t_[2]) or 0) >= cv):
                    return True   # unsigned x + k >= k
                if (ev(ctx, t_) or -1) >= cv:
                    return True
                for op, x, y in known_relations(ctx, fa, bb):
                    if x is None or y is None:
                        continue
                    if op in ("Ge", "Gt") and same(x, t_):
                        yu = unwrap_ovf(strip(y))
                        if (ev(ctx, yu) or -1) >= cv or (yu[0] == "bin" and yu[1] == "Add" and ((ev(ctx, yu[3]) or 0) >= cv or (ev(ctx, yu[2]) or 0) >= cv)):
                            return True
                return False
            if all(at_least(x) for x in a[3]):
                return "A2", "min(P, Q) - %d with P >= %d and Q >= %d" % (cv, cv, cv)
    return None, None


def discharge_auto(ctx, site):
    how, why = _discharge_auto(ctx, site)
    if how:
        return how, why
    return discharge_bounds(ctx, site)


def _discharge_auto(ctx, site):
    fa, bb = site.fa, site.bb
    facts = None
    def F():
        nonlocal facts
        if facts is None:
            facts = known_relations(ctx, fa, bb)
        return facts
    k = site.kind
    if k == "assert":
        d = site.detail
        if d in ("DivisionByZero", "RemainderByZero"):
            v = ev(ctx, site.ops[0])
            if v is not None and v != 0:
                return "A1", "constant non-zero divisor %s" % v
        if d == "BoundsCheck":
            ln, ix = site.ops
            lv, iv = ev(ctx, ln), ev(ctx, ix)
            if lv is not None and iv is not None and iv < lv:
                return "A1", "constant index %d below constant length %d" % (iv, lv)
            base = strip(ln)
            for op, a, b in F():
                if op == "Lt" and same(a, ix) and same(b, ln):
                    return "A2", "guard %s < %s" % (term_sig_(ix), term_sig_(ln))
            # index 0 under non-empty
            if iv is not None:
                for op, a, b in F():
                    bv = ev(ctx, b)
                    if same(a, ln) and bv is not None and ((op == "Gt" and bv >= iv) or (op == "Ge" and bv > iv)):
                        return "A2", "guard len > %d" % iv
            u = ub(ctx, fa, ix)
            if lv is not None and u is not None and u < lv:
                return "A1", "index bounded by %d below constant length %d" % (u, lv)
            # for i in 0..v.len() { v[i] }  on a slice (BoundsCheck form of the Index idiom below)
            s_ix, s_ln = term_sig_(ix), term_sig_(strip(ln))
            if s_ix.startswith("some(next(") and "start: 0" in s_ix and ("end: %s" % s_ln) in s_ix:
                return "A2", "index iterates 0..len(base)"
            # a chunk produced by chunks_exact(_, n) / a [T; n] has exactly n elements
            base_ = strip(ln[1]) if ln[0] == "len" else None
            if base_ is not None and iv is not None:
                for x_ in subterms(base_):
                    if isinstance(x_, tuple) and len(x_) == 4 and x_[0] == "call" and x_[2].split("::")[-1] in ("chunks_exact", "chunks_exact_mut") and len(x_[3]) == 2:
                        n_ = ev(ctx, x_[3][1])
                        if n_ is not None and iv < n_ and term_sig_(base_).startswith("some(next("):
                            return "A1", "constant index %d into a chunk of chunks_exact(_, %d)" % (iv, n_)
        if d == "Overflow(Sub)":
            a, b = site.ops
            av, bv = ev(ctx, a), ev(ctx, b)
            if av is not None and bv is not None and av >= bv:
                return "A1", "constant operands %d - %d" % (av, bv)
            for op, x, y in F():
                if op in ("Ge", "Gt") and same(x, a) and same(y, b):
                    return "A2", "guard %s %s %s" % (term_sig_(a), ">=" if op == "Ge" else ">", term_sig_(b))
                if bv is not None and same(x, a):
                    yv = ev(ctx, y)
                    if yv is not None and ((op == "Gt" and yv >= bv - 1) or (op == "Ge" and yv >= bv) or (op == "Ne" and yv == 0 and bv == 1)):
                        return "A2", "guard %s %s %d covers - %d" % (term_sig_(a), op, yv, bv)
            # a = x & mask style: (index - (index & m)) is always fine
            ua, ub_ = unwrap_ovf(a), unwrap_ovf(b)
            if ub_[0] == "bin" and ub_[1] == "BitAnd" and (same(ub_[2], ua) or same(ub_[3], ua)):
                return "A1", "x - (x & m) cannot underflow"
            if ua[0] == "bin" and ua[1] == "Add" and (same(ua[2], ub_) or same(ua[3], ub_)):
                return "A1", "(a + b) - a cannot underflow"
            if av is not None:
                u = ub(ctx, fa, b)
                if u is not None and u <= av:
                    return "A1", "constant %d minus a value bounded by %d" % (av, u)
            # a = len(v), b = 1 under any fact  x < len(v)
            if bv == 1:
                for op, x, y in F():
                    if op == "Lt" and same(y, a):
                        return "A2", "guard (something < %s) implies it is positive" % term_sig_(a)
                    if op == "Gt" and same(x, a):
                        return "A2", "guard %s > something implies it is positive" % term_sig_(a)
    if k == "unwrap":
        x = strip(site.ops[0])
        for f in F():
            if f[0] == "present" and same(f[1], x):
                return "A2", "dominated by is_some/is_ok on the same value"
            if f[0] == "variant" and f[2] == 1 and same(f[1], x) and site.detail in ("unwrap", "expect"):
                return "A2", "dominated by the Some/Ok pattern edge"
        # unwrap of a value just built as Some/Ok
        if is_agg(x, "Some") or is_agg(x, "Ok"):
            return "A1", "value constructed as Some/Ok"
        # map.get(k).unwrap() under map.contains_key(k)
        if x[0] == "call" and x[2].split("::")[-1] in ("get", "get_mut") and len(x[3]) == 2:
            for f in F():
                if f[0] == "has_key" and same(f[1], x[3][0]) and same(f[2], x[3][1]):
                    return "A2", "dominated by contains_key on the same map and key"
        # integer narrowing of a bounded value
        if x[0] == "call" and x[2].split("::")[-1] in ("try_into", "try_from"):
            t_ = fa.blocks[site.bb].term
            ty = t_.get("arg_tys", [""])[0]
            u = ub(ctx, fa, x[3][0])
            lim = U32 if "<u32," in ty else (U64 if ("<usize," in ty or "<u64," in ty) else None)
            if "<usize," in ty and ("u32" in str(fa.blocks[x[1]].term.get("callee_full")) or "u32" in str(fa.blocks[x[1]].term.get("arg_tys"))):
                return "A1", "u32 -> usize conversion cannot fail on a 64-bit target"
            if u is not None and lim is not None and u <= lim:
                return "A1", "narrowing of a value bounded by %d" % u
    if k == "index":
        base, ix = site.ops[0], site.ops[1] if len(site.ops) > 1 else None
        if ix is not None:
            for op, a, b in F():
                if op == "Lt" and same(a, ix) and b[0] == "len" and same(b[1], base):
                    return "A2", "guard index < len(base)"
            iv = ev(ctx, ix)
            if iv is not None:
                for op, a, b in F():
                    bv = ev(ctx, b)
                    if a[0] == "len" and same(a[1], base) and bv is not None and ((op == "Gt" and bv >= iv) or (op == "Ge" and bv > iv)):
                        return "A2", "guard len(base) > %d" % iv
            # for i in 0..len(base)
            s = term_sig_(ix)
            bs = term_sig_(strip(base))
            if s.startswith("some(next(") and ("end: len(%s)" % bs) in s and "start: 0" in s:
                return "A2", "index iterates 0..len(base)"
            if s.startswith("some(next(") and ("end: some(position(%s, " % bs) in s and "start: 0" in s:
                return "A2", "index iterates 0..position found in the same base (position < len(base))"
            uix = unwrap_ovf(ix)
            # base[len(base) - j] under len(base) > j-1
            if uix[0] == "bin" and uix[1] == "Sub" and uix[2][0] == "len" and same(uix[2][1], base):
                j = ev(ctx, uix[3])
                if j is not None:
                    for op, a, b in F():
                        bv = ev(ctx, b)
                        if a[0] == "len" and same(a[1], base) and bv is not None and ((op == "Gt" and bv >= j - 1) or (op == "Ge" and bv >= j) or (op == "Ne" and bv == 0 and j == 1)):
                            return "A2", "guard len(base) %s %d covers [len-%d]" % (op, bv, j)
                        if a[0] == "len" and same(a[1], base) and op == "Gt" and j == 1:
                            return "A2", "guard len(base) > (unsigned) covers [len-1]"
        # the indexed collection is the payload of an Option / Result assembled on several paths
        # (`o.filter(|x| !x.v.is_empty())`, `if c { Some(x) } else { None }`): the length guard may hold
        # where each Some / Ok alternative is built instead of at the index itself
        if ix is not None and ev(ctx, ix) is not None and fa.blocks[bb].term["k"] == "call" and fa.blocks[bb].term["args"]:
            iv_ = ev(ctx, ix)
            alts = guarded_values(fa, fa.blocks[bb].term["args"][0])
            live = [(t_, db_) for t_, db_ in alts if db_ is not None and not contains(t_, lambda q: isinstance(q, tuple) and q and q[0] == "agg" and q[2] in ("None", "Err"))]
            if len(alts) >= 2 and live:
                def guarded_at(db_):
                    for op, a, b in known_relations(ctx, fa, db_):
                        bv = ev(ctx, b) if b is not None else None
                        if a is not None and a[0] == "len" and same(a[1], base) and bv is not None and ((op == "Gt" and bv >= iv_) or (op == "Ge" and bv > iv_)):
                            return True
                    return False
                if all(guarded_at(db_) for _, db_ in live):
                    return "A2", "every Some/Ok alternative of the indexed value is built under len(base) > %d" % iv_
        # base[i..] / base[..i] with i a counter that starts at 0 and is only ever incremented by 1
        # under the guard i < len(base): by induction i <= len(base)
        if ix is not None and is_agg(ix) and ix[1].split("::")[-1] in ("RangeFrom", "RangeTo") and fa.blocks[bb].term["k"] == "call" and len(fa.blocks[bb].term["args"]) > 1:
            p_ = op_place(fa.blocks[bb].term["args"][1])
            bound_op = None
            for _ in range(6):
                if p_ is None or p_["p"]:
                    break
                ds_ = [d for d in fa.body.defs.get(p_["l"], []) if not d[3]["p"]]
                if len(ds_) != 1 or ds_[0][0] != "assign":
                    break
                rv_ = ds_[0][4]
                if rv_["k"] == "agg" and rv_.get("ops"):
                    bound_op = rv_["ops"][0]
                    break
                if rv_["k"] == "use":
                    p_ = op_place(rv_["op"])
                    continue
                break
            if bound_op is not None and op_place(bound_op) is not None:
                alts = guarded_values(fa, bound_op, at=(ds_[0][1], ds_[0][2]))
                ok_ = len(alts) >= 2
                for t_, db_ in alts:
                    u_ = unwrap_ovf(strip(t_))
                    if ev(ctx, u_) == 0:
                        continue
                    if u_[0] == "bin" and u_[1] == "Add" and ev(ctx, u_[3]) == 1 and db_ is not None:
                        prev = u_[2]
                        lv = lambda q_: frozenset(x_[1] for x_ in subterms(q_) if isinstance(x_, tuple) and x_ and x_[0] == "cycle")
                        # the guard and the increment speak about the same loop-carried variable (its terms differ by program point)
                        if any(op == "Lt" and a is not None and b is not None and (same(a, prev) or (lv(a) and lv(a) == lv(prev))) and b[0] == "len" and same(b[1], base) for op, a, b in known_relations(ctx, fa, db_)):
                            continue
                    ok_ = False
                if ok_:
                    return "A2", "slice bound is a counter from 0 incremented only under counter < len(base): counter <= len(base)"
        # base[s..min(s + c, len(base))] under a guard len(base) >= s (+ k): start <= end <= len(base)
        if ix is not None and is_agg(ix) and ix[1].split("::")[-1] == "Range":
            d_ = dict(ix[3])
            st_, en_ = d_.get("start"), d_.get("end")
            e_ = unwrap_ovf(strip(en_)) if en_ is not None else None
            if st_ is not None and e_ is not None and e_[0] == "call" and e_[2].split("::")[-1] == "min" and len(e_[3]) == 2:
                parts_ = [unwrap_ovf(strip(x_)) for x_ in e_[3]]
                has_len = any(x_[0] == "len" and same(x_[1], base) for x_ in parts_)
                grows = any(x_[0] == "bin" and x_[1] == "Add" and (same(x_[2], st_) or same(x_[3], st_)) for x_ in parts_)
                guarded = False
                for op, a, b in F():
                    if op in ("Ge", "Gt") and a is not None and b is not None and a[0] == "len" and same(a[1], base):
                        ub_ = unwrap_ovf(b)
                        if same(ub_, st_) or (ub_[0] == "bin" and ub_[1] == "Add" and (same(ub_[2], st_) or same(ub_[3], st_))):
                            guarded = True
                if has_len and grows and guarded:
                    return "A2", "slice start..min(start + c, len(base)) under the guard len(base) >= start"
        # constant bounds inside a buffer of constant length
        if ix is not None and is_agg(ix) and ix[1].split("::")[-1] in ("RangeTo", "RangeFrom", "Range", "RangeInclusive", "RangeToInclusive"):
            L = const_len(ctx, fa, base)
            bnds = [ev(ctx, o) for f_, o in ix[3]]
            if L is not None and bnds and all(b_ is not None and b_ <= L for b_ in bnds) and "Inclusive" not in ix[1] and bnds == sorted(bnds):
                return "A1", "constant slice bounds %s within a buffer of constant length %d" % (bnds, L)
        # base[..p] / base[p..] with p = position(..) found in the same base: p < len(base)
        if ix is not None and is_agg(ix) and ix[1].split("::")[-1] in ("RangeTo", "RangeFrom", "Range"):
            ends = [strip(o) for f_, o in ix[3]]
            def in_base(e):
                return (e[0] == "call" and e[2].split("::")[-1] in ("position", "rposition") and e[3] and strip(e[3][0]) == strip(base)) or ev(ctx, e) == 0
            if ends and all(in_base(e) for e in ends):
                return "A2", "slice bound is a position found in the same base (position < len(base))"
    if k == "call":
        if site.detail in ("split_at", "split_at_mut") and len(site.ops) > 1:
            L, v = const_len(ctx, fa, site.ops[0]), ev(ctx, site.ops[1])
            if L is not None and v is not None and v <= L:
                return "A1", "split point %d within a buffer of constant length %d" % (v, L)
        if site.detail == "copy_from_slice" and len(site.ops) == 2:
            def fixed_len(t_):
                t_ = strip(t_)
                for x_ in subterms(t_):
                    if isinstance(x_, tuple) and len(x_) == 4 and x_[0] == "call" and x_[2].split("::")[-1] in ("chunks_exact", "chunks_exact_mut") and len(x_[3]) == 2 and term_sig_(t_).startswith("some(next("):
                        return ev(ctx, x_[3][1])
                if t_[0] == "call" and t_[2].split("::")[-1] in ("to_le_bytes", "to_be_bytes", "to_ne_bytes"):
                    import re as _re
                    m_ = _re.search(r"impl [ui](\d+)>", t_[2])
                    return int(m_.group(1)) // 8 if m_ else None
                return const_len(ctx, fa, t_)
            la, lb = fixed_len(site.ops[0]), fixed_len(site.ops[1])
            if la is not None and la == lb:
                return "A1", "copy_from_slice between two slices of constant length %d" % la
        if site.detail in ("chunks", "chunks_exact", "chunks_mut", "chunks_exact_mut", "windows", "step_by") and len(site.ops) > 1:
            v = ev(ctx, site.ops[1])
            if v is not None and v > 0:
                return "A1", "constant non-zero %s size %d" % (site.detail, v)
    if k == "assert" and site.detail == "Overflow(Sub)":
        # len(v) - count(<adaptor chain over v>): an iterator over v yields at most len(v) items
        a, b = (strip(unwrap_ovf(x)) for x in site.ops)
        if a[0] == "len" and b[0] == "call" and b[2].split("::")[-1] == "count":
            src = b[3][0] if b[3] else None
            hops = 0
            while src is not None and hops < 8:
                src = strip(src)
                if src == strip(a[1]):
                    return "A2", "count() of an iterator over the same collection is at most its length"
                if src[0] == "call" and src[2].split("::")[-1] in ("take_while", "rev", "filter", "skip_while", "skip", "take", "iter", "into_iter", "enumerate", "peekable") and src[3]:
                    src = src[3][0]
                    hops += 1
                    continue
                break
    return None, None


ENCODE_INFALLIBLE = ("to_encoded_bytes!-style encoding: the buffer is sized with encoded_size of the very values it then receives; encoded_size / encode of fixed-width integers "
                     "and fixed-size byte arrays into an exactly sized buffer cannot fail; as_array::<32> is applied to hashes, which are 32 bytes here (BLAKE2b-256 output, [u8;32] wire decoding, 32-byte stored nodes)")


def pattern_assumption(ctx, site):
    """Reviewed invariants that are recognised by the SHAPE of the unwrapped value rather than by a
    site key, so that extracting the encoding into a helper or encoding fields one by one does
    not need a new table entry.  Pattern 1: `.expect(..)` / `.unwrap()` on the Result of a
    to_encoded_bytes!-style encoding whose every failing member is an encoded_size / encode call
    on a fixed-width codec type (FixedWidthUint<uN>, [u8; N]) or `as_array` of a hash."""
    from ..codec import self_type_of, classify_type
    from ..analysis import wrap_payload
    if site.kind != "unwrap" or site.detail not in ("expect", "unwrap") or not site.ops:
        return None
    fa = site.fa
    rs = roots(site.ops[0])
    errs = [r for r in rs if is_agg(r, "Err")]
    oks = [r for r in rs if not is_agg(r, "Err")]
    if not errs or not all(is_agg(r, "Ok") or (strip(r)[0] == "call" and strip(r)[2].split("::")[-1] in ("from_elem", "into_boxed_slice")) for r in oks):
        return None
    for e in errs:
        src = strip(agg_field(e, "0"))
        if src[0] == "err":
            src = strip(src[1])
        if src[0] != "call" or not (0 <= src[1] < len(fa.blocks)):
            return None
        nm = src[2].split("::")[-1]
        if nm == "as_array":
            continue
        if nm in ("encoded_size", "encode") and src[2].startswith("compact_encoding::CompactEncoding"):
            st = self_type_of(fa.blocks[src[1]].term.get("callee_full"))
            c = classify_type(st or "?", {})
            if c[0] in ("fixed", "fixedle"):
                continue
        return None
    return ENCODE_INFALLIBLE


def closure_of(ctx, entries):
    g = cg(ctx)
    start = []
    for e in entries:
        for b in ctx.crate.group(e):
            start.append(b.name)
    return g.reach_from(start)


def data_key(key):
    """a site key without the callee-name leaves: function | kind | detail{parameters, fields, constants}#shape"""
    import re as _re
    m = _re.match(r"^(.*?\{)(.*?)(\}.*)$", key)
    if not m:
        return key
    leaves = [x for x in m.group(2).split(",") if x and not x.endswith("()")]
    return m.group(1) + ",".join(leaves) + m.group(3)


_NEAR = {}


def near_index(table):
    k = id(table)
    if k not in _NEAR:
        idx = {}
        for key, e in table.items():
            idx.setdefault(data_key(key), []).append(e)
        _NEAR.clear()
        _NEAR[k] = idx
    return _NEAR[k]


def load_table():
    path = os.path.join(os.path.dirname(os.path.dirname(os.path.dirname(os.path.abspath(__file__)))), "rules", "panic_sites.json")
    if not os.path.exists(path):
        return {}
    return {e["key"]: e for e in json.load(open(path))}


USED_KEYS = set()


def panic_rule(ctx, prop, rule, entries, floor=0, skip_fns=(), only_fn=None):
    Site.ctx = ctx
    names = closure_of(ctx, entries)
    table = load_table()
    n_sites = n_counted = 0
    used = set()
    stats = {"A1": 0, "A2": 0, "A3": 0, "A4": 0}
    bodies = 0
    for nm in sorted(names):
        for b in ctx.crate.bodies.get(nm, []):
            if fn_of(b.name) in skip_fns or (only_fn is not None and fn_of(b.name) != only_fn):
                continue
            fa = ctx.fa(b)
            bodies += 1
            sites_, counted = panic_sites(ctx, fa)
            n_counted += counted
            # group identical keys (macro duplicates) but check each
            for s in sites_:
                n_sites += 1
                how, why = discharge_auto(ctx, s)
                key = s.key()
                anchor = "%s: %s" % (s.fn.split("::")[-1], s.sig()[:110])
                if how:
                    stats[how] += 1
                    ctx.ok(prop, rule, anchor, "%s: %s" % (how, why), [s.where()])
                    continue
                pat = pattern_assumption(ctx, s)
                if pat is not None:
                    stats["A4"] += 1
                    ctx.ok(prop, rule, anchor, "A4 (assumed invariant, by pattern): %s" % pat, [s.where()], assumed=True)
                    continue
                e = table.get(key)
                near = False
                if e is not None:
                    used.add(key)
                    USED_KEYS.add(key)
                else:
                    # the same site after a restructuring that only changed HOW its operands are computed
                    # (a helper, another accessor): same function, kind, detail, data sources (parameters,
                    # fields, constants) and arithmetic shape — unique among the reviewed entries
                    cands = near_index(table).get(data_key(key), [])
                    if len(cands) == 1:
                        e, near = cands[0], True
                        USED_KEYS.add(e["key"])
                if e is not None:
                    if e.get("guard"):
                        # A3: the named guard must still dominate the site
                        conds = [c_ for o, t, _ in dominating_conditions(s.fa, s.bb) for c_ in cond_spellings(o, t)]
                        okg = any(e["guard"] in c for c in conds)
                        if okg:
                            stats["A3"] += 1
                            ctx.ok(prop, rule, anchor, "A3: reviewed; required guard `%s` dominates the site" % e["guard"], [s.where()])
                        else:
                            ctx.fail(prop, rule, anchor, "reviewed panic site lost its guard: `%s` no longer dominates %s at %s (dominating conditions: %s)" % (e["guard"], s.sig(), s.where(), conds[:6]), [s.where()],
                                     key="%s|%s|%s|guard lost" % (prop, rule, key))
                    else:
                        stats["A4"] += 1
                        ctx.ok(prop, rule, anchor, "A4 (assumed invariant%s): %s" % (", entry matched by data sources after restructuring" if near else "", e["reason"]), [s.where()], assumed=True)
                    continue
                ctx.fail(prop, rule, anchor, "panic-capable construct reachable from %s is not discharged: %s at %s — no dominating guard, constant operands, or reviewed entry" % (
                    "/".join(x.split("::")[-1] for x in entries), s.sig(), s.where()), [s.where()], key="%s|%s|%s" % (prop, rule, key))
    if floor and n_sites < floor and ctx.crate.name == "hypercore":
        ctx.missing(prop, rule, "panic-capable sites in the closure of %s" % entries, "found %d (floor %d)" % (n_sites, floor))
    ctx.ok(prop, rule, "closure of %s enumerated" % ",".join(x.split("::")[-1] for x in entries),
           "%d bodies, %d panic-capable sites (A1 const %d, A2 guard %d, A3 reviewed+guard %d, A4 assumed %d), %d add/mul/shl overflow asserts counted (not obligations below 2^40)" % (
               bodies, n_sites, stats["A1"], stats["A2"], stats["A3"], stats["A4"], n_counted))
    return n_sites, stats




# ===========================================================================
ENTRIES = [CREATE_PROOF, VAP]


def r1(ctx):
    panic_rule(ctx, P, "C09.R1", ENTRIES, floor=100)


def r3(ctx):
    names = sorted(set(fn_of(n) for n in closure_of(ctx, ENTRIES)))
    loops_can_exit(ctx, P, "C09.R3", names, floor=40)


def r4(ctx):
    rule = "C09.R4"
    fa = ctx.fn(MT_CVP)
    if need(ctx, P, rule, MT_CVP, fa):
        # from >= to || to > head  ->  Err, however the test is spelled: comparisons are canonical
        # (`a >= b` is the false side of `a < b`), so `!(from < to && to <= head)` is the same rule
        def lt_edges(pa, pb):
            """[(switch bb, edge where a < b holds, edge where a >= b holds)]"""
            out = []
            for bb, o, tr, fl in bool_switches(fa, lambda o: o[0] == "bin" and o[1] == "Lt"):
                if pa(term_str(o[2])) and pb(term_str(o[3])):
                    out.append((bb, tr, fl))
            return out
        is_from = lambda t_: "upgrade).start" in t_ and "upgrade).length" not in t_
        is_to = lambda t_: "upgrade).length" in t_
        is_head = lambda t_: "self.length" in t_ and "upgrade" not in t_
        ge = lt_edges(is_from, is_to)          # from < to  | from >= to
        gt = lt_edges(is_head, is_to)          # head < to  | to <= head
        ok1 = ok2 = False
        if ge:
            vals = [t for _, _, t in ret_values_in_region(fa, ge[0][2])]
            ok1 = bool(vals) and all(is_agg(t, "Err") for t in vals)
        if gt:
            vals = [t for _, _, t in ret_values_in_region(fa, gt[0][1])]
            ok2 = bool(vals) and all(is_agg(t, "Err") for t in vals)
        ctx.check(P, rule, "create_valueless_proof rejects an empty or inverted upgrade range", ok1, "from >= to returns Err", "no `from >= to => Err` validation of the upgrade range", key="C09|C09.R4|create_valueless_proof|from>=to")
        ctx.check(P, rule, "create_valueless_proof rejects an upgrade beyond the tree", ok2, "to > head returns Err", "no `to > head => Err` validation of the upgrade range", key="C09|C09.R4|create_valueless_proof|to>head")
        if ge and gt:
            passed = [ge[0][1], gt[0][2]]
            users = sites_any(fa, (MT + "::upgrade_proof", MT + "::additional_upgrade_proof", NODES_TO_ROOT, MT + "::seek_from_head", MT + "::block_and_seek_proof"))
            bad = [s for s in users if not all(fa.dominates(p_, s) for p_ in passed)]
            ctx.check(P, rule, "range validation precedes every use of from/to", users and not bad, "%d proof-building calls all behind the validation" % len(users), "proof-building calls not dominated by the range validation: %s" % [loc(fa, s) for s in bad])
    fn_ = ctx.fn(NODES_TO_ROOT)
    if need(ctx, P, rule, NODES_TO_ROOT, fn_):
        cs = [s for s, t in fn_.calls() if (t.get("callee") or "").endswith("flat_tree::Iterator::contains")]
        lp = fn_.loops()
        good = bool(cs) and any(cs[0] in body for _, body, _ in lp)
        if good:
            sw = list(bool_switches(fn_, lambda o: o[0] == "call" and o[1] == cs[0]))
            vals = [t for _, _, t in ret_values_in_region(fn_, sw[0][2])] if sw else []
            good = bool(vals) and all(is_agg(t, "Err") for t in vals) and strip(sw[0][1][3][1]) == ("param", "head")
        ctx.check(P, rule, "nodes_to_root stops climbing at the tree head", good, "each step checks iter.contains(head) => Err", "nodes_to_root does not bound the requested node count by the tree head", key="C09|C09.R4|nodes_to_root|head check")
    fs = ctx.fn(NQ_SHIFT)
    if need(ctx, P, rule, NQ_SHIFT, fs):
        idx = [s for s, t in fs.calls() if t.get("callee") == "std::ops::Index::index" and "self.nodes" in term_str(fs.arg_origin(s, 0))]
        good = False
        if idx:
            for o, truth, sb in dominating_conditions(fs, idx[0]):
                if o[0] == "bin" and o[1] == "Lt" and truth is True and "self.i" in term_str(o[2]) and "self.nodes" in term_str(o[3]):
                    good = True
        if not idx:
            # no indexing at all: the cursor is used through the checked accessor `self.nodes.get(self.i)`
            gets = [s_ for s_, t_ in fs.calls() if (t_.get("callee") or "").endswith("::get") and "self.nodes" in term_str(fs.arg_origin(s_, 0)) and "self.i" in term_str(fs.arg_origin(s_, 1))]
            good = bool(gets)
        ctx.check(P, rule, "NodeQueue::shift checks the cursor before indexing", good, "self.i >= self.nodes.len() => Err dominates self.nodes[self.i]", "self.nodes[self.i] is not guarded by the cursor check", key="C09|C09.R4|NodeQueue::shift|cursor check")
    fu = ctx.fn(VERIFY_UPGRADE)
    if need(ctx, P, rule, VERIFY_UPGRADE, fu):
        # flat_tree::Iterator::left_child / right_child are no-ops on a leaf (factor == 2): a
        # descent towards an index the peer supplied (an additional node of the upgrade) makes no
        # progress from there, so each step must first refuse at a leaf
        desc = [s_ for s_, t_ in fu.calls() if (t_.get("callee") or "").split("::")[-1] in ("left_child", "right_child") and "flat_tree" in (t_.get("callee") or "")]
        lp = fu.loops()
        inl = [(s_, sorted([(h_, b_) for h_, b_, _ in lp if s_ in b_], key=lambda hb: len(hb[1]))) for s_ in desc]
        inl = [(s_, l_[0]) for s_, l_ in inl if l_]
        if need(ctx, P, rule, "verify_upgrade: descent (left_child) inside a loop", inl):
            for s_, (h_, body_) in inl:
                good = False
                for b_, o, tr, fl in bool_switches(fu, lambda o: o[0] == "bin" and o[1] == "Eq" and any(strip(x)[0] == "call" and strip(x)[2].endswith("flat_tree::Iterator::factor") for x in (o[2], o[3])) and any(term_is_lit(x, 2) for x in (o[2], o[3]))):
                    if b_ in body_ and tr is not None and tr not in body_ and fu.dominates(b_, s_) and fu.dominates(fl, s_):
                        vals = [t_ for _, _, t_ in ret_values_in_region(fu, tr)]
                        good = bool(vals) and all(is_agg(t_, "Err") for t_ in vals)
                ctx.check(P, rule, "verify_upgrade refuses at a leaf before descending further", good, "iter.factor() == 2 => Err dominates iter.left_child() in the loop",
                          "the loop in verify_upgrade that descends with %s towards the index of a peer-supplied node has no leaf test (`iter.factor() == 2` => error) before the step: on a leaf the step is a no-op, and an index left of the subtree keeps the loop spinning forever" % callee_of(fu.blocks[s_].term).split("::")[-1],
                          [site_desc(fu, s_)], key="C09|C09.R4|verify_upgrade|leaf test before descent")
    BSP = "tree::merkle_tree::MerkleTree::block_and_seek_proof"
    fb = ctx.fn(BSP)
    if need(ctx, P, rule, BSP, fb):
        # the climb `while iter.index() != root { sibling(); ..; parent() }` from the requested node
        # ends only if `root` is one of its ancestors; the callers in the upgrade proofs pass a root
        # that contains the seek position, which says nothing about the requested node (defect D15):
        # the function itself must refuse a root that does not contain the node
        climbs = [s_ for s_, t_ in fb.calls() if (t_.get("callee") or "").endswith("flat_tree::Iterator::parent")]
        lp = [(h_, b_) for h_, b_, _ in fb.loops() if any(s_ in b_ for s_ in climbs)]
        if need(ctx, P, rule, "block_and_seek_proof: climbing loop (parent())", lp):
            h_, body_ = sorted(lp, key=lambda hb: -len(hb[1]))[0]
            good = False
            for b_, o, tr, fl in bool_switches(fb, lambda o: o[0] == "call" and o[2].endswith("flat_tree::Iterator::contains") and len(o[3]) == 2):
                it, what = strip(o[3][0]), strip(o[3][1])
                it_ok = it[0] == "call" and it[2].endswith("flat_tree::Iterator::new") and strip(it[3][0]) == ("param", "root")
                what_ok = term_sig(what).endswith("indexed).index") or term_sig(what).endswith(".index") and "indexed" in term_sig(what)
                if it_ok and what_ok and tr is not None and fl is not None and fb.dominates(tr, h_) and not fb.can_reach(fl, h_):
                    vals = [t_ for _, _, t_ in ret_values_in_region(fb, fl)]
                    good = bool(vals) and all(is_agg(t_, "Err") for t_ in vals)
            ctx.check(P, rule, "block_and_seek_proof climbs only towards an ancestor of the requested node", good, "Iterator::new(root).contains(indexed.index) or Err, before the climb",
                      "block_and_seek_proof climbs from the requested node with sibling() / parent() until it meets `root` without first checking that `root` contains that node: a hash node that straddles the upgrade start, sent with a seek and an upgrade, makes upgrade_proof pass a root that is not its ancestor, and the climb never ends (multiply overflow in node())",
                      [loc(fb, h_)], key="C09|C09.R4|block_and_seek_proof|root contains node")
    fx = ctx.fn(NEXT_SLOT)
    if need(ctx, P, rule, NEXT_SLOT, fx):
        rets = [t for _, _, t in ret_assigns(fx)]
        vs = set()
        for t in rets:
            for r in roots(t):
                if is_agg(r) and r[1] == "tuple":
                    s0 = agg_field(r, "0")
                    for q in roots(s0):
                        vs.add(q[2] if is_agg(q) else term_str(q))
        ctx.check(P, rule, "slot rotation yields only the two header slots", vs == {"FirstHeader", "SecondHeader"}, "returns FirstHeader | SecondHeader", "get_next_header_oplog_slot_and_bit_value can return %s" % sorted(vs))


def has_fact(ctx, fa, bb, op, pa, pb):
    """is the normalised comparison fact (op, a, b) with pa(sig a) and pb(sig b) established on entry to bb?"""
    for o, a, b in known_relations(ctx, fa, bb):
        if o == op and a is not None and b is not None and pa(term_sig_(a)) and pb(term_sig_(b)):
            return True
    return False


def cmp_facts(ctx, fa, bb, pa, pb):
    return sorted(set(o for o, a, b in known_relations(ctx, fa, bb) if a is not None and b is not None and isinstance(o, str) and o in CMP_FLIP and pa(term_sig_(a)) and pb(term_sig_(b))))


def r5(ctx):
    """request-validation contracts: the comparison under which a request is refused (or short-cut)
    is the one the scheme prescribes — boundary cases included.  Comparisons are normalised
    (negation, operand order), so `!(a < b)` and `b <= a` are the same fact as `a >= b`."""
    rule = "C09.R5"
    fa = ctx.fn(MT_CVP)
    if need(ctx, P, rule, MT_CVP, fa):
        hit = None
        for bb, si, t in err_returns(fa):
            conds = [term_sig_(o) for o, tr, _ in dominating_conditions(fa, bb) if tr is True]
            if any(c == "is_some(seek)" for c in conds) and any(c == "is_some(upgrade)" for c in conds):
                hit = bb
        if need(ctx, P, rule, "create_valueless_proof: refusal of seek + block/hash inside the upgrade range", hit):
            ops = cmp_facts(ctx, fa, hit, lambda a: a.endswith(".index") and "normalize_indexed" in a, lambda b: "upgrade).start" in b)
            ctx.check(P, rule, "seek together with a block/hash at or beyond the upgrade start is refused", ops == ["Ge"], "refused when indexed.index >= from",
                      "create_valueless_proof refuses seek + block/hash + upgrade only when indexed.index %s from (the scheme refuses `>=`): the boundary request proceeds into block_and_seek_proof with a block that is not under the seek root" % ops,
                      [loc(fa, hit)], key="C09|C09.R5|create_valueless_proof|seek+block inside upgrade")
    fv = ctx.fn(MT + "::validate_hypercore_index")
    if need(ctx, P, rule, MT + "::validate_hypercore_index", fv):
        errs = [bb for bb, _, _ in err_returns(fv)]
        ops = cmp_facts(ctx, fv, errs[0], lambda a: "hypercore_index" in a, lambda b: b == "Mul(2, self.length)") if errs else []
        ctx.check(P, rule, "an index at or beyond the tree head is out of bounds", ops == ["Ge"], "Err when compare_index >= 2*length", "validate_hypercore_index refuses only when compare_index %s head" % ops, key="C09|C09.R5|validate_hypercore_index")
    fm = ctx.fn(MT_MISSING)
    if need(ctx, P, rule, MT_MISSING, fm):
        z = [bb for bb, _, t in ok_returns(fm) if is_agg(agg_field(t, "0"), "Right") and term_is_lit(agg_field(agg_field(t, "0"), "0"), 0)]
        ops = cmp_facts(ctx, fm, z[0], lambda a: "factor" in a, lambda b: b == "Mul(2, self.length)") if z else []
        ctx.check(P, rule, "missing_nodes answers 0 for an index outside the tree", ops == ["Ge"], "Ok(0) when right span >= 2*length", "missing_nodes short-cuts when right span %s head" % ops, key="C09|C09.R5|missing_nodes")


def r6(ctx):
    """the reviewed assumption behind `block_value.expect(..)` in ValuelessProof::into_proof
    (rules/panic_sites.json) is re-verified here, under C09, on every run: create_proof reads the
    value for the proof's own block and returns Ok(None) before into_proof whenever that value is
    None — the clauses of C03.R1.  A request for a block that is not held (cleared, or never
    downloaded), with or without an upgrade, must not reach the expect."""
    from . import c03
    c03.r1(ctx, P, "C09.R6")


def r7(ctx):
    """the reviewed assumption behind `self.signature.expect(..)` in create_valueless_proof — the tree
    signature is Some whenever length > 0 — re-verified where it could break: MerkleTree::commit
    replaces the tree head (roots, length, byte length, fork, signature) only as a whole and only
    from an upgraded changeset, which carries a signature; a changeset that is not upgraded (a block
    fetched at the current length: signature None) must leave all five alone."""
    rule = "C09.R7"
    fa = ctx.fn(MT_COMMIT)
    if not need(ctx, P, rule, MT_COMMIT, fa):
        return
    HEAD = ("self.roots", "self.length", "self.byte_length", "self.fork", "self.signature")
    ws = [(b_, si_, p_) for b_, si_, p_ in assign_sites_prefix(fa, "self") if p_ in HEAD]
    up = [tr for _, o, tr, fl in bool_switches(fa, lambda o: path_of(strip(o)) == "changeset.upgraded")]
    if not (need(ctx, P, rule, "commit: assignments to the tree head", ws) and need(ctx, P, rule, "commit: branch on changeset.upgraded", up)):
        return
    loose = [(b_, si_, p_) for b_, si_, p_ in ws if not any(fa.dominates(e, b_) for e in up if e is not None)]
    ctx.check(P, rule, "the tree head is replaced only from an upgraded changeset", not loose, "roots / length / byte_length / fork / signature assigned under changeset.upgraded",
              "MerkleTree::commit assigns %s outside `if changeset.upgraded`: committing a changeset that is not upgraded (signature None) then clears or replaces part of the tree head — `signature` becomes None while length stays > 0, and the next upgrade request panics on `signature needs to be set`" % sorted(p_ for _, _, p_ in loose),
              [loc(fa, b_, si_) for b_, si_, _ in loose], key="C09|C09.R7|commit|head assigned outside upgraded")
    got = sorted(set(p_ for _, _, p_ in ws))
    ctx.check(P, rule, "the tree head is replaced as a whole", got == sorted(HEAD), "all five fields come from the same changeset", "commit assigns only %s of the tree head" % got, key="C09|C09.R7|commit|head fields")
    srcs = {p_: term_str(fa.origin_rvalue(fa.blocks[b_].stmts[si_]["rv"], b_, si_)) for b_, si_, p_ in ws}
    ctx.check(P, rule, "each head field takes the changeset's field of the same name", all(v == "changeset." + k.split(".", 1)[1] for k, v in srcs.items()), "self.x = changeset.x",
              "commit copies %s" % srcs, key="C09|C09.R7|commit|field wiring")
    # nobody else writes the signature of the tree
    others = []
    for fx in ctx.all_fas():
        nm_ = fn_of(fx.body.name)
        if not nm_.startswith("tree::merkle_tree::MerkleTree::") or nm_ in (MT_COMMIT,):
            continue
        for b_, si_, p_ in assign_sites_prefix(fx, "self"):
            if p_ == "self.signature":
                others.append((nm_, loc(fx, b_, si_)))
    ctx.check(P, rule, "only commit (and the constructor) sets the tree signature", not others, "no other method of MerkleTree assigns self.signature", "self.signature is also assigned in %s" % others, key="C09|C09.R7|signature writers")


def r8(ctx):
    """after a proof was applied the core is still usable: what verify_proof lets replace a held
    node agrees with it in hash AND size (the comparison clauses of C04.R3) — a lone hash-section
    node with the genuine hash and a forged size otherwise replaces the stored node, and every
    later read of that block fails (defect D20)"""
    from . import c04
    before = len(ctx.insts)
    c04.r3(ctx)
    kept = []
    for i in ctx.insts[before:]:
        if "compared" in i.anchor or "mismatch" in i.anchor:
            i.prop, i.rule = P, "C09.R8"
            i.key = i.key.replace("C04|C04.R3", "C09|C09.R8")
            kept.append(i)
    ctx.insts[before:] = kept
    if not kept:
        ctx.missing(P, "C09.R8", "shared clauses of c04.r3", "no instance")


RULES = [r1, r3, r4, r5, r6, r7, r8]
CONTROLS = ["c09_unguarded_index", "c09_loop_cannot_exit"]
EXPLANATION = ("C09 (no peer request or proof can panic or hang the node): enumerates every panic-capable construct (bounds / subtraction / division asserts, unwrap/expect, Index on Vec/slice, "
               "panic! entry points, RefCell borrows, drain/split/pow) in the call-graph closure of create_proof and verify_and_apply_proof and requires each to be discharged by constant operands "
               "(A1), an automatically found dominating comparison guard over the same terms (A2), a reviewed entry whose required guard is re-verified to dominate (A3) or a reviewed invariant "
               "reported as assumed (A4) (R1, which subsumes bounds provenance: an index bounded against one collection and applied to another is undischarged); requires every natural loop in that "
               "closure to have an exit condition its body can change (R3); requires the anchored request validations to be present and to precede every use (R4) and to use the prescribed comparison, boundary included (R5); re-verifies under C09 the reviewed assumption behind into_proof's expect: create_proof returns Ok(None) before into_proof whenever the block value cannot be read, with or without an upgrade (R6 = the clauses of C03.R1), and the one behind `self.signature.expect(..)`: MerkleTree::commit replaces the tree head, signature included, only as a whole and only from an upgraded changeset (R7).")
NOT_DECIDED = ("termination of loops whose exit depends on flat-tree arithmetic; panics inside dependency crates (flat_tree, compact_encoding, blake2, ed25519-dalek, intmap are leaves); memory exhaustion; "
               "that the A4 invariants (listed in the evidence as assumed) actually hold; add/mul/shl overflow (numeric fields are bounded below 2^40 by the property).")
ASSUMPTIONS = ["numeric fields of requests and proofs are below 2^40", "A4 invariants in rules/panic_sites.json (each with a one-line reason) hold"]
