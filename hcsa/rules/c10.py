"""C10 — storage error discipline."""
from ..engine import *
from ..analysis import term_str, strip, roots, subterms, contains, callee_of, FROM_RESIDUAL, BRANCH
from .names import *

P = "C10"
FUT_MARKERS = ("impl futures::Future", "impl std::future::Future", "dyn futures::Future", "dyn std::future::Future", "{async ")


def storage_set(ctx):
    """S: crate fns (by fn name) from which a RandomAccess operation is reachable"""
    g = cg(ctx)
    bodies = g.callers_reaching_ext(RA_ALL)
    return set(fn_of(b) for b in bodies), bodies


def is_future_ty(ty):
    return any(m in ty for m in FUT_MARKERS)


def storage_call_sites(ctx, S):
    """all call sites (fa, bb, callee) of members of S or RandomAccess methods"""
    out = []
    for fa in ctx.all_fas():
        for n, t in fa.calls():
            c = callee_of(t)
            if t.get("callee") in RA_ALL or c in S:
                out.append((fa, n, c if c in S else t.get("callee")))
    return out


def r1(ctx, prop=P, rule="C10.R1"):
    S, _ = storage_set(ctx)
    if not need(ctx, prop, rule, "functions reaching RandomAccess operations", sorted(S)):
        return
    scs = storage_call_sites(ctx, S)
    floor = getattr(ctx, "floor_storage_calls", 40)
    if ctx.crate.name == "hypercore" and len(scs) < floor:
        ctx.missing(prop, rule, "storage call sites", "only %d call sites of storage-reaching functions found (floor %d)" % (len(scs), floor))
    n_res = n_fut = 0
    for fa, n, c in scs:
        t = fa.blocks[n].term
        ty = t["dest_ty"]
        l = t["dest"]["l"]
        if is_future_ty(ty):
            n_fut += 1
            # R2: awaited or returned
            v = result_consumed(fa, l)
            polled = any(n in call_root_bb(fa.arg_origin(p, 0)) for p, tt in fa.calls() if tt.get("callee") in POLL_)
            returned = v[0] == "propagated" and not polled
            if polled:
                # the awaited value must be examined
                ready = None
                for p, tt in fa.calls():
                    if tt.get("callee") in POLL_ and n in call_root_bb(fa.arg_origin(p, 0)):
                        ready = tt["dest"]["l"]
                vv = result_consumed(fa, ready) if ready is not None else ("dropped", "")
                out_ty = ty
                if "Result<" in ty or "Result<" in fa.body.local_ty(ready):
                    n_res += 1
                    ctx.check(prop, rule, "%s: result of %s" % (fn_of(fa.body.name).split("::")[-1], c.split("::")[-1]) + " @%s" % _ord(fa, n), vv[0] in ("checked", "propagated"),
                              "awaited result %s" % vv[1], "result of storage operation %s at %s is dropped after the await (%s)" % (c, loc(fa, n), vv[1]), [site_desc(fa, n)],
                              key="%s|%s|%s|%s|result dropped" % (prop, rule, fn_of(fa.body.name), c))
                ctx.ok(prop, "C10.R2" if prop == P else rule, "%s: future of %s awaited @%s" % (fn_of(fa.body.name).split("::")[-1], c.split("::")[-1], _ord(fa, n)), "polled in the same body", [site_desc(fa, n)])
            elif returned:
                ctx.ok(prop, "C10.R2" if prop == P else rule, "%s: future of %s handed to the caller @%s" % (fn_of(fa.body.name).split("::")[-1], c.split("::")[-1], _ord(fa, n)), v[1], [site_desc(fa, n)])
            else:
                ctx.fail(prop, "C10.R2" if prop == P else rule, "%s: future of %s" % (fn_of(fa.body.name).split("::")[-1], c.split("::")[-1]),
                         "future returned by storage operation %s at %s is never awaited (%s): the operation does not run and its error cannot surface" % (c, loc(fa, n), v[1]), [site_desc(fa, n)],
                         key="%s|C10.R2|%s|%s|future not awaited" % (prop, fn_of(fa.body.name), c))
        elif "Result<" in ty:
            n_res += 1
            v = result_consumed(fa, l)
            ctx.check(prop, rule, "%s: result of %s @%s" % (fn_of(fa.body.name).split("::")[-1], c.split("::")[-1], _ord(fa, n)), v[0] in ("checked", "propagated"),
                      "result %s" % v[1], "result of %s at %s is dropped (%s)" % (c, loc(fa, n), v[1]), [site_desc(fa, n)],
                      key="%s|%s|%s|%s|result dropped" % (prop, rule, fn_of(fa.body.name), c))
    return n_res, n_fut


def _ord(fa, n):
    """stable ordinal of a call site among same-callee sites of the body"""
    c = callee_of(fa.blocks[n].term)
    same = [x for x, t in fa.calls() if callee_of(t) == c]
    return "%d/%d" % (same.index(n) + 1, len(same))


R3_FNS = [APPEND_BATCH, CLEAR, VAP, MAKE_RO, CREATE_PROOF, FLUSH_ALL, FLUSH_INFOS, READ_INFOS_VEC, READ_INFO, READ_INFOS, FLUSH_INFO, GET, BYTE_RANGE_CORE, CVP_CORE, VERIFY_PROOF_CORE, MISSING_NODES_CORE, NEW]


# (function, callee): the one reviewed place where a storage error is not a failure
MISS_IDIOM = {(READ_INFOS_VEC, RA_READ)}


def _places_of(st):
    out = []
    if st["k"] != "assign":
        return out
    rv = st["rv"]
    if "place" in rv:
        out.append(rv["place"])
    for k in ("op", "l", "r", "x"):
        if k in rv and isinstance(rv[k], dict):
            p = rv[k].get("c") or rv[k].get("m")
            if p:
                out.append(p)
    for o in rv.get("ops", []):
        p = o.get("c") or o.get("m")
        if p:
            out.append(p)
    return out


def r3(ctx, prop=P, rule="C10.R3"):
    S, _ = storage_set(ctx)
    commit_callees = (BF_UPDATE, BF_SET_RANGE, UCL, MT_COMMIT, EVENTS_SEND, MT_ADD_NODE)
    n = n0 = 0
    # the anchored entry points, plus every other function of the crate that calls something from
    # which a storage operation is reachable (so that a new caller, or one the list forgot — as it
    # once forgot create_proof — is held to the same discipline)
    callers = set()
    for fx in ctx.all_fas():
        nm_ = fn_of(fx.body.name)
        if "::tests::" in nm_ or nm_.startswith("tests::"):
            continue
        if any(t_.get("callee") in RA_ALL or callee_of(t_) in S for _, t_ in fx.calls()):
            callers.add(nm_)
    for fname in list(R3_FNS) + sorted(callers - set(R3_FNS)):
        bodies = ctx.crate.group(fname)
        if not bodies:
            ctx.missing(prop, rule, fname, "function not found")
            continue
        for b in bodies:
            fa = ctx.fa(b)
            for s, t in fa.calls():
                c = callee_of(t)
                if not (t.get("callee") in RA_ALL or c in S):
                    continue
                ch = result_edges(fa, s)
                if ch is None:
                    # the outcome is never branched on in this body (handed on as a value:
                    # returned as is, or fed to a combinator such as `a.and(b)` whose argument is
                    # evaluated regardless): then nothing that has an effect may follow the call,
                    # because it would follow a failed call as well
                    r0 = fa.reach(s, include_src=False)
                    later0 = [x for x, tt in fa.calls() if x in r0 and x != s and (tt.get("callee") in RA_ALL or callee_of(tt) in S or callee_of(tt) in commit_callees)]
                    if "Result<" in (t.get("dest_ty") or "") or is_future_ty(t.get("dest_ty") or ""):
                        n0 += 1
                        ctx.check(prop, rule, "%s: outcome of %s @%s is examined before anything else happens" % (fname.split("::")[-1], c.split("::")[-1], _ord(fa, s)), not later0,
                                  "the unexamined result is the last effect of the function",
                                  "the outcome of %s at %s is not branched on, yet the function goes on with %s: after a failed call it continues to issue operations" % (c, loc(fa, s), [site_desc(fa, x) for x in later0]),
                                  [site_desc(fa, s)], key="%s|%s|%s|%s|unexamined then continues" % (prop, rule, fname, c))
                    continue
                n += 1
                note = ""
                idiom_bad = []
                r = region(fa, ch["err"])
                if (fname, t.get("callee")) in MISS_IDIOM and ch["how"] == "match":
                    # reviewed idiom: an out-of-bounds read under `allow_miss` is a miss, not a
                    # failure.  Re-verified on every run, independent of how the arms are written
                    # (a Result that is then `?`-ed, or early returns): every way from the error edge
                    # to a further storage operation, an in-memory commit or an Ok result passes
                    # BOTH the OutOfBounds arm of the match on the error AND the allow_miss==true edge.
                    am = [tr for _, o, tr, fl in bool_switches(fa, lambda o: strip(o)[0] == "field" and strip(o)[2] == "allow_miss")]
                    oob_idx = None
                    for b_ in fa.live():
                        for st in b_.stmts:
                            for pl in _places_of(st):
                                for e in pl["p"]:
                                    if isinstance(e, dict) and e.get("n") == "OutOfBounds":
                                        oob_idx = e["d"]
                    oob_edges = []
                    if oob_idx is not None:
                        for bb, o, tg, other in switch_edges_on(fa, lambda o: o[0] == "disc" and o[1][0] == "err" and s in call_root_bb(o[1][1])):
                            if oob_idx in tg:
                                oob_edges.append(tg[oob_idx])
                    gate = set(x for x in r if any(fa.dominates(a, x) for a in am) and any(fa.dominates(e, x) for e in oob_edges))
                    if not am:
                        idiom_bad.append("no allow_miss test on the error side")
                    if not oob_edges:
                        idiom_bad.append("the error kind is not matched against RandomAccessError::OutOfBounds")
                    r = fa.reach(ch["err"], avoiding=gate, include_src=True) if ch["err"] not in gate else set()
                    note = " (reviewed idiom: only an OutOfBounds read under allow_miss is recorded as a miss)"
                swallowed = [(bb, si) for bb, si, tv in ret_assigns(fa) if bb in r and is_agg(tv, "Ok", "std::result::Result")]
                for bb, si in swallowed:
                    idiom_bad.append("%s: an Ok result is built on the error side" % loc(fa, bb, si))
                later = [x for x, tt in fa.calls() if x in r and (tt.get("callee") in RA_ALL or callee_of(tt) in S or callee_of(tt) in commit_callees)]
                writes = [(bb, si, p) for bb, si, p in assign_sites_prefix(fa, "self") if bb in r]
                good = not later and not writes and not idiom_bad and (any(x in r for x in fa.returns) or bool(note))
                ctx.check(prop, rule, "%s: error edge of %s @%s" % (fname.split("::")[-1], c.split("::")[-1], _ord(fa, s)), good,
                          "error edge returns without further storage operation or in-memory commit" + note,
                          "after a failed %s at %s the function continues with %s" % (c, loc(fa, s), [site_desc(fa, x) for x in later] + ["%s %s=" % (loc(fa, bb, si), p) for bb, si, p in writes] + idiom_bad),
                          [site_desc(fa, s)], key="%s|%s|%s|%s|continues after error" % (prop, rule, fname, c))
    if n < 25 and ctx.crate.name == "hypercore":
        ctx.missing(prop, rule, "checked storage calls in the mutating entry points", "only %d found (floor 25)" % n)


def r4(ctx):
    from . import c02
    c02.order_rule(ctx, P, "C10.R4", APPEND_BATCH, BS_APPEND, False)
    c02.order_rule(ctx, P, "C10.R4", VAP, BS_PUT, True)
    # clear is destructive: the drop entry is logged (and checked) before the bitfield is cleared
    # and before the data bytes are deleted, so that a failed entry write leaves nothing half-done
    c02.r3(ctx, P, "C10.R4")


def r5(ctx, prop=P, rule="C10.R5"):
    fm = ctx.fn(MAP_RA_ERR)
    if need(ctx, prop, rule, MAP_RA_ERR, fm):
        rets = ret_assigns(fm)
        good = rets and all(is_agg(t) and t[1] == "common::error::HypercoreError" for _, _, t in rets)
        ctx.check(prop, rule, "map_random_access_err: every arm builds a HypercoreError", good, "%d arms, all HypercoreError" % len(rets), "an arm of map_random_access_err does not build a HypercoreError: %s" % [term_str(t)[:60] for _, _, t in rets])
        pan = [s for s, t in fm.calls() if (t.get("callee") or "").startswith(("core::panicking", "std::rt::begin_panic"))]
        ctx.check(prop, rule, "map_random_access_err: no panic arm", not pan, "no panic", "map_random_access_err can panic at %s" % [loc(fm, s) for s in pan])
    n = 0
    for fa in ctx.all_fas():
        if not fa.body.name.startswith("storage::"):
            continue
        for s, t in fa.calls():
            if t.get("callee") not in RA_ALL:
                continue
            n += 1
            mapped = False
            how = ""
            for m, tt in fa.calls():
                if tt.get("callee") == "std::result::Result::<T, E>::map_err" and s in call_root_bb(fa.arg_origin(m, 0)):
                    f = fa.arg_origin(m, 1)
                    if f == ("fn", MAP_RA_ERR):
                        mapped = True
                        how = "map_err(map_random_access_err)"
            if not mapped:
                # explicit match on the awaited result whose Err arms reach map_random_access_err or build HypercoreError
                for bb, o, tg, other in switch_edges_on(fa, lambda o: o[0] == "disc" and s in call_root_bb(o[1])):
                    mapped = True
                    how = "explicit match at %s" % loc(fa, bb)
            ctx.check(prop, rule, "%s: %s error mapped @%s" % (fn_of(fa.body.name).split("::")[-1], t["callee"].split("::")[-1], _ord(fa, s)), mapped, how,
                      "RandomAccess error of %s at %s is not converted through map_random_access_err or an explicit match" % (t["callee"], loc(fa, s)), [site_desc(fa, s)])
    if n < 14 and ctx.crate.name == "hypercore":
        ctx.missing(prop, rule, "RandomAccess call sites in storage/mod.rs", "found %d (floor 14)" % n)


def r1_all(ctx):
    r = r1(ctx)
    if r is not None and ctx.crate.name == "hypercore":
        n_res, n_fut = r
        if n_fut < 30:
            ctx.missing(P, "C10.R2", "storage futures", "only %d future-returning storage call sites (floor 30)" % n_fut)


def r6(ctx):
    """a failed flush must leave the acknowledged state recoverable: within one header rewrite the
    header is written before the log is truncated (and a trace-clearing flush truncates between its two
    header writes) — with the truncate first, a failed header write would leave the old header and an
    empty log, losing every append acknowledged since the previous flush (the clauses of C02.R5)"""
    from . import c02
    before = len(ctx.insts)
    c02.r5(ctx)
    for i in ctx.insts[before:]:
        i.prop, i.rule = P, "C10.R6"
        i.key = i.key.replace("C02|C02.R5", "C10|C10.R6")


RULES = [r1_all, r3, r4, r5, r6]
CONTROLS = ["c10_result_dropped", "c10_future_not_awaited", "c10_continues_after_error"]

EXPLANATION = ("C10 (a storage error surfaces and is recoverable): decides the error discipline of every call site of a function from which a RandomAccess "
               "operation is call-graph reachable — no Result of such a call is dropped or discarded (R1), every storage future is polled in the same body or "
               "handed to the caller (R2), the error edge of every ?-checked storage call in the mutating / reading entry points reaches Return without any "
               "further storage operation, in-memory commit or event, and a storage result that is never branched on (returned as is, or fed to an eager combinator such as Result::and) is the last effect of its function (R3), in-memory commits are dominated by the successful oplog entry write (R4 = C02.R1/R2), "
               "and every RandomAccess error is converted by map_random_access_err or an explicit match, each arm building a HypercoreError (R5). R6: within a flush the header is written before the log is truncated, so that a failed header write loses nothing that was acknowledged (shared with C02.R5).")
NOT_DECIDED = "that reopening after the failure yields the before-or-after state (C02's undecided part); hangs or panics inside a backend; errors injected during Oplog::open parsing."
ASSUMPTIONS = ["a backend reports failure through the RandomAccessError return value"]
