"""C11 — wire messages: three-way agreement of size / encode / decode."""
from ..engine import *
from ..codec import *
from .codec_rules import three_way, V
from .names import *

P = "C11"
SEQN = ("seq", "Node")
REF = {
    "Node": [("index", V), ("length", V), ("hash", ("fixed", 32))],
    "RequestBlock": [("index", V), ("nodes", V)],
    "RequestSeek": [("bytes", V)],
    "RequestUpgrade": [("start", V), ("length", V)],
    "DataBlock": [("index", V), ("value", ("bytes",)), ("nodes", SEQN)],
    "DataHash": [("index", V), ("nodes", SEQN)],
    "DataSeek": [("bytes", V), ("nodes", SEQN)],
    "DataUpgrade": [("start", V), ("length", V), ("nodes", SEQN), ("additional_nodes", SEQN), ("signature", ("bytes",))],
}
VEC_SIZE = "encoding::<impl compact_encoding::VecEncodable for common::node::Node>::vec_encoded_size"


def r123(ctx):
    fns = codec_fns(ctx)
    for ty in REF:
        three_way(ctx, P, "C11.R1-R3", ty, REF[ty], fns)
    fa = ctx.fn(VEC_SIZE)
    if need(ctx, P, "C11.R1-R3", "impl VecEncodable for Node", fa):
        lp = sites(fa, "compact_encoding::encoded_size_usize")
        es = [s for s, t in fa.calls() if t.get("callee") == CE + "::encoded_size" and "Node" in (t.get("callee_full") or "")]
        inloop = [s for s in es if any(s in body for _, body, _ in fa.loops())]
        good = len(lp) == 1 and strip(fa.arg_origin(lp[0], 0)) == ("len", ("param", "vec")) and len(inloop) == 1
        ctx.check(P, "C11.R1-R3", "Vec<Node> size = length prefix + every node", good, "encoded_size_usize(vec.len()) + sum of node sizes", "vec_encoded_size does not add the length prefix of vec.len() and each node's size")


def r4(ctx):
    """decoding never panics in crate code: every panic-capable construct reachable from the decode
    functions of the wire types (and Node::new) is discharged; compact_encoding's primitives are
    trusted to return Err on short input"""
    from . import c09
    fns = codec_fns(ctx)
    entries = [fns[ty]["decode"].body.name for ty in REF if ty in fns and "decode" in fns[ty]] + ["common::node::Node::new"]
    if len(entries) < 9:
        ctx.missing(P, "C11.R4", "decode functions of the wire types", "found %d (floor 9)" % len(entries))
        return
    c09.panic_rule(ctx, P, "C11.R4", entries)


RULES = [r123, r4]
EXPLANATION = ("C11 (wire messages round-trip and follow the compact-encoding layout): for each of the eight protocol types decides, on the MIR of the three functions of its "
               "CompactEncoding impl (macro and hand-written forms alike), that encode writes the reference field sequence with the reference byte shapes (varint / length-prefixed bytes / "
               "32 fixed bytes / node list), that decode consumes the same shapes in the same order and puts the k-th value into the k-th encoded field, and that encoded_size sums exactly "
               "those fields plus a constant equal to the fixed bytes written (R1-R3); that every panic-capable construct reachable from the eight decode functions is discharged (R4, shared "
               "engine with C09).")
NOT_DECIDED = "byte-level varint boundaries and length checks (inside the compact-encoding dependency); 'nothing left over' for nested decoders beyond shape agreement; equality of values (round-trip) as such."
ASSUMPTIONS = ["compact_encoding's primitive encoders/decoders implement the compact-encoding spec and return Err on short input"]
