"""C11 — wire messages: three-way agreement of size / encode / decode."""
from ..engine import *
from ..codec import *
from .codec_rules import three_way, V
from ..analysis import term_sig, term_str, strip
from .names import *

P = "C11"
SEQN = ("seq", "Node")
REF = {
    "Node": [("index", V), ("length", V), ("hash", ("fixed", 32))],
    "RequestBlock": [("index", V), ("nodes", V)],
    "RequestSeek": [("bytes", V)],
    "RequestUpgrade": [("start", V), ("length", V)],
    "DataBlock": [("index", V), ("value", ("bytes",)), ("nodes", SEQN)],
    "DataHash": [("index", V), ("nodes", SEQN)],
    "DataSeek": [("bytes", V), ("nodes", SEQN)],
    "DataUpgrade": [("start", V), ("length", V), ("nodes", SEQN), ("additional_nodes", SEQN), ("signature", ("bytes",))],
}
VEC_SIZE = "encoding::<impl compact_encoding::VecEncodable for common::node::Node>::vec_encoded_size"


def r123(ctx):
    fns = codec_fns(ctx)
    for ty in REF:
        three_way(ctx, P, "C11.R1-R3", ty, REF[ty], fns)
    fa = ctx.fn(VEC_SIZE)
    if need(ctx, P, "C11.R1-R3", "impl VecEncodable for Node", fa):
        lp = sites(fa, "compact_encoding::encoded_size_usize")
        es = [s for s, t in fa.calls() if t.get("callee") == CE + "::encoded_size" and "Node" in (t.get("callee_full") or "")]
        inloop = [s for s in es if any(s in body for _, body, _ in fa.loops())]
        good = len(lp) == 1 and strip(fa.arg_origin(lp[0], 0)) == ("len", ("param", "vec")) and len(inloop) == 1
        ctx.check(P, "C11.R1-R3", "Vec<Node> size = length prefix + every node", good, "encoded_size_usize(vec.len()) + sum of node sizes", "vec_encoded_size does not add the length prefix of vec.len() and each node's size")


def r4(ctx):
    """decoding never panics in crate code: every panic-capable construct reachable from the decode
    functions of the wire types (and Node::new) is discharged; compact_encoding's primitives are
    trusted to return Err on short input"""
    from . import c09
    fns = codec_fns(ctx)
    entries = [fns[ty]["decode"].body.name for ty in REF if ty in fns and "decode" in fns[ty]] + ["common::node::Node::new"]
    if len(entries) < 9:
        ctx.missing(P, "C11.R4", "decode functions of the wire types", "found %d (floor 9)" % len(entries))
        return
    c09.panic_rule(ctx, P, "C11.R4", entries)


def r5(ctx):
    """values of the node type that the crate itself builds from unchecked input are encodable and
    decodable: (a) Node::new, which every decoder calls with the index read off the wire, calls
    flat_tree's partial functions (parent, sibling, ...: they shift by depth + 1 / depth + 2) only
    under `depth(index) < 62` — 2^64-1 is one of the varint boundaries C11 quantifies over (defect
    D16); (b) Node::new_blank builds the 32-byte zero hash the codec's fixed 32 bytes stand for, not
    a 2-byte one (defect D17); (c) new_blank and new agree on the derived fields (defect D25)."""
    rule = "C11.R5"
    NEW, BLANK = "common::node::Node::new", "common::node::Node::new_blank"
    fa = ctx.fn(NEW)
    if need(ctx, P, rule, NEW, fa):
        PARTIAL = ("parent", "sibling", "uncle", "children", "left_child", "right_child", "left_span", "right_span", "spans", "count", "offset", "index")
        part = [(s_, t_) for s_, t_ in fa.calls() if (t_.get("callee") or "").startswith("flat_tree::") and (t_.get("callee") or "").split("::")[-1] in PARTIAL and "Iterator" not in (t_.get("callee") or "")]
        guards = [(tr, o) for _, o, tr, fl in bool_switches(fa, lambda o: o[0] == "bin" and o[1] == "Lt" and strip(o[2])[0] == "call" and strip(o[2])[2] == "flat_tree::depth")]
        bad = []
        for s_, t_ in part:
            arg = term_sig(strip(fa.arg_origin(s_, 0)))
            ok_ = any(tr is not None and fa.dominates(tr, s_) and term_sig(strip(strip(o[2])[3][0])) == arg and (ev(ctx, o[3]) or 99) <= 62 for tr, o in guards)
            if not ok_:
                bad.append("%s(%s) at %s" % (t_["callee"], arg, loc(fa, s_)))
        ctx.check(P, rule, "Node::new calls flat_tree's partial functions only for depths they are defined on", not bad, "%d call(s), each under depth(index) < 62" % len(part),
                  "Node::new calls %s on the index it was given without a depth guard: decoding a node whose index has 62 or more trailing one-bits (2^64-1 is a varint boundary) panics in flat_tree (shift overflow) instead of yielding the value" % bad,
                  key="C11|C11.R5|Node::new|partial flat_tree function")
    fb = ctx.fn(BLANK)
    if need(ctx, P, rule, BLANK, fb):
        rets = [t for _, _, t in ret_assigns(fb)]
        good = False
        shown = None
        via_new = bool(rets) and isinstance(strip(rets[0]), tuple) and strip(rets[0])[0] == "call" and strip(rets[0])[2] == NEW and len(strip(rets[0])[3]) == 3
        h = None
        if via_new:
            h = strip(strip(rets[0])[3][1])
        elif rets and is_agg(rets[0]):
            h = strip(agg_field(rets[0], "hash"))
        if h is not None:
            shown = term_str(h)[:60]
            if h[0] == "call" and h[2].split("::")[-1] == "from_elem" and len(h[3]) == 2:
                good = ev(ctx, h[3][0]) == 0 and ev(ctx, h[3][1]) == 32
            elif is_agg(h) and h[1] == "array":
                good = len(h[3]) == 32 and all(ev(ctx, o) == 0 for _, o in h[3])
            elif h[0] == "repeat":
                good = ev(ctx, h[1]) == 0 and str(h[2]) == "32"
        ctx.check(P, rule, "Node::new_blank builds a 32-byte zero hash", good, "hash = vec![0; 32]",
                  "Node::new_blank builds its hash as %s: the node announces 34 bytes but cannot be encoded (the codec writes the hash as 32 fixed bytes), and flush_nodes panics on it after a replayed truncation" % shown,
                  key="C11|C11.R5|Node::new_blank|hash length")
        # (c) the two constructors agree on the fields that are not on the wire (parent, data, blank):
        # decode builds its node with Node::new, so a blank node must be what Node::new makes of
        # (index, zero hash, 0) — otherwise it differs from the decoding of its own encoding (D25)
        if via_new:
            c = strip(rets[0])
            agree = strip(c[3][0]) == ("param", "index") and ev(ctx, c[3][2]) == 0
            why = "new_blank = Node::new(index, zero hash, 0)"
            diff = "Node::new is called with (%s, .., %s)" % (term_str(c[3][0])[:30], term_str(c[3][2])[:30])
        else:
            agree, diff = False, "no Node aggregate"
            ra = [t for _, _, t in ret_assigns(fa)] if fa is not None else []
            if rets and is_agg(rets[0]) and ra and is_agg(ra[0]):
                d = []
                for f_ in ("parent", "data"):
                    a, b = agg_field(rets[0], f_), agg_field(ra[0], f_)
                    if a is None or b is None or term_sig(unwrap_ovf(strip(a))) != term_sig(unwrap_ovf(strip(b))):
                        d.append("%s: %s vs %s" % (f_, term_str(a)[:50] if a is not None else None, term_str(b)[:50] if b is not None else None))
                agree, diff = not d, "; ".join(d)
            why = "parent and data built as in Node::new"
        ctx.check(P, rule, "Node::new_blank and Node::new agree on the fields that are not on the wire", agree, why,
                  "Node::new_blank fills the derived fields differently from Node::new, which every decoder uses (%s): a blank node is not equal to the decoding of its own encoding" % diff,
                  key="C11|C11.R5|Node::new_blank|derived fields")


def _propagated(e):
    """an error value that is some callee's error handed on (what `?` builds), possibly converted"""
    e = strip(e)
    while isinstance(e, tuple) and e[0] == "call" and e[2].split("::")[-1] in ("from", "into") and e[3]:
        e = strip(e[3][0])
    if isinstance(e, tuple) and e[0] == "join":
        return all(_propagated(x) for x in e[1])
    return isinstance(e, tuple) and e[0] == "err"


def r6(ctx):
    """the three functions of a wire type fail only where a primitive fails: encode accepts every
    value of the type, so a decoder that makes up an error of its own for some decoded values (a
    'sanity check' on the fields) refuses the valid encoding of those values — decoding no longer
    yields the original value; likewise encode / encoded_size must not refuse a value.  Clause:
    every Err these functions return is the error of a callee, handed on."""
    rule = "C11.R6"
    fns = codec_fns(ctx)
    n = 0
    for ty in REF:
        for kind in ("decode", "encode", "size"):
            fa = fns.get(ty, {}).get(kind)
            if fa is None:
                continue
            n += 1
            own = []
            for bb, _, t_ in ret_assigns(fa):
                tt = strip(t_)
                if isinstance(tt, tuple) and tt[0] == "call" and tt[2].endswith("from_residual"):
                    continue
                if is_agg(tt, "Err", "std::result::Result") and not _propagated(agg_field(tt, "0")):
                    own.append("%s at %s" % (term_str(agg_field(tt, "0"))[:70], loc(fa, bb)))
            ctx.check(P, rule, "%s::%s fails only where a primitive codec fails" % (ty, kind), not own, "every Err is a callee's error handed on",
                      "%s::%s returns an error of its own (%s): %s" % (ty, kind, own, "a valid encoding of a value with such fields is refused, so decoding does not give the value back" if kind == "decode" else "a value of the type cannot be encoded"),
                      key="C11|C11.R6|%s::%s|own error" % (ty, kind))
    if n < 24 and ctx.crate.name == "hypercore":
        ctx.missing(P, rule, "size / encode / decode functions of the eight wire types", "found %d (floor 24)" % n)


RULES = [r123, r4, r5, r6]
EXPLANATION = ("C11 (wire messages round-trip and follow the compact-encoding layout): for each of the eight protocol types decides, on the MIR of the three functions of its "
               "CompactEncoding impl (macro and hand-written forms alike), that encode writes the reference field sequence with the reference byte shapes (varint / length-prefixed bytes / "
               "32 fixed bytes / node list), that decode consumes the same shapes in the same order and puts the k-th value into the k-th encoded field, and that encoded_size sums exactly "
               "those fields plus a constant equal to the fixed bytes written (R1-R3); that every panic-capable construct reachable from the eight decode functions is discharged (R4, shared "
               "engine with C09); that Node::new calls flat_tree's partial functions only under a depth guard and Node::new_blank builds a 32-byte hash and the same derived (non-wire) fields as Node::new, which the decoders use (R5); that the size / encode / decode functions of the eight types return no error of their own — only a primitive codec's error handed on — so that no valid encoding is refused by a check on its decoded fields (R6).")
NOT_DECIDED = "byte-level varint boundaries and length checks (inside the compact-encoding dependency); 'nothing left over' for nested decoders beyond shape agreement; equality of values (round-trip) as such."
ASSUMPTIONS = ["compact_encoding's primitive encoders/decoders implement the compact-encoding spec and return Err on short input"]
