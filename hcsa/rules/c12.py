"""C12 — secret key hygiene."""
from ..engine import *
from ..analysis import term_str, strip, roots, subterms, contains, callee_of
from .names import *

P = "C12"
PK_ENCODE = "oplog::header::<impl compact_encoding::CompactEncoding for crypto::key_pair::PartialKeypair>::encode"
PK_IMPL_PREFIX = "oplog::header::<impl compact_encoding::CompactEncoding for crypto::key_pair::PartialKeypair>::"
HDR_IMPL_PREFIX = "<oplog::header::Header as compact_encoding::CompactEncoding>::"
SECRET_EXPORTS = ("ed25519_dalek::SigningKey::to_bytes", "ed25519_dalek::SigningKey::as_bytes", "ed25519_dalek::SigningKey::to_keypair_bytes",
                  "ed25519_dalek::SigningKey::to_scalar_bytes", "ed25519_dalek::SigningKey::to_scalar", "ed25519_dalek::SigningKey::as_ref")


def _effects(fa, extra=()):
    E = []
    names = (FLUSH_INFO, FLUSH_INFOS, APPEND_CS, BF_UPDATE, BF_SET_RANGE, UCL, MT_COMMIT, EVENTS_SEND, FLUSH_ALL, BS_APPEND, BS_PUT, CS_HASH_SIGN) + tuple(extra)
    for s in sites_any(fa, names):
        E.append((s, callee_of(fa.blocks[s].term).split("::")[-1]))
    for b, si, p in assign_sites_prefix(fa, "self"):
        E.append((b, "%s =" % p))
    return E


def r1(ctx):
    rule = "C12.R1"
    fa = ctx.real_body(APPEND_BATCH, [APPEND_CS])
    if not need(ctx, P, rule, APPEND_BATCH, fa):
        return
    E = _effects(fa, (MT_CHANGESET,))
    if len(E) < 9:
        ctx.missing(P, rule, "append_batch: effect sites", "only %d (floor 9)" % len(E))
        return
    sw = [x for x in switch_edges_on(fa, lambda o: o[0] == "disc" and path_of(strip(o[1])) == "self.key_pair.secret")]
    sw += [(b, o, {0: fl, 1: tr}, tr) for b, o, tr, fl in bool_switches(fa, lambda o: o[0] == "call" and o[2].endswith(("::is_some", "::is_none")) and path_of(strip(o[3][0])) == "self.key_pair.secret")]
    if not need(ctx, P, rule, "append_batch: branch on self.key_pair.secret", sw):
        return
    b, o, tg, other = sw[0]
    none_t = tg.get(0, other)
    some_t = tg.get(1, other)
    if o[0] == "call" and o[2].endswith("::is_none"):
        none_t, some_t = some_t, none_t
    Eb = [e for e, _ in E]
    ok, hit = edge_returns_without(fa, none_t, Eb)
    vals = [t for _, _, t in ret_values_in_region(fa, none_t)]
    nw = ok and vals and all(is_err_value(t, "NotWritable") for t in vals)
    ctx.check(P, rule, "no secret key: Err(NotWritable), nothing changed", nw, "None arm returns Err(NotWritable) with no effect site",
              "the no-secret-key arm at %s does not return Err(NotWritable) effect-free (effects: %s, returns: %s)" % (loc(fa, b), [loc(fa, h) for h in hit], [term_str(v)[:50] for v in vals]), [loc(fa, b)])
    bad = [(e, l) for e, l in E if not fa.dominates(some_t, e)]
    ctx.check(P, rule, "every effect requires the secret key", not bad, "all %d effect sites are dominated by the Some(secret) arm" % len(E),
              "effect site(s) reachable without a secret key: %s" % ", ".join("%s %s" % (loc(fa, e), l) for e, l in bad), [loc(fa, e) for e, _ in bad])
    hs = sites(fa, CS_HASH_SIGN)
    if need(ctx, P, rule, "append_batch: hash_and_sign", hs):
        k = fa.arg_origin(hs[0], 1)
        ctx.check(P, rule, "changeset is signed with the core's own secret key", path_of(strip(k)) == "self.key_pair.secret", "hash_and_sign(self.key_pair.secret)", "signing key is %s" % term_str(k)[:80])


def r2(ctx):
    rule = "C12.R2"
    fa = ctx.real_body(MAKE_RO, [FLUSH_ALL])
    if not need(ctx, P, rule, MAKE_RO, fa):
        return
    sw = list(bool_switches(fa, lambda o: o[0] == "call" and o[2].endswith("::is_some") and path_of(strip(o[3][0])) == "self.key_pair.secret"))
    if not need(ctx, P, rule, "make_read_only: branch on self.key_pair.secret.is_some()", sw):
        return
    b, o, tr, fl = sw[0]
    fs = sites(fa, FLUSH_ALL)
    if not need(ctx, P, rule, "make_read_only: flush call", fs):
        return
    # the flush that follows the clearing of the key: on the Some branch, or after both branches joined
    fsome = [x for x in fs if fa.dominates(tr, x)] or [x for x in fs if fa.can_reach(tr, x)]
    if not need(ctx, P, rule, "make_read_only: flush on the branch that clears the key", fsome):
        return
    f = fsome[0]
    a1 = assign_sites(fa, "self.key_pair.secret")
    a2 = assign_sites(fa, "self.header.key_pair.secret")
    for lbl, a in (("self.key_pair.secret", a1), ("self.header.key_pair.secret", a2)):
        good = False
        why = "no assignment"
        for bb, si in a:
            v = fa.origin_rvalue(fa.blocks[bb].stmts[si]["rv"], bb, si)
            good = is_agg(v, "None") and fa.dominates(tr, bb) and site_dominates(fa, (bb, si), (f, None))
            why = "value %s at %s" % (term_str(v)[:30], loc(fa, bb, si))
        ctx.check(P, rule, "%s = None before the flush" % lbl, good, "%s cleared on the Some branch before flushing" % lbl,
                  "%s is not set to None before flush_bitfield_and_tree_and_oplog (%s): the header written to disk still carries the secret key" % (lbl, why), [site_desc(fa, f)])
    cs = {}
    for x in fs:
        ct = fa.arg_origin(x, 1)
        ctx.check(P, rule, "flush is called with clear_traces = true", term_is_lit(ct, 1), "flush_bitfield_and_tree_and_oplog(true)", "clear_traces argument is %s: the older header slot keeps the key" % term_str(ct), [site_desc(fa, x)])
        cs[x] = checked(fa, x)
        ctx.check(P, rule, "flush is awaited and ?-checked", cs[x] is not None, "checked", "flush result not ?-checked", [site_desc(fa, x)])
    oks = ok_returns(fa)
    t_ok = [(bb, s, t) for bb, s, t in oks if term_is_lit(agg_field(t, "0"), 1)]
    f_ok = [(bb, s, t) for bb, s, t in oks if term_is_lit(agg_field(t, "0"), 0)]
    def after_flush(bb):
        return any(c_ is not None and fa.dominates(c_["ok"], bb) for c_ in cs.values())
    ctx.check(P, rule, "Ok(true) only after the flush succeeded", bool(t_ok) and all(after_flush(bb) for bb, _, _ in t_ok), "Ok(true) dominated by the flush's success edge",
              "Ok(true) can be returned without a successful trace-clearing flush", [loc(fa, bb, s) for bb, s, _ in t_ok])
    # a core that is already read-only may have been recovered from a crash between the two header
    # writes of an earlier make_read_only: the slot that is not current then still holds the key, and
    # this call is the only one that can scrub it (defect D19) — it reports "nothing changed" only
    # after the same trace-clearing flush
    ctx.check(P, rule, "already read-only: Ok(false) only after both header slots were rewritten", bool(f_ok) and all(fa.dominates(fl, bb) and after_flush(bb) for bb, _, _ in f_ok),
              "Ok(false) dominated by the success edge of a trace-clearing flush",
              "make_read_only returns Ok(false) on a core without a secret key in memory without rewriting the header slots: after a crash between the two header writes of an earlier call the other slot keeps the secret key for good",
              [loc(fa, bb, s) for bb, s, _ in f_ok], key="C12|C12.R2|make_read_only|already read-only scrubs")
    E = [e for e, _ in _effects(fa) if e not in fs]
    hit = [e for e in E if e in region(fa, fl)]
    ctx.check(P, rule, "already read-only: nothing but that flush", not hit, "no other effect on the None branch", "the already-read-only branch has further effects (%s)" % [loc(fa, h) for h in hit])
    # the flush routine forwards header and clear_traces to Oplog::flush
    ff = ctx.real_body(FLUSH_ALL, [OPLOG_FLUSH])
    if need(ctx, P, rule, FLUSH_ALL, ff):
        s = sites(ff, OPLOG_FLUSH)[0]
        h, c_ = ff.arg_origin(s, 1), ff.arg_origin(s, 2)
        ctx.check(P, rule, "flush writes self.header with the caller's clear_traces", path_of(strip(h)) == "self.header" and strip(c_) == ("param", "clear_traces"),
                  "Oplog::flush(&self.header, clear_traces)", "Oplog::flush receives (%s, %s)" % (term_str(h)[:40], term_str(c_)[:40]), [site_desc(ff, s)])


def r3(ctx):
    rule = "C12.R3"
    fa = ctx.fn(INSERT_HEADER)
    if not need(ctx, P, rule, INSERT_HEADER, fa):
        return
    hs = ctx.crate.const_val("oplog::HEADER_SIZE")
    ctx.check(P, rule, "HEADER_SIZE = 4096", hs == 4096, "slot size constant is 4096", "oplog::HEADER_SIZE evaluates to %r" % hs)
    allocs = [s for s in sites_any(fa, ("std::vec::from_elem",))]
    if not need(ctx, P, rule, "insert_header: buffer allocation (vec![0; size])", allocs):
        return
    a = allocs[0]
    sw = list(bool_switches(fa, lambda o: strip(o) == ("param", "clear_traces")))
    if not need(ctx, P, rule, "insert_header: branch on clear_traces", sw):
        return
    b, o, tr, fl = sw[0]
    size = fa.arg_origin(a, 1)
    fill = fa.arg_origin(a, 0)
    rts = roots(size)
    HS = const_lookup(ctx, "oplog::HEADER_SIZE")
    is_hs = lambda t_: t_ == ("const", "oplog::HEADER_SIZE") or (HS is not None and t_ == ("lit", HS))
    has_const = any(is_hs(r_) for r_ in rts) and HS == 4096
    # the assignment of HEADER_SIZE lies on the clear_traces edge and cannot be bypassed
    assigns = []
    for bb in fa.nodes:
        for si, st in enumerate(fa.blocks[bb].stmts):
            if st["k"] == "assign" and not st["place"]["p"] and is_hs(fa.origin_rvalue(st["rv"], bb, si)):
                assigns.append((bb, si))
    forced = any(fa.dominates(tr, bb) and not fa.can_reach(tr, a, avoiding=[bb]) or (bb == tr) for bb, si in assigns)
    # no redefinition of the size between that assignment and the allocation
    good = has_const and forced
    if good:
        for bb, si in assigns:
            pl = fa.blocks[bb].stmts[si]["place"]["l"]
            rd = fa.reaching_defs(pl, a, len(fa.blocks[a].stmts))
            good = good and any(d[1] == bb and d[2] == si for d in rd)
    ctx.check(P, rule, "clearing traces pads the header to the whole slot", good and term_is_lit(fill, 0),
              "with clear_traces the buffer is vec![0; HEADER_SIZE]", "with clear_traces the header buffer is not forced to HEADER_SIZE zero bytes (size origin: %s): old key bytes beyond the new header survive in the slot" % term_str(size)[:160],
              [site_desc(fa, a)], key="C12|C12.R3|insert_header|slot not padded")
    # the buffer written is that allocation
    for s in sites(fa, SI_CONTENT):
        buf = fa.arg_origin(s, 2)
        ctx.check(P, rule, "the padded buffer is what is written", a in call_root_bb(buf), "new_content(.., &buffer)", "new_content writes %s, not the padded buffer" % term_str(buf)[:80], [site_desc(fa, s)])
    from . import c02
    before = len(ctx.insts)
    c02.r5(ctx)
    for i in ctx.insts[before:]:
        i.prop, i.rule = P, "C12.R3"
        i.key = i.key.replace("C02|C02.R5", "C12|C12.R3")


def r4(ctx, prop=P, rule="C12.R4"):
    bad = []
    good = []
    for fa in ctx.all_fas():
        for s, t in fa.calls():
            if t.get("callee") in SECRET_EXPORTS:
                (good if fa.body.name == PK_ENCODE else bad).append((fa, s))
    if ctx.crate.name == "hypercore":
        need(ctx, prop, rule, "PartialKeypair::encode serialises the secret (SigningKey::to_bytes)", good)
    ctx.check(prop, rule, "secret key bytes are exported only by PartialKeypair's encoder", not bad, "%d export site(s), all in <PartialKeypair as CompactEncoding>::encode" % len(good),
              "secret key bytes are read outside the one serialiser: %s" % [site_desc(fa, s) + " in " + fa.body.name for fa, s in bad], [site_desc(fa, s) for fa, s in bad],
              key="%s|%s|secret exported elsewhere|%s" % (prop, rule, ",".join(sorted(fn_of(fa.body.name) for fa, s in bad))))
    # who serialises a PartialKeypair
    users = []
    for fa in ctx.all_fas():
        for s, t in fa.calls():
            r = t.get("resolved") or ""
            if r.startswith(PK_IMPL_PREFIX) and r.endswith(("::encode", "::encoded_size")):
                users.append((fa, s))
    outside = [(fa, s) for fa, s in users if not fa.body.name.startswith(HDR_IMPL_PREFIX)]
    if ctx.crate.name == "hypercore":
        need(ctx, prop, rule, "Header's encoder embeds the key pair", [u for u in users if u not in outside])
    ctx.check(prop, rule, "key pair is serialised only inside the oplog header", not outside, "only <Header as CompactEncoding> encodes a PartialKeypair",
              "PartialKeypair is serialised outside the oplog header: %s" % [site_desc(fa, s) + " in " + fa.body.name for fa, s in outside], [site_desc(fa, s) for fa, s in outside])
    # Header is encoded only via encode_with_leader in insert_header
    hdr = []
    for fa in ctx.all_fas():
        for s, t in fa.calls():
            r = t.get("resolved") or ""
            if r == HDR_IMPL_PREFIX + "encode":
                hdr.append((fa, s))
            if t.get("callee") == ENC_LEADER and "oplog::header::Header" in (t.get("callee_full") or ""):
                hdr.append((fa, s))
    outside = [(fa, s) for fa, s in hdr if fn_of(fa.body.name) not in (INSERT_HEADER, ENC_LEADER)]
    ctx.check(prop, rule, "headers are written only by insert_header", not outside, "Header::encode reached only through insert_header / encode_with_leader",
              "Header is encoded outside insert_header: %s" % [site_desc(fa, s) for fa, s in outside], [site_desc(fa, s) for fa, s in outside])


def r5(ctx):
    rule = "C12.R5"
    fa = ctx.real_body(NEW, [OPLOG_OPEN])
    if not need(ctx, P, rule, NEW, fa):
        return
    so = list(bool_switches(fa, lambda o: path_of(strip(o)) == "options.open"))
    if not need(ctx, P, rule, "Hypercore::new: branch on options.open", so):
        return
    b, o, tr, fl = so[0]
    sk = [x for x in bool_switches(fa, lambda o: o[0] == "call" and o[2].endswith("::is_some") and path_of(strip(o[3][0])) == "options.key_pair") if any(fa.dominates(x_[2], x[0]) for x_ in so)]
    oo = sites(fa, OPLOG_OPEN)
    if not (need(ctx, P, rule, "Hypercore::new: options.key_pair.is_some() under open", sk) and need(ctx, P, rule, "Hypercore::new: Oplog::open calls", oo)):
        return
    kb, ko, ktr, kfl = sk[0]
    okk, hit = edge_returns_without(fa, ktr, oo + sites_any(fa, (READ_INFO, FLUSH_INFOS, READ_INFOS)))
    vals = [t for _, _, t in ret_values_in_region(fa, ktr)]
    ctx.check(P, rule, "key pair together with open is rejected", okk and vals and all(is_agg(t, "Err") and "BadArgument" in term_str(t) for t in vals),
              "open && key_pair.is_some() returns Err(BadArgument) before touching storage", "open with a key pair is not rejected before the oplog is opened (%s)" % [term_str(v)[:60] for v in vals], [loc(fa, kb)])
    # the guard must see the caller's value: nothing may have emptied or replaced options.key_pair
    # (take(), replace(), an assignment) on a way to the test
    early = [(bb, si) for bb, si in mut_borrow_sites(fa, "options.key_pair") + [(bb, si) for bb, si, _ in assign_sites_prefix(fa, "options.key_pair")] if bb == kb or fa.can_reach(bb, kb)]
    ctx.check(P, rule, "the guard tests the key pair as the caller passed it", not early, "no take / replace / assignment of options.key_pair before the test",
              "options.key_pair is mutably borrowed or assigned before `open && key_pair.is_some()` is tested: the guard may see an emptied option and never fire", [loc(fa, bb, si) for bb, si in early],
              key="C12|C12.R5|Hypercore::new|key pair taken before the guard")
    for s in oo:
        k = fa.arg_origin(s, 0)
        rts = roots(k)
        none_on_open = [r for r in rts if is_agg(r, "None")]
        some_other = [r for r in rts if is_agg(r, "Some")]
        ctx.check(P, rule, "opening uses no caller key pair", len(rts) == 2 and none_on_open and some_other, "key pair is None when opening, Some(..) when creating",
                  "key pair passed to Oplog::open is %s" % term_str(k)[:120], [site_desc(fa, s)])
    # the None value is the one assigned on the open branch
    nones = []
    for bb in fa.nodes:
        for si, st in enumerate(fa.blocks[bb].stmts):
            if st["k"] == "assign" and st["rv"]["k"] == "agg" and st["rv"].get("variant") == "None" and "PartialKeypair" in fa.body.local_ty(st["place"]["l"]):
                nones.append(bb)
    open_edges = [x[2] for x in so]   # `options.open` may be tested more than once (guard clause, then the value)
    ctx.check(P, rule, "the None key pair belongs to the open branch", nones and all(any(fa.dominates(e_, x) for e_ in open_edges) for x in nones), "None assigned only under options.open", "None key pair assigned outside the open branch")


def r6(ctx, P=P, rule="C12.R6"):
    fa = ctx.real_body(NEW, [OPLOG_OPEN])
    if not need(ctx, P, rule, NEW, fa):
        return
    aggs = []
    for bb in fa.nodes:
        for si, st in enumerate(fa.blocks[bb].stmts):
            if st["k"] == "assign" and st["rv"]["k"] == "agg" and st["rv"].get("name") == "core::Hypercore":
                aggs.append(fa.origin_rvalue(st["rv"], bb, si))
    if not need(ctx, P, rule, "Hypercore::new: Hypercore { .. } construction", aggs):
        return
    kp = agg_field(aggs[0], "key_pair")
    # `let OplogOpenOutcome { mut header, .. } = ..` makes the header a &mut-escaping variable: follow it
    # to its initial value, provided key_pair is not assigned through it in this function
    if resolve_mutlocal(fa, kp) is not None and not [x for x in assign_sites_prefix(fa, "~Header.key_pair")]:
        kp = resolve_mutlocal(fa, kp)
    okp = term_has_call(kp, OPLOG_OPEN) is not None and all((r[0] == "field" and r[2] == "key_pair" and strip(r[1])[0] == "field" and strip(r[1])[2] == "header") for r in roots(kp))
    ctx.check(P, rule, "identity comes from the stored header", okp, "Hypercore.key_pair = opened header.key_pair", "Hypercore.key_pair is %s" % term_str(kp)[:160])
    hd = agg_field(aggs[0], "header")
    if resolve_mutlocal(fa, hd) is not None:
        hd = resolve_mutlocal(fa, hd)
    ctx.check(P, rule, "in-memory header is the opened header", term_has_call(hd, OPLOG_OPEN) is not None and all(r[0] == "field" and r[2] == "header" for r in roots(hd)), "Hypercore.header = outcome.header", "Hypercore.header is %s" % term_str(hd)[:120])
    fi = ctx.fn(INFO)
    if need(ctx, P, rule, INFO, fi):
        for bb in fi.nodes:
            for si, st in enumerate(fi.blocks[bb].stmts):
                if st["k"] == "assign" and st["rv"]["k"] == "agg" and st["rv"].get("name") == "core::Info":
                    t = fi.origin_rvalue(st["rv"], bb, si)
                    w = agg_field(t, "writeable")
                    good = w[0] == "call" and w[2].endswith("::is_some") and path_of(strip(w[3][0])) == "self.key_pair.secret"
                    ctx.check(P, rule, "writeable reports presence of the secret key", good, "Info.writeable = self.key_pair.secret.is_some()", "Info.writeable is %s" % term_str(w)[:80])
    # Oplog::open: fresh header only when nothing valid is stored, key pair cloned from the argument
    fo = ctx.fn(OPLOG_OPEN)
    if need(ctx, P, rule, OPLOG_OPEN, fo):
        fr = sites(fo, "oplog::Oplog::fresh")
        if need(ctx, P, rule, "Oplog::open: fresh() call", fr):
            dec = sites(fo, HDR_IMPL_PREFIX + "decode")
            ctx.check(P, rule, "a fresh header is created only when no stored header is valid", dec and not any(fo.can_reach(d, fr[0]) or fo.can_reach(fr[0], d) for d in dec),
                      "fresh() and Header::decode are on disjoint paths", "fresh() is reachable on a path that also decodes a stored header")


def r7(ctx):
    """a crash while the two header slots are being rewritten (make_read_only) is recovered through
    the slot fallback of Oplog::open: the header bits remembered for each combination of valid slots
    must agree with the slot whose header is used, otherwise the entries written under it are
    dropped and the recovered core has lost data (same clause as C07.R5 / C06.R7)"""
    from . import c07
    c07.r5(ctx, P, "C12.R7")


def r8(ctx):
    """make_read_only writes a header without first writing an entry at the start of the log, so
    whatever an earlier crash left behind the accepted entries must have been cut off when the log
    was opened (same clause as C02.R12, defect D24): a crash during the call recovers all data"""
    from . import c02
    c02.cut_behind_accepted(ctx, P, "C12.R8")


RULES = [r1, r2, r3, r4, r5, r6, r7, r8]
CONTROLS = ["c12_secret_exported_elsewhere"]
EXPLANATION = ("C12 (secret key hygiene): decides that every effect of append_batch is dominated by the Some(secret) arm and the None arm returns Err(NotWritable) "
               "effect-free (R1); that make_read_only clears both in-memory copies before a ?-checked flush with clear_traces = true, returns Ok(true) only after it, and on a core that is already read-only returns Ok(false) only after the same flush — a crash between the two header writes of an earlier call leaves the key in the slot that is not current (R2); "
               "that a trace-clearing flush rewrites both header slots, each padded to the whole 4096-byte slot with zeros, truncating the log between the two writes so that a crash inside it recovers (R3); that SigningKey bytes are exported by exactly "
               "one function, used only inside the oplog header encoder, itself reached only through insert_header (R4); that open together with a key pair is rejected before "
               "storage is touched, that nothing takes / replaces / assigns options.key_pair on a way to that guard, and opening passes no key (R5); that the opened identity and writability come from the stored header (R6). R7: the header-slot fallback that recovers a crash during make_read_only remembers header bits consistent with the slot it uses (shared with C07.R5). R8: Oplog::open cuts off whatever follows the accepted entries, so that the header make_read_only writes cannot make stale entries current again (shared with C02.R12).")
NOT_DECIDED = "that no file contains the key bytes (a byte search over storage); crash outcomes inside make_read_only; that stale entries hold no key (they never contain key material by R4)."
ASSUMPTIONS = ["ed25519-dalek's Debug/Display impls do not print the secret"]
