"""C13 — replication events are emitted exactly at the committed state changes."""
from ..engine import *
from ..analysis import term_str, strip, roots, subterms, contains, callee_of, FROM_RESIDUAL
from .names import *

P = "C13"
TRY_BROADCAST = "async_broadcast::Sender::<T>::try_broadcast"
HAVE_FROM = "<replication::events::Have as std::convert::From<&common::BitfieldUpdate>>::from"


def _send_kind(fa, s):
    t = fa.blocks[s].term
    full = t.get("callee_full") or ""
    for k in ("DataUpgrade", "Have", "Get"):
        if "::<replication::events::%s>" % k in full:
            return k
    return "?"


def r1(ctx, prop=P, rule="C13.R1"):
    owners = {}
    for fa in ctx.all_fas():
        for s in _emit_sites(fa):
            owners.setdefault(fn_of(fa.body.name), []).append((fa, s))
    if ctx.crate.name == "hypercore":
        tot = sum(len(v) for v in owners.values())
        if tot < 5:
            ctx.missing(prop, rule, "Events::send sites", "found %d (floor 5)" % tot)
            return
    allowed = {APPEND_BATCH, VAP, EVENTS_SEND_ON_GET}
    bad = [(f, fa, s) for f, v in owners.items() if f not in allowed for fa, s in v]
    ctx.check(prop, rule, "events are sent only by append_batch, verify_and_apply_proof and send_on_get", not bad, "send sites: %s" % {f.split("::")[-1]: len(v) for f, v in owners.items()},
              "Events::send called from %s" % [f for f, _, _ in bad], [site_desc(fa, s) for _, fa, s in bad], key="%s|%s|send outside owners|%s" % (prop, rule, ",".join(sorted(set(f for f, _, _ in bad)))))
    og = {}
    for fa in ctx.all_fas():
        for s in sites(fa, EVENTS_SEND_ON_GET):
            og.setdefault(fn_of(fa.body.name), []).append((fa, s))
    badg = [f for f in og if f != GET]
    ctx.check(prop, rule, "get events are sent only by Hypercore::get", not badg and (ctx.crate.name != "hypercore" or sum(len(v) for v in og.values()) == 1),
              "one send_on_get site, in get", "send_on_get sites: %s" % {f: len(v) for f, v in og.items()})
    tb = {}
    for fa in ctx.all_fas():
        for s, t in fa.calls():
            c = t.get("callee") or ""
            if c.startswith("async_broadcast::Sender") and ("broadcast" in c.split("::")[-1]):
                tb.setdefault(fn_of(fa.body.name), []).append(site_desc(fa, s))
    badb = [f for f in tb if not f.startswith(EVENTS_SEND.rsplit("::", 1)[0] + "::")]
    ctx.check(prop, rule, "the channel is written only by the methods of Events", not badb, "broadcast sites only in %s" % sorted(tb), "the event channel is written from %s" % badb, sum((tb[f] for f in badb), []))
    for f in (CLEAR, MAKE_RO):
        g = ctx.crate.group(f)
        if not g:
            ctx.missing(prop, rule, f, "function not found")
            continue
        n = sum(len(sites_any(ctx.fa(b), (EVENTS_SEND, EVENTS_SEND_ON_GET))) for b in g)
        ctx.check(prop, rule, "%s emits no event" % f.split("::")[-1], n == 0, "no send site", "%s contains %d event send site(s)" % (f, n))


def _is_broadcast(t):
    c = t.get("callee") or ""
    return c.startswith("async_broadcast::Sender") and "broadcast" in c.split("::")[-1]


def _emit_sites(fa):
    """sites that put an event on the channel: Events::send(..) calls, and direct broadcasts made by
    another method of Events (a send inlined by hand)"""
    out = sites(fa, EVENTS_SEND)
    if fn_of(fa.body.name) != EVENTS_SEND:
        out = out + [s for s, t in fa.calls() if _is_broadcast(t)]
    return out


def _sends(fa):
    return [(s, _send_kind(fa, s)) for s in sites(fa, EVENTS_SEND)]


def r2(ctx):
    rule = "C13.R2"
    fa = ctx.real_body(APPEND_BATCH, [APPEND_CS])
    if not need(ctx, P, rule, APPEND_BATCH, fa):
        return
    sn = _sends(fa)
    up = [s for s, k in sn if k == "DataUpgrade"]
    hv = [s for s, k in sn if k == "Have"]
    ctx.check(P, rule, "append: one upgrade event and one have event", len(up) == 1 and len(hv) == 1 and len(sn) == 2, "DataUpgrade x1, Have x1", "send sites in append_batch: %s" % [k for _, k in sn], [site_desc(fa, s) for s, _ in sn])
    if len(up) != 1 or len(hv) != 1:
        return
    ne = list(bool_switches(fa, lambda o: o[0] == "call" and o[2].endswith("::is_empty") and "batch" in term_str(o)))
    if need(ctx, P, rule, "append_batch: branch on batch.is_empty()", ne):
        b, o, tr, fl = ne[0]
        ctx.check(P, rule, "events only for a non-empty batch", all(fa.dominates(fl, s) for s in up + hv), "both sends lie in the non-empty branch", "an event is sent for an empty batch", [site_desc(fa, s) for s in up + hv])
    ctx.check(P, rule, "upgrade event precedes have event", fa.dominates(up[0], hv[0]), "DataUpgrade dominates Have", "Have is not preceded by DataUpgrade", [site_desc(fa, up[0]), site_desc(fa, hv[0])])
    bu = sites(fa, BF_UPDATE)
    if need(ctx, P, rule, "append_batch: Bitfield::update", bu):
        applied = strip(fa.arg_origin(bu[0], 1))
        announced = strip(fa.arg_origin(hv[0], 1))
        ctx.check(P, rule, "announced range is the applied bitfield update", applied == announced and is_agg(applied) and applied[1].endswith("BitfieldUpdate"),
                  "Have::from(&bitfield_update) of the very update applied: %s" % term_str(applied)[:120], "Have announces %s but the bitfield applied %s" % (term_str(announced)[:100], term_str(applied)[:100]),
                  [site_desc(fa, hv[0])])
        ctx.check(P, rule, "events come after the in-memory commit", all(fa.dominates(x, up[0]) for x in bu + sites(fa, MT_COMMIT)), "sends dominated by Bitfield::update and MerkleTree::commit",
                  "an event can be sent before bitfield/tree are committed")
    cm = sites(fa, MT_COMMIT)
    ccm = checked(fa, cm[0]) if cm else None
    if ccm is not None:
        okrets = [bb for bb, _, t in ok_returns(fa)]
        for s, k in ((up[0], "DataUpgrade"), (hv[0], "Have")):
            skip = any(fa.can_reach(ccm["ok"], r, avoiding=[s]) for r in okrets)
            ctx.check(P, rule, "every successful non-empty append emits the %s event" % k, not skip, "no path from the commit to the Ok return avoids the send",
                      "a successful non-empty append can return Ok without sending %s: the send at %s is under a further condition" % (k, loc(fa, s)), [site_desc(fa, s)], key="C13|C13.R2|append_batch|%s conditional" % k)
    fh = ctx.fn(HAVE_FROM)
    if need(ctx, P, rule, "impl From<&BitfieldUpdate> for Have", fh):
        rets = [t for _, _, t in ret_assigns(fh)]
        good = False
        if rets and is_agg(rets[0]) and rets[0][1].endswith("Have"):
            d = dict(rets[0][3])
            good = all("BitfieldUpdate" in fh.body.j["inputs"][0] and term_str(d[f]).endswith("." + f) for f in ("start", "length", "drop"))
        ctx.check(P, rule, "Have::from maps start/length/drop field by field", good, "start->start, length->length, drop->drop", "Have::from builds %s" % [term_str(r)[:100] for r in rets])


def r3(ctx):
    rule = "C13.R3"
    fa = ctx.real_body(VAP, [APPEND_CS])
    if not need(ctx, P, rule, VAP, fa):
        return
    sn = _sends(fa)
    up = [s for s, k in sn if k == "DataUpgrade"]
    hv = [s for s, k in sn if k == "Have"]
    ctx.check(P, rule, "proof: one upgrade event site and one have event site", len(up) == 1 and len(hv) == 1 and len(sn) == 2, "DataUpgrade x1, Have x1", "send sites: %s" % [k for _, k in sn], [site_desc(fa, s) for s, _ in sn])
    if len(up) != 1 or len(hv) != 1:
        return
    us = list(bool_switches(fa, lambda o: o[0] == "call" and o[2].endswith(("::is_some", "::is_none")) and path_of(strip(o[3][0])) == "proof.upgrade"))
    if need(ctx, P, rule, "verify_and_apply_proof: branch on proof.upgrade.is_some()", us):
        b, o, tr, fl = us[-1] if len(us) > 1 else us[0]
        cand = [x for x in us if fa.dominates(x[2] if x[1][2].endswith("is_some") else x[3], up[0])]
        ctx.check(P, rule, "upgrade event iff the proof carried an upgrade", bool(cand), "DataUpgrade send is dominated by proof.upgrade.is_some()", "DataUpgrade is sent regardless of proof.upgrade", [site_desc(fa, up[0])])
    bu = sites(fa, BF_UPDATE)
    if need(ctx, P, rule, "verify_and_apply_proof: Bitfield::update", bu):
        applied = roots(fa.arg_origin(bu[0], 1))
        announced = roots(fa.arg_origin(hv[0], 1))
        same = applied == announced and len(applied) == 1 and all(is_agg(a) and a[1].endswith("BitfieldUpdate") for a in applied)
        ctx.check(P, rule, "announced block is the applied bitfield update", same, "Have::from(bitfield_update) of the update applied: %s" % term_str(applied[0])[:120],
                  "Have announces %s, bitfield applied %s" % ([term_str(a)[:80] for a in announced], [term_str(a)[:80] for a in applied]), [site_desc(fa, hv[0])])
        if same:
            a = applied[0]
            d = dict(a[3])
            ctx.check(P, rule, "have event is exactly the received block", "proof.block" in term_str(d["start"]) and term_str(d["start"]).endswith(".index") and term_is_lit(d["length"], 1) and term_is_lit(d["drop"], 0),
                      "start = proof.block.index, length = 1, drop = false", "bitfield update is %s" % term_str(a)[:120])
        # on the Some edge of the same option
        sw = [x for x in switch_edges_on(fa, lambda o: o[0] == "disc" and any(is_agg(r, "Some") and "BitfieldUpdate" in term_str(r) for r in roots(o[1])))]
        dom_some = [x for x in sw if x[2].get(1) is not None and fa.dominates(x[2][1], hv[0])]
        ctx.check(P, rule, "have event only when a block was applied", bool(dom_some), "Have send dominated by the Some(bitfield_update) arm", "Have can be sent without a block having been stored", [site_desc(fa, hv[0])])
    # nothing but "a block was applied" / "the proof carried an upgrade" decides whether the event is sent:
    # the conditions that dominate a send but not the in-memory commit (which every accepted proof
    # reaches) are the send's own conditions, and those may only be the presence tests
    from .c09 import dominating_conditions
    from ..analysis import term_sig
    cm = sites(fa, MT_COMMIT)
    base = set((term_sig(o), tr) for o, tr, _ in dominating_conditions(fa, cm[0])) if cm else set()
    for s_, what, allowed in ((hv[0], "Have", ("BitfieldUpdate", "proof.block")), (up[0], "DataUpgrade", ("proof.upgrade",))):
        extra = []
        for o, tr, _ in dominating_conditions(fa, s_):
            sg = term_sig(o)
            if (sg, tr) in base or ev(ctx, o) is not None:
                continue
            if isinstance(o, tuple) and o[0] == "disc" and isinstance(o[1], tuple) and o[1][0] in ("poll", "branch"):
                continue   # completion of an awaited / `?`-checked step (the commit, the periodic flush)
            if any(a_ in sg for a_ in allowed) and (sg.startswith(("disc(", "is_some(")) and not any(isinstance(x_, tuple) and x_ and x_[0] == "call" and x_[2].split("::")[-1] not in ("is_some", "as_ref", "from") for x_ in subterms(o))):
                continue   # the presence test itself
            extra.append("%s is %s" % (sg[:90], tr))
        ctx.check(P, rule, "%s is announced for every accepted proof that %s" % (what, "stored a block" if what == "Have" else "carried an upgrade"), not extra,
                  "no condition beyond the presence test guards the send", "the %s event at %s is additionally sent only if [%s]: an accepted proof that %s may go unannounced" % (
                      what, loc(fa, s_), "; ".join(extra), "made a block available" if what == "Have" else "upgraded the core"), [site_desc(fa, s_)], key="C13|C13.R3|%s|extra condition" % what)
    ctx.check(P, rule, "events come after the in-memory commit", all(fa.dominates(x, s) for x in sites(fa, MT_COMMIT) for s in up + hv), "sends dominated by MerkleTree::commit", "an event can be sent before the tree commit")


def r4(ctx):
    rule = "C13.R4"
    for f in (APPEND_BATCH, VAP):
        fa = ctx.real_body(f, [APPEND_CS])
        if not need(ctx, P, rule, f, fa):
            continue
        for s, k in _sends(fa):
            r = region(fa, s)
            fails = [x for x, t in fa.calls() if x in r and t.get("callee") in FROM_RESIDUAL]
            errs = [(b, si) for b, si, t in err_returns(fa) if b in r]
            ctx.check(P, rule, "%s: nothing can fail after the %s event" % (f.split("::")[-1], k), not fails and not errs, "no error path is reachable after the send",
                      "after the %s event at %s the call can still fail (%s): a failed call would have emitted an event" % (k, loc(fa, s), [loc(fa, x) for x in fails] + [loc(fa, b, si) for b, si in errs]),
                      [site_desc(fa, s)])
            oks = [(b, si) for b, si, t in ok_returns(fa) if b in r]
            ctx.check(P, rule, "%s: the %s event is followed by a success return" % (f.split("::")[-1], k), bool(oks), "Ok return reachable", "no Ok return after the send")


def r5(ctx):
    rule = "C13.R5"
    fa = ctx.real_body(GET, [EVENTS_SEND_ON_GET])
    if not need(ctx, P, rule, GET + " with send_on_get", fa):
        return
    sg = sites(fa, EVENTS_SEND_ON_GET)
    ctx.check(P, rule, "get: exactly one get-event site", len(sg) == 1, "one site", "%d send_on_get sites" % len(sg), [site_desc(fa, s) for s in sg])
    gs = list(bool_switches(fa, lambda o: o[0] == "call" and o[2] == BF_GET))
    if not need(ctx, P, rule, "get: branch on Bitfield::get(index)", gs):
        return
    b, o, tr, fl = gs[0]
    s = sg[0]
    ctx.check(P, rule, "get event only for a block that is not held", fa.dominates(fl, s) and not fa.can_reach(tr, s), "send_on_get on the false edge of bitfield.get(index)", "send_on_get is reachable when the block is held", [site_desc(fa, s)])
    skipped = [r for r in fa.returns if r in fa.reach(fl, avoiding=[s], include_src=True)] if fl != s else []
    ctx.check(P, rule, "every read of a block that is not held emits the get event", not skipped, "no way from the not-held edge to a return avoids send_on_get",
              "get can return for a block that is not held without sending the Get event (the send is under a further condition): a replicator listening for Get is never told to fetch that block",
              [loc(fa, r) for r in skipped], key="C13|C13.R5|get|event on every miss")
    ctx.check(P, rule, "get event carries the requested index", strip(fa.arg_origin(s, 1)) == ("param", "index") and strip(o[3][1]) == ("param", "index"), "send_on_get(index) for get(index)", "event index is %s" % term_str(fa.arg_origin(s, 1))[:60])
    vals = [t for _, _, t in ret_values_in_region(fa, fl)]
    ctx.check(P, rule, "missing block returns Ok(None) right after the event", vals and all(is_agg(t, "Ok") and is_agg(agg_field(t, "0"), "None") for t in vals) and not region_has_sites(fa, fl, sites_any(fa, (READ_INFO, BS_READ, BYTE_RANGE_CORE))),
              "Ok(None) with no storage read", "missing-block edge returns %s" % [term_str(v)[:50] for v in vals])
    # send_on_get sends exactly one Get with the index
    fs = ctx.fn(EVENTS_SEND_ON_GET)
    if need(ctx, P, rule, EVENTS_SEND_ON_GET, fs):
        ss = _emit_sites(fs)
        good = len(ss) == 1 and not fs.loops()
        if good:
            a = strip(fs.arg_origin(ss[0], 1))
            if is_agg(a, "Get") and a[1].endswith("Event"):
                a = strip(agg_field(a, "0"))   # broadcast(Event::Get(Get{..})) written out
            good = is_agg(a) and a[1].endswith("Get") and strip(agg_field(a, "index")) == ("param", "index")
        ctx.check(P, rule, "send_on_get emits one Get{index}", good, "one Events::send(Get{index,..}), no loop", "send_on_get does not emit exactly one Get{index}")
    fe = ctx.fn(EVENTS_SEND)
    if need(ctx, P, rule, EVENTS_SEND, fe):
        tb = [s for s, t in fe.calls() if (t.get("callee") or "").startswith("async_broadcast::Sender") and "broadcast" in t["callee"].split("::")[-1]]
        ctx.check(P, rule, "Events::send broadcasts once", len(tb) == 1 and not fe.loops() and strip(fe.arg_origin(tb[0], 1))[0] in ("param", "call") and "evt" in term_str(fe.arg_origin(tb[0], 1)), "one try_broadcast(evt.into())", "Events::send does not broadcast its argument exactly once")


def r6(ctx):
    """the event channel keeps what the property promises: C13 quantifies over subscribers with
    fewer than 32 undrained events, so the queue the core creates must hold at least 32 — the
    channel runs in overflow mode and silently evicts the oldest events beyond its capacity, for
    every subscriber.  Clause: every `async_broadcast::broadcast(cap)` whose sender carries `Event`s
    (the one in Events::new) is created with a compile-time capacity >= 32; and that queue is
    not shrunk afterwards (no set_capacity on it)."""
    rule = "C13.R6"
    EV_NEW = "replication::events::Events::new"
    fa = ctx.fn(EV_NEW)
    if not need(ctx, P, rule, EV_NEW, fa):
        return
    bs = [s for s, t in fa.calls() if (t.get("callee") or "") == "async_broadcast::broadcast"]
    if not need(ctx, P, rule, "Events::new: the broadcast channel", bs):
        return
    for s_ in bs:
        cap = ev(ctx, fa.arg_origin(s_, 0))
        ctx.check(P, rule, "the event queue holds the 32 events the property allows to be undrained", isinstance(cap, int) and cap >= 32, "broadcast(%s)" % cap,
                  "Events::new creates the event channel with capacity %s (%s): the channel evicts the oldest events beyond its capacity, so a subscriber that is %s events behind — inside the property's bound of 32 — loses events that were announced" % (
                      cap, term_str(fa.arg_origin(s_, 0))[:80], "fewer than 32" if cap is None else "more than %s" % cap),
                  [site_desc(fa, s_)], key="C13|C13.R6|Events::new|queue capacity")
    shrink = []
    for fx in ctx.all_fas():
        if "::test" in fx.body.name:
            continue
        for s_, t in fx.calls():
            if (t.get("callee") or "").startswith("async_broadcast::") and (t.get("callee") or "").split("::")[-1] == "set_capacity":
                shrink.append(site_desc(fx, s_))
    ctx.check(P, rule, "the capacity of the event queue is not changed after creation", not shrink, "no set_capacity", "set_capacity is called at %s" % shrink, shrink, key="C13|C13.R6|set_capacity")


for _r in (r1, r2, r3, r4, r5, r6):
    _r.needs_feature = "replication"
RULES = [r1, r2, r3, r4, r5, r6]
CONTROLS = ["c13_send_outside_owner"]
EXPLANATION = ("C13 (events announce exactly the state changes): decides who may emit (R1: Events::send only from append_batch, verify_and_apply_proof and send_on_get; "
               "the channel only from Events::send; clear / make_read_only emit nothing), that append emits DataUpgrade then Have for the very BitfieldUpdate applied, only for a "
               "non-empty batch and after bitfield+tree commit (R2), that a proof emits DataUpgrade iff proof.upgrade.is_some() and Have{block.index,1} iff a block was applied (R3), "
               "that no error path is reachable after the first send (R4; with C10.R3: no send on any error edge), and that get emits one Get{index} exactly on the not-held edge, "
               "followed by Ok(None) (R5); and that the event queue is created with a compile-time capacity of at least the 32 undrained events the property allows (R6).")
NOT_DECIDED = "delivery semantics of async-broadcast (same order for all subscribers, eviction of the oldest events beyond the capacity R6 bounds); that the union of announced ranges equals the blocks that became available (value level); the indirect get event raised by create_proof through Hypercore::get."
ASSUMPTIONS = ["async-broadcast delivers in send order"]
