"""C14 — backend / cache independence: who may insert into the node cache, what
enters it, a miss falls through, no backend dispatch."""
from ..engine import *
from ..analysis import term_str, strip, roots, subterms, contains, callee_of, term_sig
from .names import *

P = "C14"
CACHE_INSERT = "moka::sync::Cache::<K, V, S>::insert"
CACHE_GET = "moka::sync::Cache::<K, V, S>::get"
TO_NODE_CACHE = "common::cache::CacheOptions::to_node_cache"


def r1(ctx, prop=P, rule="C14.R1"):
    owners = {}
    for fa in ctx.all_fas():
        for s, t in fa.calls():
            c = t.get("callee") or ""
            if c.startswith("moka::sync::Cache") and c.split("::")[-1] in ("insert", "get_with", "entry", "invalidate", "invalidate_all", "remove", "get_with_by_ref", "try_get_with", "optionally_get_with", "entry_by_ref"):
                owners.setdefault(fn_of(fa.body.name), []).append((fa, s, c.split("::")[-1]))
    allowed = {TO_NODE_CACHE, MT_INFOS_TO_NODES}
    if ctx.crate.name == "hypercore":
        if not need(ctx, prop, rule, "node cache writers", owners):
            return
    bad = [(f, fa, s) for f, v in owners.items() if f not in allowed for fa, s, _ in v]
    ctx.check(prop, rule, "the node cache is written only when nodes are loaded from storage", not bad, "cache writers: %s" % {f.split("::")[-1]: [k for _, _, k in v] for f, v in owners.items()},
              "node cache is modified from %s" % sorted(set(f for f, _, _ in bad)), [site_desc(fa, s) for _, fa, s in bad], key="%s|%s|cache write outside owners|%s" % (prop, rule, ",".join(sorted(set(f for f, _, _ in bad)))))


def r2(ctx):
    rule = "C14.R2"
    fa = ctx.fn(MT_INFOS_TO_NODES)
    if need(ctx, P, rule, MT_INFOS_TO_NODES, fa):
        ins = sites(fa, CACHE_INSERT)
        if need(ctx, P, rule, "infos_to_nodes: cache insert", ins):
            k, v = fa.arg_origin(ins[0], 1), fa.arg_origin(ins[0], 2)
            nb = sites(fa, NODE_FROM_BYTES)
            good = bool(nb) and term_has_call(v, NODE_FROM_BYTES) == nb[0] and term_has_call(k, NODE_FROM_BYTES) == nb[0] and term_sig(strip(k)).endswith(".index")
            data = fa.arg_origin(nb[0], 1) if nb else ("unknown",)
            good = good and "info" in term_str(data) or (good and ".data" in term_str(data))
            ctx.check(P, rule, "cached nodes are exactly the nodes decoded from storage bytes", good, "insert(node.index, node) with node = node_from_bytes(index, info.data)", "cache receives (%s, %s)" % (term_str(k)[:60], term_str(v)[:60]), key="C14|C14.R2|infos_to_nodes|value")
            from .c09 import dominating_conditions
            conds = [(term_sig(o), tr) for o, tr, _ in dominating_conditions(fa, ins[0])]
            ctx.check(P, rule, "blank nodes are not cached", any(c.endswith(".blank") and tr is False for c, tr in conds), "insert dominated by !node.blank", "cache insert is not guarded by !node.blank (%s)" % conds[:4], key="C14|C14.R2|infos_to_nodes|blank")
            ctx.check(P, rule, "misses are not cached", any(c.endswith(".miss") and tr is False for c, tr in conds), "insert dominated by !info.miss", "cache insert is not guarded by !info.miss")
    fc = ctx.fn(TO_NODE_CACHE)
    if need(ctx, P, rule, TO_NODE_CACHE, fc):
        ins = sites(fc, CACHE_INSERT)
        good = bool(ins) and all("initial_nodes" in term_str(fc.arg_origin(s, 2)) for s in ins)
        ctx.check(P, rule, "the cache is seeded only with the nodes it is given", good, "for node in initial_nodes { insert(node.index, node) }", "to_node_cache inserts something other than initial_nodes")
    # the cache is a map index -> node: every insert, wherever it is, files the node under its own index
    # (Node has several u64 fields; `node.parent` or `node.length` as the key compiles just as well)
    n_ins = 0
    for fx in ctx.all_fas():
        for s_ in sites(fx, CACHE_INSERT):
            n_ins += 1
            k_, v_ = strip(fx.arg_origin(s_, 1)), strip(fx.arg_origin(s_, 2))
            good = k_[0] == "field" and k_[2] == "index" and term_sig(strip(k_[1])) == term_sig(v_)
            ctx.check(P, rule, "%s: a node is cached under its own index" % fn_of(fx.body.name).split("::")[-1], good, "insert(node.index, node)",
                      "%s inserts %s into the node cache under the key %s: MerkleTree::node looks nodes up by index, so a later read of that key returns another node" % (fn_of(fx.body.name).split("::")[-1], term_str(v_)[:60], term_str(k_)[:60]),
                      [site_desc(fx, s_)], key="C14|C14.R2|%s|cache key" % fn_of(fx.body.name).split("::")[-1])
    if n_ins < 2 and "cache" in ctx.crate.features:
        ctx.missing(P, rule, "node cache insert sites", "found %d (floor 2)" % n_ins)
    fo = ctx.fn(MT_OPEN)
    if need(ctx, P, rule, MT_OPEN, fo):
        seeds = []
        for b in ctx.crate.group(MT_OPEN):
            f = ctx.fa(b)
            for s in sites(f, TO_NODE_CACHE):
                seeds.append((f, s))
        good = bool(seeds)
        # the roots vector is filled only by node_from_bytes
        ps = [s for s, t in fo.calls() if (t.get("callee") or "").endswith("::push") and "node_from_bytes" in term_str(fo.arg_origin(s, 1))]
        filled = set(term_sig(strip(fo.arg_origin(s, 0))) for s in ps)
        for f, s in seeds:
            a = f.arg_origin(s, 1)
            # the seed is the captured `roots` variable, or (closure spliced) the very vector the pushes fill
            good = good and ("roots" in term_str(a) or (f is fo and term_sig(strip(a)) in filled))
        ctx.check(P, rule, "the cache is seeded with the roots read from storage", good and bool(ps), "to_node_cache(roots.clone()) with roots from node_from_bytes", "cache seed is not the stored roots")


def r3(ctx):
    rule = "C14.R3"
    fa = ctx.fn(MT_NODE)
    if not need(ctx, P, rule, MT_NODE, fa):
        return
    gs = sites(fa, CACHE_GET)
    if not need(ctx, P, rule, "MerkleTree::node: cache lookup", gs):
        return
    sw = [x for x in switch_edges_on(fa, lambda o: o[0] == "disc" and gs[0] in call_root_bb(o[1]))]
    if not need(ctx, P, rule, "MerkleTree::node: match on the cache result", sw):
        return
    b, o, tg, other = sw[0]
    hit, miss = tg.get(1), tg.get(0, other)
    vals = [t for bb, _, t in ret_assigns(fa) if fa.dominates(hit, bb)]
    good = bool(vals) and all(is_agg(t, "Ok") and term_has_call(t, CACHE_GET) == gs[0] for t in vals)
    ctx.check(P, rule, "a cache hit returns the cached node", good, "Some(node) => Ok(Right(Some(node)))", "hit arm returns %s" % [term_str(v)[:60] for v in vals])
    un = [s for s, t in fa.calls() if (t.get("callee") or "").endswith("IntMap::<V>::get") or (t.get("callee") or "").endswith("::get") and "unflushed" in term_str(fa.arg_origin(s, 0))]
    ctx.check(P, rule, "a cache miss falls through to unflushed / incoming nodes / a read instruction", bool(un) and all(fa.can_reach(miss, s) for s in un) and not [1 for bb, _, t in ret_assigns(fa) if fa.dominates(miss, bb) and not fa.can_reach(miss, un[0])],
              "None continues with the unflushed lookup", "the miss arm does not continue to the normal lookup", key="C14|C14.R3|miss falls through")
    k = fa.arg_origin(gs[0], 1)
    ctx.check(P, rule, "the cache is asked for the requested index", strip(k) == ("param", "index"), "node_cache.get(&index)", "cache key is %s" % term_str(k))
    # cached answers and uncached answers are both keyed by index: unflushed first? the cache must not shadow unflushed changes
    return


def r4(ctx, prop=P, rule="C14.R4"):
    allowed = {ST + "::new_memory", ST + "::new_disk"}
    users = {}
    for fa in ctx.all_fas():
        for s, t in fa.calls():
            full = (t.get("callee_full") or "") + " " + (t.get("dest_ty") or "")
            if "RandomAccessMemory" in full or "RandomAccessDisk" in full:
                users.setdefault(fn_of(fa.body.name), []).append(site_desc(fa, s))
        for l in fa.body.locals:
            if "RandomAccessMemory" in l["ty"] or "RandomAccessDisk" in l["ty"]:
                users.setdefault(fn_of(fa.body.name), []).append("local of type %s" % l["ty"][:60])
    bad = {f: v for f, v in users.items() if f not in allowed}
    ctx.check(prop, rule, "concrete backends are named only by the two constructors", not bad, "RandomAccessMemory / RandomAccessDisk appear only in %s" % sorted(x.split("::")[-1] for x in users), "concrete backend types used in %s" % sorted(bad), sum(bad.values(), [])[:6],
              key="%s|%s|backend named elsewhere|%s" % (prop, rule, ",".join(sorted(bad))))
    dc = []
    for fa in ctx.all_fas():
        for s, t in fa.calls():
            c = t.get("callee") or ""
            if "Any" in c and ("downcast" in c or "type_id" in c or c.endswith("::is")):
                dc.append(site_desc(fa, s))
    ctx.check(prop, rule, "no dynamic type inspection of a storage backend", not dc, "no Any::downcast / type_id", "dynamic type inspection: %s" % dc, dc)
    # storage is only reached through the RandomAccess trait object
    fa = ctx.fn(ST + "::get_random_access")
    if need(ctx, prop, rule, ST + "::get_random_access", fa):
        rets = [t for _, _, t in ret_assigns(fa)]
        fields = sorted(set(p.split(".")[-1] for t in rets for p in term_paths(t) if "." in p))
        ctx.check(prop, rule, "each store maps to its own backend object", fields == ["bitfield", "data", "oplog", "tree"], "Tree/Data/Bitfield/Oplog -> self.tree/data/bitfield/oplog", "get_random_access returns %s" % fields)


for _r in (r1, r2, r3):
    _r.needs_feature = "cache"
def pending_first(ctx, prop, rule):
    """the functions that answer a seek work in passes: a node that is not in memory becomes a read
    instruction and the caller asks again.  Whether a node is in memory depends on the node cache
    and on what has been flushed, so the ANSWER must not be given while an instruction is pending —
    otherwise cache-on and cache-off cores (or a core before and after a flush) serve different
    proofs for the same request (defect D21).  Clause: no `Ok(Right(position))` can be reached from
    a place that recorded an instruction, except under `instructions.is_empty()`."""
    n = 0
    ANCH = ("tree::merkle_tree::MerkleTree::seek_from_head", "tree::merkle_tree::MerkleTree::seek_untrusted_tree", "tree::merkle_tree::MerkleTree::seek_trusted_tree")
    for nm in ANCH:
        need(ctx, prop, rule, nm, ctx.fn(nm))
    # the three seek functions are the anchors (they had the defect); every other function of the
    # crate written in the same idiom — it records read instructions and returns Right(answer) —
    # is held to the same clause (cross-check of siblings)
    def records(fx):
        return [s_ for s_, t_ in fx.calls() if (t_.get("callee") or "").split("::")[-1] in ("push", "extend", "extend_from_slice") and "StoreInfoInstruction" in (t_.get("callee_full") or "") + " ".join(t_.get("arg_tys") or [])]
    names = list(ANCH) + sorted(set(fn_of(fx.body.name) for fx in ctx.all_fas() if "::tests::" not in fx.body.name and records(fx)) - set(ANCH))
    for nm in names:
        fa = ctx.fn(nm)
        if fa is None:
            continue
        short = nm.split("::")[-1]
        rec = records(fa)
        if not rec:
            if nm in ANCH:
                ctx.missing(prop, rule, "%s: places that record a read instruction" % short, "none found")
            continue
        empt = [tr for _, o, tr, fl in bool_switches(fa, lambda o: o[0] == "call" and o[2].split("::")[-1] == "is_empty") if tr is not None]
        bad = []
        for bb, _, t_ in ok_returns(fa):
            if not is_agg(agg_field(t_, "0"), "Right"):
                continue
            n += 1
            if any(fa.can_reach(r_, bb) or r_ == bb for r_ in rec) and not any(fa.dominates(e_, bb) for e_ in empt):
                bad.append(loc(fa, bb))
        ctx.check(prop, rule, "%s gives no answer while a read instruction is pending" % short, not bad, "every Ok(Right(position)) reachable from a recorded instruction lies under instructions.is_empty()",
                  "%s can return a position at %s after it recorded a read instruction for a node that was not in memory: the arithmetic went on without that node's length, and the answer depends on whether the node cache is enabled and on what has been flushed" % (short, bad),
                  bad, key="%s|%s|%s|answer while instructions pending" % (prop, rule, short))
    if n < 12 and ctx.crate.name == "hypercore":
        ctx.missing(prop, rule, "Ok(Right(..)) results of the instruction-recording functions", "found %d (floor 12)" % n)


def r7(ctx):
    pending_first(ctx, P, "C14.R7")


RULES = [r1, r2, r3, r4, r7]
CONTROLS = ["c14_cache_insert_elsewhere"]
CONFIGS_THOROUGH = ["all", "default"]
EXPLANATION = ("C14 (independence of backend and node cache): decides that the node cache is written only by to_node_cache and infos_to_nodes (R1), that what enters it is exactly node_from_bytes(index, "
               "storage bytes), never blank nodes, misses, changeset / unflushed / proof nodes, and that it is seeded with the roots read from storage (R2), that a cache miss falls through to the "
               "normal lookup and a hit returns the cached node for the requested index (R3), and that no code outside Storage::new_memory / new_disk names a concrete backend or inspects a backend's "
               "dynamic type, each store mapping to its own trait object (R4), and that randomness / clocks / environment are read only by key generation, the flush cadence depends only on the core's own counters and signing is the deterministic Ed25519 signer (R5), and that `overwrite` empties each of the four stores (the store tested is the store truncated, and nothing but `overwrite` and the store's own length decides it) and every Storage field holds the backend created for its own store (R6); the functions that answer in passes give no answer while a read instruction is pending (R7); and every caller of a tree pass function answers a Left(instructions) by reading and calling again — nothing but `?` leaves that loop — so that a node evicted from the cache between two passes costs one more pass, not the call (R8).")
NOT_DECIDED = "byte identity of files across backends; hole punching / del semantics inside random-access-disk; effects of eviction; determinism of flush cadence (skip_flush_count is a plain counter) and of Ed25519 signatures (library)."
ASSUMPTIONS = ["moka returns only values that were inserted under the same key", "tree nodes on disk are immutable once written except by truncation"]


def r5(ctx, prop=P, rule="C14.R5"):
    """sources of nondeterminism: only key generation may draw randomness; nothing reads clocks,
    the environment or thread identity; the flush cadence depends only on counters of the core"""
    NONDET = ("rand::", "getrandom::", "std::time::Instant", "std::time::SystemTime", "std::env::", "std::thread::", "std::process::id", "std::collections::hash_map::RandomState", "std::hash::RandomState",
              "ed25519_dalek::SigningKey::generate")
    allowed = {"crypto::key_pair::generate"}
    users = {}
    for fa in ctx.all_fas():
        for s, t in fa.calls():
            c = (t.get("callee") or "")
            full = (t.get("callee_full") or "")
            if c.startswith(NONDET) or any(k in full for k in ("OsRng", "ThreadRng", "SystemTime", "Instant::now")):
                users.setdefault(fn_of(fa.body.name), []).append(site_desc(fa, s))
    bad = {f: v for f, v in users.items() if f not in allowed}
    if ctx.crate.name == "hypercore":
        need(ctx, prop, rule, "key generation draws randomness", users.get("crypto::key_pair::generate"))
    ctx.check(prop, rule, "randomness, clocks and environment are used only for key generation", not bad, "nondeterministic sources only in %s" % sorted(users),
              "nondeterministic source used in %s" % sorted(bad), sum(bad.values(), [])[:6], key="%s|%s|nondeterminism outside key generation|%s" % (prop, rule, ",".join(sorted(bad))))
    fa = ctx.fn(SHOULD_FLUSH)
    if need(ctx, prop, rule, SHOULD_FLUSH, fa):
        deps = set()
        for b, o, tr, fl in bool_switches(fa, lambda o: True):
            deps |= term_paths(o)
            for s_ in subterms(o):
                if isinstance(s_, tuple) and s_[0] == "call":
                    deps.add("call:" + s_[2])
                if isinstance(s_, tuple) and s_[0] == "const":
                    deps.add("const:" + s_[1].split("::")[-1])
        ok = deps <= {"self.skip_flush_count", "self.oplog.entries_byte_length", "const:MAX_OPLOG_ENTRIES_BYTE_SIZE", "self", "self.oplog"} and "self.skip_flush_count" in deps
        ctx.check(prop, rule, "flush cadence depends only on the core's own counters", ok, "should_flush reads skip_flush_count and oplog.entries_byte_length only", "should_flush depends on %s" % sorted(deps),
                  key="%s|%s|flush cadence inputs" % (prop, rule))
    fs = ctx.fn(CRYPTO_SIGN)
    if need(ctx, prop, rule, CRYPTO_SIGN, fs):
        c = [t.get("callee") for _, t in fs.calls()]
        ctx.check(prop, rule, "signing is the deterministic Ed25519 signer", any((x or "").endswith("Signer::sign") for x in c) and not any("rand" in (x or "") or "sign_prehashed" in (x or "") for x in c),
                  "signing_key.sign(msg) (RFC 8032 deterministic nonce)", "crypto::sign uses %s" % c)


RULES.append(r5)


def r6(ctx, prop=P, rule="C14.R6"):
    """Storage::open: with `overwrite` every one of the four stores is emptied — the store whose
    length is tested is the store that is truncated — and each field of Storage holds the backend
    created for its own Store"""
    from .c09 import dominating_conditions
    fa = ctx.real_body(STORAGE_OPEN, [RA_TRUNC])
    if not need(ctx, prop, rule, STORAGE_OPEN, fa):
        return
    cleared = []
    for s in sites(fa, RA_TRUNC):
        recv = term_sig(fa.arg_origin(s, 0))
        tested = None
        for o, tr, _ in dominating_conditions(fa, s):
            # canonical `0 < X.len().await?`
            if isinstance(o, tuple) and o[0] == "bin" and o[1] == "Lt" and tr is True and term_is_lit(o[2], 0):
                ln = strip(o[3])
                if ln[0] == "call" and ln[2] == RA_LEN and ln[3]:
                    tested = term_sig(ln[3][0])
        # nothing else may decide whether this store is emptied: not another store's length, not the
        # outcome of an earlier step (an interrupted overwrite must be completed by the retry)
        extra = []
        for o, tr, _ in dominating_conditions(fa, s):
            if isinstance(o, tuple) and o[0] == "disc":
                continue   # `?` / await protocol
            if strip(o) == ("param", "overwrite") and tr is True:
                continue
            if isinstance(o, tuple) and o[0] == "bin" and o[1] == "Lt" and tr is True and term_is_lit(o[2], 0):
                ln = strip(o[3])
                if ln[0] == "call" and ln[2] == RA_LEN and ln[3] and term_sig(ln[3][0]) == recv:
                    continue
            extra.append("%s is %s" % (term_sig(o)[:80], tr))
        store = None
        for x in subterms(fa.arg_origin(s, 0)):
            if isinstance(x, tuple) and x[0] == "agg" and x[1].endswith("Store"):
                store = x[2]
        same = tested is not None and tested == recv
        ctx.check(prop, rule, "overwrite: the %s store that is tested is the one truncated" % (store or "?"), same and term_is_lit(fa.arg_origin(s, 1), 0) and not extra,
                  "if X.len() > 0 { X.truncate(0) } on the same backend, under `overwrite` alone",
                  ("truncate(0) at %s is applied to %s but the length test is on %s" % (loc(fa, s), recv[:80], (tested or "-")[:80])) if not extra else
                  ("emptying the %s store at %s additionally depends on [%s]: with overwrite = true a store can keep the bytes of a previous core (e.g. when an earlier overwrite was interrupted after the oplog had been emptied), which the memory backend can never show" % (store, loc(fa, s), "; ".join(extra))),
                  [site_desc(fa, s)],
                  key="%s|%s|Storage::open|truncate target %s" % (prop, rule, store))
        if same:
            cleared.append(store)
    ctx.check(prop, rule, "overwrite empties all four stores", sorted(cleared) == ["Bitfield", "Data", "Oplog", "Tree"], "tree, data, bitfield, oplog each truncated to 0",
              "with overwrite = true only %s are emptied: stale bytes of a previous core survive in the others" % sorted(cleared), key="%s|%s|Storage::open|stores emptied" % (prop, rule))
    sw = list(bool_switches(fa, lambda o: strip(o) == ("param", "overwrite")))
    ctx.check(prop, rule, "stores are emptied only when overwrite is requested", bool(sw) and all(fa.dominates(sw[0][2], s) for s in sites(fa, RA_TRUNC)), "all truncates under `if overwrite`", "a truncate is outside the overwrite branch")
    aggs = [fa.origin_rvalue(st["rv"], b.i, si) for b in fa.live() for si, st in enumerate(b.stmts) if st["k"] == "assign" and st["rv"]["k"] == "agg" and st["rv"].get("name") == ST]
    good = False
    if aggs:
        d = {k: term_sig(v) for k, v in aggs[0][3]}
        good = all(("Store::%s{}" % k.capitalize()) in d.get(k, "") for k in ("tree", "data", "bitfield", "oplog"))
    ctx.check(prop, rule, "each Storage field holds the backend created for its own store", good, "tree <- create(Store::Tree), data <- create(Store::Data), ..", "Storage fields are wired to %s" % (d if aggs else None),
              key="%s|%s|Storage::open|field wiring" % (prop, rule))


RULES.append(r6)



def flat_join(t):
    """alternatives of a (nested) join term"""
    if isinstance(t, tuple) and t and t[0] == "join":
        out = []
        for x in t[1]:
            out.extend(flat_join(x))
        return out
    return [t]


def subterms_shallow(t):
    """the wrappers around the root call of a term (ok / await / field ..), not its arguments"""
    out = []
    while isinstance(t, tuple) and t and t[0] not in ("call", "join", "param", "lit", "const", "agg"):
        out.append(t)
        nxt = [x for x in t[1:] if isinstance(x, tuple)]
        if not nxt:
            break
        t = nxt[0]
    return out


def read_until_complete(ctx, prop, rule):
    """A tree operation is computed in passes: a pass that does not find a node in memory returns
    read instructions (Left) and the caller reads them and asks again.  Whether a node is in memory
    depends on the node cache — and a node the first pass found there can be gone in the next (a
    cache of a few nodes, a time to live, or the default cache on a core with more nodes than it
    holds).  A caller that allows a fixed number of passes and answers a further Left with an error
    therefore fails exactly where the same history without the cache succeeds (defect D23).
    Clause: at every call of a pass function from a function that performs the reads, the Left
    outcome leads back to a call of the same function; on the way the only way out is the
    propagation of an error some other call returned — no error or answer is made up there."""
    G = cg(ctx)
    node_users = set()
    rev = {}
    for a, bs in G.edges.items():
        for b in bs:
            rev.setdefault(b, set()).add(a)
    st = [MT_NODE]
    while st:
        x = st.pop()
        if x in node_users:
            continue
        node_users.add(x)
        st.extend(rev.get(x, ()))
    def instr_ret(fx):
        rt = fx.body.locals[0]["ty"]
        return "StoreInfoInstruction" in rt and "Either" in rt
    passfns = sorted(fx.body.name for fx in ctx.all_fas() if fx.body.name.startswith(MT + "::") and "::tests::" not in fx.body.name and instr_ret(fx) and fx.body.name in node_users)
    if ctx.crate.name == "hypercore":
        if not need(ctx, prop, rule, "tree functions that work in passes and look nodes up in memory", passfns):
            return
    n = 0
    driven = set()
    for fa in ctx.all_fas():
        nm = fa.body.name
        if "::tests::" in nm or nm.startswith("tree::merkle_tree::") or instr_ret(fa):
            continue
        by_fn = {}
        for s_, t_ in fa.calls():
            c = callee_of(t_)
            if c in passfns:
                by_fn.setdefault(c, []).append(s_)
        for c, ss in sorted(by_fn.items()):
            short = "%s -> %s" % (fn_of(nm).split("::")[-1], c.split("::")[-1])
            driven.add(c)
            for s_ in ss:
                n += 1
                left = None
                for b in fa.live():
                    t = b.term
                    if t["k"] != "switch":
                        continue
                    o = fa.origin_operand(t["discr"], b.i, len(b.stmts))
                    if o[0] != "disc":
                        continue
                    # the value matched on: ok(<this call>), or a join of the results of several passes
                    # (`let mut pass = f(None)?; loop { match pass { .. pass = f(Some(..))?; } }`)
                    alts = [strip(a) for a in flat_join(o[1])]
                    if any(isinstance(a, tuple) and a[0] == "call" and a[1] == s_ and a[2] == c for a in alts) and not any(isinstance(x, tuple) and x[0] in ("branch", "poll") for a in flat_join(o[1]) for x in subterms_shallow(a)):
                        m = {v: x for v, x in t["targets"]}
                        left = m.get(0, t["otherwise"])
                which = "%s (call %d of %d)" % (short, ss.index(s_) + 1, len(ss))
                if left is None:
                    ctx.missing(prop, rule, "%s: the match on the pass result" % which, "no switch on the Either returned by the call at %s" % loc(fa, s_))
                    continue
                reg = region(fa, left, avoiding=set(ss))
                back = any(x in fa.reach(left, include_src=True) for x in ss)
                made_up = []
                for bb, _, t_ in ret_assigns(fa):
                    if bb not in reg:
                        continue
                    tt = strip(t_)
                    if isinstance(tt, tuple) and tt[0] == "call" and tt[2].endswith("from_residual"):
                        continue
                    if is_agg(tt, "Err", "std::result::Result"):
                        # what `?` builds: Err(err(<a call's result>)), possibly converted
                        def propagated(e):
                            e = strip(e)
                            while isinstance(e, tuple) and e[0] == "call" and e[2].split("::")[-1] in ("from", "into") and e[3]:
                                e = strip(e[3][0])
                            if isinstance(e, tuple) and e[0] == "join":
                                return all(propagated(x) for x in e[1])
                            return isinstance(e, tuple) and e[0] == "err"
                        if propagated(agg_field(tt, "0")):
                            continue
                    made_up.append("%s at %s" % (term_str(t_)[:70], loc(fa, bb)))
                ctx.check(prop, rule, "%s: a pass that still misses nodes is followed by another read and another pass" % which, back and not made_up,
                          "Left(instructions) leads back to the call; nothing but `?` leaves the loop",
                          "%s: after the pass at %s returned read instructions the caller %s — a node that the node cache held in one pass and evicted before the next makes this call fail (or answer) where a core without the cache succeeds" % (
                              which, loc(fa, s_), ("returns %s instead of reading and asking again" % made_up) if made_up else "never calls the function again"),
                          [site_desc(fa, s_)], key="%s|%s|%s|passes bounded|%d" % (prop, rule, short, ss.index(s_)))
    if len(driven) < 7 and ctx.crate.name == "hypercore":
        ctx.missing(prop, rule, "tree pass functions called from the functions that perform the reads", "found %d: %s (floor 7: byte_range, byte_offset, byte_offset_in_changeset, truncate, create_valueless_proof, verify_proof, missing_nodes)" % (len(driven), sorted(x.split("::")[-1] for x in driven)))


def r8(ctx):
    read_until_complete(ctx, P, "C14.R8")


RULES.append(r8)
