"""C15 — SharedCore: one lock, one whole Hypercore call, through the guard."""
from ..engine import *
from ..analysis import term_str, strip, roots, subterms, contains, callee_of, POLL
from ..facts import op_place
from .names import *

P = "C15"
LOCK = "async_lock::Mutex::<T>::lock"
LOCK_FAMILY_PREFIX = "async_lock::Mutex::<T>::"
TRAITS = ("replication::CoreInfo", "replication::ReplicationMethods", "replication::CoreMethods")
SHARED = "replication::shared_core::SharedCore"


def shared_methods(ctx):
    out = []
    for b in ctx.crate.all_bodies():
        if b.kind == "AssocFn" and b.j.get("impl_self") == SHARED and b.j.get("impl_trait") in TRAITS:
            out.append(b)
    return out


def poll_ready_target(fa, s):
    """for an async call site s: (poll site, Ready-edge target)"""
    for p, t in fa.calls():
        if t.get("callee") in POLL and s in call_root_bb(fa.arg_origin(p, 0)):
            sw = fa.blocks[t["target"]].term
            if sw["k"] == "switch":
                m = {v: x for v, x in sw["targets"]}
                if 0 in m:
                    return p, m[0]
    return None, None


def holder_local(fa, operand, bb, prefix="async_lock::MutexGuard"):
    p = op_place(operand)
    seen = set()
    pos = len(fa.blocks[bb].stmts)
    while p is not None and p["l"] not in seen:
        l = p["l"]
        seen.add(l)
        if fa.body.local_ty(l).startswith(prefix):
            return l
        ds = fa.reaching_defs(l, bb, pos) if l not in () else []
        ds = [d for d in fa.body.defs.get(l, []) if not d[3]["p"]]
        if len(ds) != 1:
            return None
        d = ds[0]
        if d[0] == "assign":
            rv = d[4]
            if rv["k"] in ("ref", "copyderef", "rawptr"):
                p = rv["place"]
            elif rv["k"] in ("use", "cast"):
                p = op_place(rv["op"])
            else:
                return None
        elif d[0] == "call":
            p = op_place(d[4]["args"][0]) if d[4]["args"] else None
        else:
            return None
    return None


def body_rule(ctx, prop, rule1, rule2, b):
    name = b.name
    inner = [x for x in ctx.crate.group(name) if x.name != name]
    fas = [ctx.fa(x) for x in inner] or [ctx.fa(b)]
    short = "%s::%s" % (b.j.get("impl_trait", "").split("::")[-1], name.split("::")[-1])
    locks, fam, hcalls = [], [], []
    for fa in fas:
        for s, t in fa.calls():
            c = t.get("callee") or ""
            if c == LOCK:
                locks.append((fa, s))
            elif c.startswith(LOCK_FAMILY_PREFIX) and c.split("::")[-1] in ("try_lock", "lock_arc", "try_lock_arc", "lock_blocking", "get_mut", "into_inner"):
                fam.append((fa, s))
            if callee_of(t).startswith("core::Hypercore::") and "{closure" not in callee_of(t):
                hcalls.append((fa, s))
    # calls to other SharedCore operations acquire the mutex again
    nested = []
    mnames = set(m.name for m in shared_methods(ctx))
    for fa in fas:
        for s, t in fa.calls():
            c = callee_of(t)
            if (c in mnames or t.get("resolved") in mnames) and c != name:
                nested.append((fa, s))
            elif (t.get("callee") or "").startswith(("replication::CoreInfo::", "replication::CoreMethods::", "replication::ReplicationMethods::")):
                nested.append((fa, s))
    ctx.check(prop, rule1, "%s: no nested SharedCore operation" % short, not nested, "the body calls no other SharedCore method",
              "%s calls another SharedCore operation (%s), i.e. acquires the mutex a second time: its result is computed outside the critical section of the Hypercore call" % (
                  name, [callee_of(f.blocks[s].term).split("::")[-1] for f, s in nested]), [site_desc(f, s) for f, s in nested], key="%s|%s|%s|nested operation" % (prop, rule1, name))
    ok1 = len(locks) == 1 and not fam and len(hcalls) >= 1 and all(h[0] is locks[0][0] for h in hcalls)
    ctx.check(prop, rule1, "%s: exactly one lock acquisition site" % short, ok1, "lock x1, Hypercore call(s): %s" % [callee_of(f.blocks[s].term).split("::")[-1] for f, s in hcalls],
              "%s has %d lock() site(s), %d other acquisition(s), %d Hypercore call(s): the operation is not one critical section" % (name, len(locks), len(fam), len(hcalls)),
              [site_desc(fa, s) for fa, s in locks + fam + hcalls], key="%s|%s|%s|lock/call count" % (prop, rule1, name))
    if not ok1:
        return
    fa, ls = locks[0]
    in_loop = [h for h, body, _ in fa.loops() if ls in body]
    ctx.check(prop, rule1, "%s: the lock is acquired once per call (not in a loop)" % short, not in_loop, "lock site is not inside a loop",
              "lock() at %s is inside a loop: the operation is split into several critical sections" % loc(fa, ls), [site_desc(fa, ls)], key="%s|%s|%s|lock in loop" % (prop, rule1, name))
    p, ready = poll_ready_target(fa, ls)
    m = fa.arg_origin(ls, 0)
    ctx.check(prop, rule1, "%s: the mutex is the shared core's own" % short, path_of(strip(m)) == "self.0", "self.0.lock()", "lock receiver is %s" % term_str(m)[:60])
    for _, hs in hcalls:
        hn = callee_of(fa.blocks[hs].term).split("::")[-1]
        ctx.check(prop, rule1, "%s: lock().await completes before %s" % (short, hn), ready is not None and fa.dominates(ready, hs), "lock().await completes before the Hypercore call",
                  "the Hypercore call at %s is not dominated by the completion of lock().await" % loc(fa, hs), [site_desc(fa, ls), site_desc(fa, hs)])
        # R2: receiver goes through the guard
        recv = fa.arg_origin(hs, 0)
        ctx.check(prop, rule2, "%s: %s goes through the guard of that lock" % (short, hn), call_root_bb(recv) == [ls] and strip(recv)[0] == "call",
                  "receiver = *guard of the lock acquired above", "the Hypercore receiver is %s, not the guard obtained from lock()" % term_str(recv)[:100], [site_desc(fa, hs)])
        holder = holder_local(fa, fa.blocks[hs].term["args"][0], hs)
        if holder is None:
            ctx.fail(prop, rule2, "%s: guard holder" % short, "cannot identify the local holding the MutexGuard for the call at %s" % loc(fa, hs), [site_desc(fa, hs)])
            continue
        t = fa.blocks[hs].term
        if any(mk in t["dest_ty"] for mk in ("impl futures::Future", "impl std::future::Future", "{async")):
            _, done = poll_ready_target(fa, hs)
            ctx.check(prop, rule2, "%s: the future of %s is awaited under the lock" % (short, hn), done is not None, "awaited in the same body", "the future returned by the Hypercore call is not awaited under the lock", [site_desc(fa, hs)])
            if done is None:
                continue
        else:
            done = t["target"]
        drops = [x.i for x in fa.live() if x.term["k"] == "drop" and x.term["place"]["l"] == holder and not x.term["place"]["p"]]
        explicit = [s for s, tt in fa.calls() if tt.get("callee") in ("std::mem::drop", "core::mem::drop") and op_place(tt["args"][0]) and op_place(tt["args"][0])["l"] == holder]
        moved = [bb for bb, pos, kind, d in uses_of(fa, holder)
                 if (kind == "stmt" and d["rv"]["k"] == "use" and "m" in d["rv"]["op"]) or (kind == "call-arg" and "m" in d[0]["args"][d[1]])]
        during = fa.reach(hs, avoiding=[done], include_src=True)
        early = [x for x in drops + explicit + moved if x in during or fa.can_reach(x, hs)]
        ctx.check(prop, rule2, "%s: the guard is held until %s has completed" % (short, hn), bool(drops) and not early,
                  "guard (_%d) dropped only after completion" % holder, "the MutexGuard can be released at %s before the Hypercore call at %s has completed" % ([loc(fa, x) for x in early], loc(fa, hs)),
                  [site_desc(fa, hs)])


def r1(ctx, prop=P):
    ms = shared_methods(ctx)
    if ctx.crate.name == "hypercore" and len(ms) < 10:
        ctx.missing(prop, "C15.R1", "impl CoreInfo/ReplicationMethods/CoreMethods for SharedCore", "found %d methods (floor 10)" % len(ms))
        return
    for b in ms:
        body_rule(ctx, prop, "C15.R1", "C15.R2", b)
    # no other user of the mutex inside the crate
    others = []
    for fa in ctx.all_fas():
        if any(fa.body.name.startswith(m.name) for m in ms):
            continue
        for s, t in fa.calls():
            if (t.get("callee") or "").startswith(LOCK_FAMILY_PREFIX) and t["callee"].split("::")[-1] != "new":
                others.append(site_desc(fa, s) + " in " + fa.body.name)
    ctx.check(prop, "C15.R1", "no other code in the crate touches the mutex", not others, "Mutex used only by the trait methods (and constructed by From/from_hypercore)", "other mutex users: %s" % others, others)


def r3(ctx):
    rule = "C15.R3"
    ms = shared_methods(ctx)
    have = {}
    for b in ms:
        have.setdefault(b.j["impl_trait"], set()).add(b.name.split("::")[-1])
    for tr in TRAITS:
        t = ctx.crate.traits.get(tr)
        if not need(ctx, P, rule, "trait " + tr, t):
            continue
        items = set(x for x in t["items"] if x)
        missing = items - have.get(tr, set())
        ctx.check(P, rule, "SharedCore implements every method of %s" % tr.split("::")[-1], not missing, "%d methods, all implemented with bodies analysed" % len(items),
                  "trait methods without an analysed SharedCore impl body: %s" % sorted(missing))


MUTATORS = (APPEND, APPEND_BATCH, CLEAR, VAP, MAKE_RO, GET, CREATE_PROOF, HC + "::missing_nodes", MISSING_NODES_CORE)


def r4(ctx, prop=P, rule="C15.R4"):
    attrs = " ".join(ctx.crate.crate_attrs)
    ctx.check(prop, rule, "crate forbids unsafe code", '"forbid"' in attrs and "unsafe_code" in attrs, "#![forbid(unsafe_code)] present", "#![forbid(unsafe_code)] is missing from the crate attributes")
    S = cg(ctx).callers_reaching_ext(RA_MUT + RA_ALL)
    n = 0
    for b in ctx.crate.all_bodies():
        if b.kind != "AssocFn" or b.j.get("impl_self") != "core::Hypercore" or b.j.get("impl_trait"):
            continue
        fa = ctx.fa(b)
        writes = False
        for x in ctx.crate.group(b.name):
            if assign_sites_prefix(ctx.fa(x), "self"):
                writes = True
        touches = b.name in S or writes
        if not touches:
            continue
        n += 1
        first = (b.j.get("inputs") or [""])[0]
        ctx.check(prop, rule, "%s takes &mut self" % b.name.split("::")[-1], first.startswith("&mut core::Hypercore") or first == "core::Hypercore" or not first.startswith("&"),
                  "exclusive access required by the signature (%s)" % first, "%s reaches storage or assigns self.* but takes `%s`" % (b.name, first))
    if ctx.crate.name == "hypercore" and n < 12:
        ctx.missing(prop, rule, "Hypercore methods that touch state", "found %d (floor 12)" % n)
    # interior mutability: RefCell::borrow_mut only under &mut self
    bad = []
    nb = 0
    for fa in ctx.all_fas():
        for s, t in fa.calls():
            if (t.get("callee") or "").endswith("RefCell::<T>::borrow_mut"):
                nb += 1
                root = ctx.crate.body(fn_of(fa.body.name))
                first = ((root.j.get("inputs") if root else None) or [""])[0]
                if not first.startswith("&mut "):
                    bad.append(site_desc(fa, s) + " in " + fa.body.name)
    ctx.check(prop, rule, "interior mutability is exercised only under &mut self", not bad, "%d RefCell::borrow_mut sites, all in &mut self methods" % nb, "RefCell::borrow_mut in a non-&mut method: %s" % bad, bad,
              key="%s|%s|borrow_mut without &mut self" % (prop, rule))


r1.needs_feature = "shared-core"
r3.needs_feature = "shared-core"
RULES = [r1, r3, r4]
CONFIGS_THOROUGH = ["all"]
CONTROLS = ["c15_double_lock", "c15_lock_in_loop"]
EXPLANATION = ("C15 (a shared core is linearizable): decides, for each of the trait methods of SharedCore (floor 10), that its body has exactly one "
               "self.0.lock().await site, outside any loop, whose completion dominates every Hypercore call of the body, with no try_lock / second acquisition, no call to another SharedCore operation and no other mutex user in the crate (R1); "
               "that the call's receiver is the guard of that very lock and the guard is neither dropped nor moved before the call (and, for async calls, its await) has completed (R2); "
               "that every method of CoreInfo / ReplicationMethods / CoreMethods has such an impl (R3); that every Hypercore method reaching storage or assigning self.* takes &mut self, "
               "RefCell::borrow_mut occurs only under &mut self, and the crate forbids unsafe code (R4). Thorough adds compile-fail witnesses (E0596) that &Hypercore cannot append.")
NOT_DECIDED = "fairness / deadlock freedom inside async-lock; sequential correctness of each Hypercore call (C01); cancellation of a task in the middle of an operation (a dropped future leaves the core wherever the last await was)."
ASSUMPTIONS = ["async_lock::Mutex provides mutual exclusion", "safe Rust aliasing rules (no unsafe in the crate)"]
