"""Shared codec agreement rules (used by C11, C06, C01)."""
from ..engine import *
from ..codec import *
from ..analysis import term_str, strip, term_sig, subterms

V = ("varint", "u64")


def cls_eq(a, b):
    if a[0] == "varint" and b[0] == "varint":
        return True
    return a == b


_W = {"u8": 8, "u16": 16, "u32": 32, "u64": 64, "usize": 64}


def reads_all(dec_cls, enc_cls):
    """does a decoder of class dec_cls read back every value an encoder of class enc_cls can write?
    Variable-length integers share one wire format, but a narrower decoder truncates (or leaves
    bytes behind) for values beyond its width: the decoder must be at least as wide."""
    if dec_cls[0] == "varint" and enc_cls[0] == "varint":
        return _W.get(dec_cls[1], 0) >= _W.get(enc_cls[1], 64)
    return dec_cls == enc_cls


def three_way(ctx, prop, rule, ty, ref, fns=None, const_fields=()):
    """ref: [(field or None, class)] in wire order"""
    fns = fns or codec_fns(ctx)
    d = fns.get(ty)
    if not d or not all(k in d for k in ("size", "encode", "decode")):
        ctx.missing(prop, rule, "%s: CompactEncoding impl" % ty, "encoded_size/encode/decode bodies not all found")
        return None
    enc, dec, siz = seq(ctx, d["encode"]), seq(ctx, d["decode"]), seq(ctx, d["size"])
    unc = [e for e in enc + dec + siz if e.cls[0] == "unclassified" or (e.cls[0] == "fixed" and e.cls[1] is None)]
    ctx.check(prop, rule, "%s: every codec call is classified" % ty, not unc, "all %d codec calls have a known byte shape" % (len(enc) + len(dec) + len(siz)),
              "unclassified codec call(s): %s" % [(e.ty, loc(d["encode"], e.site)) for e in unc])
    # encode vs reference
    got = [(e.field, e.cls) for e in enc]
    okref = len(got) == len(ref) and all(cls_eq(g[1], r[1]) and (r[0] is None or g[0] == r[0]) for g, r in zip(got, ref))
    ctx.check(prop, rule, "%s: encode writes the fields in protocol order" % ty, okref, "encode sequence = %s" % [(f, c[0]) for f, c in got],
              "%s::encode writes %s, reference layout is %s" % (ty, got, ref), [loc(d["encode"], e.site) for e in enc], key="%s|%s|%s|encode order" % (prop, rule, ty))
    # decode vs encode
    okdec = len(dec) == len(enc) and all(reads_all(a.cls, b.cls) for a, b in zip(dec, enc))
    ctx.check(prop, rule, "%s: decode reads what encode writes" % ty, okdec, "decode sequence has the same %d byte shapes in the same order" % len(enc),
              "%s::decode reads %s but encode writes %s" % (ty, [e.cls for e in dec], [e.cls for e in enc]), [loc(d["decode"], e.site) for e in dec], key="%s|%s|%s|decode shapes" % (prop, rule, ty))
    # a step of a decoder may depend on values it decoded (a version byte, a length, a flag) but
    # never on how many bytes happen to remain: a message cut exactly at a field boundary must not
    # decode as a shorter valid message
    lenient = []
    for e in dec + enc + siz:
        for g in e.guards:
            for x in subterms(g[1]):
                if isinstance(x, tuple) and ((x[0] == "call" and len(x) == 4 and x[2].split("::")[-1] in ("is_empty", "len") and x[3] and "buffer" in term_str(x[3][0])) or (x[0] == "len" and "buffer" in term_str(x[1]))):
                    lenient.append((e.field or e.cls, term_str(g[1])[:70]))
    ctx.check(prop, rule, "%s: no codec step depends on the number of bytes remaining" % ty, not lenient, "conditions of the steps test decoded values only",
              "%s: a codec step runs or not depending on the remaining buffer length (%s): a strict prefix that ends at that boundary decodes as a valid, shorter message" % (ty, lenient[:2]),
              key="%s|%s|%s|length-dependent step" % (prop, rule, ty))
    # size vs encode
    szf = set(e.field for e in siz)
    typed = [e for e in enc if e.kind == "encode" and (e.cls[0] != "fixed" or e.field in szf)]
    oksz = len(siz) == len(typed) and all(cls_eq(a.cls, b.cls) and a.field == b.field for a, b in zip(siz, typed))
    ctx.check(prop, rule, "%s: encoded_size sums the fields that encode writes" % ty, oksz, "size terms = %s" % [e.field for e in siz],
              "%s::encoded_size sums %s but encode writes %s" % (ty, [(e.field, e.cls) for e in siz], [(e.field, e.cls) for e in typed]), key="%s|%s|%s|size terms" % (prop, rule, ty))
    fixed_bytes = sum(e.cls[1] for e in enc if e not in typed and e.cls[0] == "fixed" and e.cls[1])
    adds = literal_addends(d["size"])
    lit = 0
    for a in adds:
        if isinstance(a, tuple):
            v = ctx.crate.const_val(a[1])
            lit += v if isinstance(v, int) else 0
        else:
            lit += a
    ctx.check(prop, rule, "%s: constant part of encoded_size equals the fixed bytes written" % ty, lit == fixed_bytes, "%d fixed byte(s) announced and written" % lit,
              "%s::encoded_size adds %d constant byte(s) but encode writes %d fixed byte(s): the announced size differs from the bytes written" % (ty, lit, fixed_bytes), key="%s|%s|%s|fixed bytes" % (prop, rule, ty))
    # decoded values flow to the same fields
    fmap, built = decode_field_map(ctx, d["decode"], dec)
    bad = []
    for i, (f, c) in enumerate(ref):
        if f is None or f in const_fields:
            continue
        if fmap.get(f) != i:
            bad.append((f, i, fmap.get(f)))
    ctx.check(prop, rule, "%s: each decoded value lands in the field it was encoded from" % ty, not bad and bool(fmap), "k-th decoded value -> k-th encoded field for %d fields (%s)" % (len([r for r in ref if r[0]]), built),
              "%s::decode puts values into the wrong fields: (field, expected position, actual) %s" % (ty, bad), key="%s|%s|%s|field mapping" % (prop, rule, ty))
    return enc, dec, siz


def entry_flags(ctx, prop, rule):
    fns = codec_fns(ctx)
    d = fns.get("Entry")
    if not d or not all(k in d for k in ("size", "encode", "decode")):
        ctx.missing(prop, rule, "Entry: CompactEncoding impl", "not found")
        return
    fe, fd, fs = d["encode"], d["decode"], d["size"]
    enc, dec, siz = seq(ctx, fe), seq(ctx, fd), seq(ctx, fs)
    bo = bitor_flags(fe)
    secs_e = []
    for e in enc:
        if e.kind != "encode":
            continue
        ge = e.guards[-1] if e.guards else None
        k = None
        for bb, si, K in bo:
            gb = guards_of(fe, bb)
            gb = gb[-1] if gb else None
            if fe.dominates(bb, e.site) and gb is not None and ge is not None and gb[0] == ge[0] and gb[2] == ge[2]:
                k = K
        secs_e.append((e.field, e.cls, k, ge))
    secs_d = [(e.cls, e.mask) for e in dec if e.kind == "decode"]
    if len(secs_e) < 4 or len(secs_d) < 4:
        ctx.missing(prop, rule, "Entry: four optional sections", "encode has %d, decode %d" % (len(secs_e), len(secs_d)))
        return
    ref = [("user_data", 1), ("tree_nodes", 2), ("tree_upgrade", 4), ("bitfield", 8)]
    ks = [k for _, _, k, _ in secs_e]
    ctx.check(prop, rule, "Entry::encode sets one distinct flag bit per section", all(isinstance(k, int) and k > 0 and k & (k - 1) == 0 for k in ks) and len(set(ks)) == len(ks),
              "flags set: %s" % ks, "Entry::encode flag constants are not distinct single bits: %s" % ks, key="%s|%s|Entry|encode flags" % (prop, rule))
    ctx.check(prop, rule, "Entry::encode flags follow the on-disk table 1/2/4/8", [(f, k) for f, _, k, _ in secs_e] == ref, "user_data=1, tree_nodes=2, tree_upgrade=4, bitfield=8",
              "Entry::encode uses %s, the on-disk table is %s" % ([(f, k) for f, _, k, _ in secs_e], ref), key="%s|%s|Entry|encode flag table" % (prop, rule))
    for i, ((f, cls, k, _), (dcls, dk)) in enumerate(zip(secs_e, secs_d)):
        ctx.check(prop, rule, "Entry: section %s is decoded under the flag it was encoded with" % f, cls_eq(cls, dcls) and k == dk,
                  "section %d (%s): encode sets %s, decode tests %s" % (i, f, k, dk),
                  "Entry::decode reads the `%s` section (%s) under `flags & %s` but Entry::encode marks it with flag %s: an entry carrying this section is decoded without it (or with a section it does not have) when the log is replayed" % (f, dcls[-1], dk, k),
                  [loc(fd, [e for e in dec if e.kind == "decode"][i].site)], key="%s|%s|Entry::decode|section %s mask" % (prop, rule, f))
    # the flag byte that is written is the accumulated flags
    wrote = False
    for b in fe.live():
        for si, st in enumerate(b.stmts):
            if st["k"] == "assign" and st["place"]["p"] and any(isinstance(e, dict) and ("i" in e or "ci" in e) for e in st["place"]["p"]):
                v = fe.origin_rvalue(st["rv"], b.i, si)
                lits = set(x[1] for x in subterms(v) if isinstance(x, tuple) and x[0] == "lit")
                if {1, 2, 4, 8} <= lits:
                    wrote = all(fe.can_reach(bb, b.i) or bb == b.i for bb, _, _ in bo)
    ctx.check(prop, rule, "Entry::encode stores the accumulated flags into the flag byte", wrote, "flag_buf[0] = flags after all sections", "the accumulated flags are not written to the reserved flag byte after the last section")
    # size and encode use the same presence conditions
    for s_, (f, cls, k, ge) in zip(siz, secs_e):
        gs = s_.guards[-1] if s_.guards else None
        def cg(g):
            # canonical (condition, truth): `!x` on the otherwise edge is `x` on the 0 edge
            t_, neg = canon_cond(g[1])
            truth = g[2] != 0
            return term_sig(t_), (not truth) if neg else truth
        same = gs is not None and ge is not None and cg(gs) == cg(ge) and s_.field == f
        ctx.check(prop, rule, "Entry: encoded_size counts section %s under encode's condition" % f, same, "same presence condition (%s)" % (term_str(ge[1])[:50] if ge else None),
                  "Entry::encoded_size counts `%s` under %s, encode writes it under %s" % (f, (term_str(gs[1]), gs[2]) if gs else None, (term_str(ge[1]), ge[2]) if ge else None), key="%s|%s|Entry|size condition %s" % (prop, rule, f))
    ctx.check(prop, rule, "Entry::decode consumes the flag byte first", dec and dec[0].cls == ("fixed", 1) and enc[0].cls == ("fixed", 1), "one flag byte leads the entry", "flag byte position differs between encode and decode")
