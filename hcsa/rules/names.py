"""Resolved def paths of the anchored functions (crate-relative, as printed by
rustc's def_path_str).  A rename makes the dependent rules report
ANCHOR-MISSING (fail closed)."""
HC = "core::Hypercore"
NEW = HC + "::new"
APPEND_BATCH = HC + "::append_batch"
APPEND = HC + "::append"
GET = HC + "::get"
HAS = HC + "::has"
INFO = HC + "::info"
CLEAR = HC + "::clear"
CREATE_PROOF = HC + "::create_proof"
VAP = HC + "::verify_and_apply_proof"
VERIFY_PROOF_CORE = HC + "::verify_proof"
MAKE_RO = HC + "::make_read_only"
FLUSH_ALL = HC + "::flush_bitfield_and_tree_and_oplog"
SHOULD_FLUSH = HC + "::should_flush_bitfield_and_tree_and_oplog"
BYTE_RANGE_CORE = HC + "::byte_range"
CVP_CORE = HC + "::create_valueless_proof"
MISSING_NODES_CORE = HC + "::missing_nodes_from_merkle_tree_index"
UCL = "core::update_contiguous_length"

ST = "storage::Storage"
FLUSH_INFO = ST + "::flush_info"
FLUSH_INFOS = ST + "::flush_infos"
READ_INFO = ST + "::read_info"
READ_INFOS = ST + "::read_infos"
READ_INFOS_VEC = ST + "::read_infos_to_vec"
STORAGE_OPEN = ST + "::open"
MAP_RA_ERR = "storage::map_random_access_err"
RA = "random_access_storage::RandomAccess"
RA_WRITE, RA_DEL, RA_TRUNC, RA_READ, RA_LEN, RA_SYNC = (RA + "::write", RA + "::del", RA + "::truncate", RA + "::read", RA + "::len", RA + "::sync_all")
RA_MUT = (RA_WRITE, RA_DEL, RA_TRUNC)
RA_ALL = (RA_WRITE, RA_DEL, RA_TRUNC, RA_READ, RA_LEN, RA_SYNC)

OPLOG = "oplog::Oplog"
OPLOG_OPEN = OPLOG + "::open"
APPEND_CS = OPLOG + "::append_changeset"
UPDATE_HDR = OPLOG + "::update_header_with_changeset"
OPLOG_CLEAR = OPLOG + "::clear"
OPLOG_FLUSH = OPLOG + "::flush"
APPEND_ENTRIES = OPLOG + "::append_entries"
INSERT_HEADER = OPLOG + "::insert_header"
VALIDATE_LEADER = OPLOG + "::validate_leader"
CUR_HDR_BIT = OPLOG + "::get_current_header_bit"
NEXT_SLOT = OPLOG + "::get_next_header_oplog_slot_and_bit_value"
ENC_LEADER = "oplog::encode_with_leader"
BUILD_LEN = "oplog::build_len_and_info_header"
WRITE_LEADER = "oplog::write_leader_parts"

BF = "bitfield::dynamic::DynamicBitfield"
BF_OPEN, BF_FLUSH, BF_GET, BF_SET, BF_UPDATE, BF_SET_RANGE, BF_INDEX_OF, BF_LAST_INDEX_OF = (
    BF + "::open", BF + "::flush", BF + "::get", BF + "::set", BF + "::update", BF + "::set_range", BF + "::index_of", BF + "::last_index_of")
FB = "bitfield::fixed::FixedBitfield"
FB_FROM_DATA, FB_TO_BYTES = FB + "::from_data", FB + "::to_bytes"

MT = "tree::merkle_tree::MerkleTree"
MT_OPEN, MT_CHANGESET, MT_COMMIT, MT_FLUSH, MT_COMMITABLE, MT_ADD_NODE, MT_TRUNCATE = (
    MT + "::open", MT + "::changeset", MT + "::commit", MT + "::flush", MT + "::commitable", MT + "::add_node", MT + "::truncate")
MT_VERIFY_PROOF = MT + "::verify_proof"
MT_CVP = MT + "::create_valueless_proof"
MT_BYTE_OFFSET_CS = MT + "::byte_offset_in_changeset"
MT_BYTE_OFFSET = MT + "::byte_offset"
MT_BYTE_RANGE = MT + "::byte_range"
MT_REQUIRED_NODE = MT + "::required_node"
MT_NODE = MT + "::node"
MT_INFOS_TO_NODES = MT + "::infos_to_nodes"
MT_FLUSH_NODES = MT + "::flush_nodes"
MT_FLUSH_TRUNC = MT + "::flush_truncation"
MT_MISSING = MT + "::missing_nodes"
VERIFY_TREE = "tree::merkle_tree::verify_tree"
VERIFY_UPGRADE = "tree::merkle_tree::verify_upgrade"
NODES_TO_ROOT = "tree::merkle_tree::nodes_to_root"
NODE_FROM_BYTES = "tree::merkle_tree::node_from_bytes"
INDEX_FROM_INFO = "tree::merkle_tree::index_from_info"
BLOCK_NODE = "tree::merkle_tree::block_node"
PARENT_NODE = "tree::merkle_tree::parent_node"
NQ_SHIFT = "tree::merkle_tree::NodeQueue::shift"
NQ_NEW = "tree::merkle_tree::NodeQueue::new"

CS = "tree::merkle_tree_changeset::MerkleTreeChangeset"
CS_APPEND, CS_APPEND_ROOT, CS_HASH_SIGN, CS_VERIFY_SIG, CS_HASH, CS_SIGNABLE, CS_NEW = (
    CS + "::append", CS + "::append_root", CS + "::hash_and_sign", CS + "::verify_and_set_signature", CS + "::hash", CS + "::signable", CS + "::new")

BS = "data::BlockStore"
BS_APPEND, BS_PUT, BS_READ, BS_CLEAR = BS + "::append_batch", BS + "::put", BS + "::read", BS + "::clear"

SI = "common::store::StoreInfo"
SI_CONTENT, SI_TRUNC, SI_DELETE, SI_MISS, SI_SIZE = SI + "::new_content", SI + "::new_truncate", SI + "::new_delete", SI + "::new_content_miss", SI + "::new_size"
SII = "common::store::StoreInfoInstruction"

HASH = "crypto::hash::Hash"
HASH_DATA, HASH_PARENT, HASH_TREE = HASH + "::data", HASH + "::parent", HASH + "::tree"
SIGNABLE_TREE = "crypto::hash::signable_tree"
U64_BE = "crypto::hash::u64_as_be"
CRYPTO_VERIFY = "crypto::key_pair::verify"
CRYPTO_SIGN = "crypto::key_pair::sign"

EVENTS_SEND = "replication::events::Events::send"
EVENTS_SEND_ON_GET = "replication::events::Events::send_on_get"
INTO_PROOF = "common::peer::ValuelessProof::into_proof"
