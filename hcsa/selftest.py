"""Self-tests (thorough tier): scratch-copy variants of /repo with exactly one
instance broken; the named rule must fire and name that instance.  Validates the
checker, not /repo.  (variants live in /verif/selftest/<name>/)"""
import os, json, subprocess, tempfile, shutil, importlib

ROOT = os.path.dirname(os.path.dirname(os.path.abspath(__file__)))
REPO = os.environ.get("HC_REPO", "/repo")


def variants_for(prop):
    """own one-instance-broken / behaviour-preserving variants (selftest/) and the seeded changes
    produced by independent sub-agents (seeded/), for the given property"""
    out = []
    for base in ("selftest", "seeded"):
        d = os.path.join(ROOT, base)
        if not os.path.isdir(d):
            continue
        for name in sorted(os.listdir(d)):
            meta = os.path.join(d, name, "meta.json")
            if os.path.exists(meta) and os.path.exists(os.path.join(d, name, "patch.diff")):
                m = json.load(open(meta))
                if prop in m.get("properties", []):
                    if base == "seeded" and not m.get("detected", True):
                        continue  # recorded miss: nothing to assert
                    m["name"] = "%s/%s" % (base, name)
                    m["dir"] = os.path.join(d, name)
                    out.append(m)
    return out


def run_variant(m, extract):
    """returns dict(name, status ok|fail|skipped, why)"""
    from .facts import Crate
    from .engine import Ctx
    tmp = tempfile.mkdtemp(prefix="hcsa-selftest-")
    try:
        work = os.path.join(tmp, "repo")
        subprocess.run(["git", "-C", REPO, "worktree", "add", "--detach", "-q", work], check=True, capture_output=True)
        try:
            # bring over uncommitted edits of /repo's working tree as well
            diff = subprocess.run(["git", "-C", REPO, "diff", "HEAD"], capture_output=True, text=True).stdout
            if diff.strip():
                p = subprocess.run(["git", "-C", work, "apply"], input=diff, text=True, capture_output=True)
                if p.returncode != 0:
                    return {"name": m["name"], "status": "skipped", "why": "working-tree diff of /repo does not apply to a fresh worktree"}
            if os.path.exists(os.path.join(REPO, "Cargo.lock")) and not os.path.exists(os.path.join(work, "Cargo.lock")):
                shutil.copy(os.path.join(REPO, "Cargo.lock"), os.path.join(work, "Cargo.lock"))
            p = subprocess.run(["git", "-C", work, "apply", os.path.join(m["dir"], "patch.diff")], capture_output=True, text=True)
            if p.returncode != 0:
                return {"name": m["name"], "status": "skipped", "why": "variant patch no longer applies to the current /repo: %s" % p.stderr.strip()[:200]}
            try:
                path = extract(m.get("config", "all"), repo=work, out=os.path.join(tmp, "facts.json"))
            except Exception as e:
                return {"name": m["name"], "status": "fail", "why": "variant does not type-check / extract: %r" % (e,)}
            crate = Crate(path)
            res = {}
            for prop in m["properties"]:
                mod = importlib.import_module("hcsa.rules." + prop.lower())
                ctx = Ctx(crate, "selftest")
                for r in mod.RULES:
                    feat = getattr(r, "needs_feature", None)
                    if feat and feat not in crate.features:
                        continue
                    r(ctx)
                fails = [i for i in ctx.insts if i.verdict != "pass"]
                res[prop] = fails
            problems = []
            for prop, exp in m["expect"].items():
                fails = res.get(prop, [])
                for needle in exp:
                    if not any(needle in i.key or needle in i.anchor or needle in i.rule for i in fails):
                        problems.append("%s: expected a violation matching %r, got %s" % (prop, needle, [i.key for i in fails][:4]))
            for prop in m["properties"]:
                if prop not in m["expect"] and res.get(prop):
                    problems.append("%s: unexpected violations %s" % (prop, [i.key for i in res[prop]][:4]))
            if problems:
                return {"name": m["name"], "status": "fail", "why": "; ".join(problems)}
            return {"name": m["name"], "status": "ok", "why": "fired: %s" % {p: sorted(set(i.rule for i in f)) for p, f in res.items() if f}}
        finally:
            subprocess.run(["git", "-C", REPO, "worktree", "remove", "--force", work], capture_output=True)
            subprocess.run(["git", "-C", REPO, "worktree", "prune"], capture_output=True)
    finally:
        shutil.rmtree(tmp, ignore_errors=True)


def run(prop, extract):
    out = []
    for m in variants_for(prop):
        try:
            out.append(run_variant(m, extract))
        except Exception as e:
            out.append({"name": m["name"], "status": "fail", "why": "selftest crashed: %r" % (e,)})
    return out
