"""Self-tests (thorough tier): scratch-copy variants of /repo — one-instance-broken variants on
which the named rule must fire and name that instance, behaviour-preserving refactorings on
which every rule must stay silent, and the seeded changes produced by independent sub-agents.
Validates the checker, not /repo.  (variants live in /verif/selftest/<name>/ and /verif/seeded/<id>/)

Fact files of variants are cached under .cache/variants, keyed by /repo's HEAD, its uncommitted
diff, the variant patch and the feature configuration, so the thorough runs of the 15
properties compile each variant once; several variants are compiled in parallel, each worker with
its own cargo target directory."""
import os, json, subprocess, tempfile, shutil, importlib, hashlib, time
from concurrent.futures import ThreadPoolExecutor
import threading

ROOT = os.path.dirname(os.path.dirname(os.path.abspath(__file__)))
REPO = os.environ.get("HC_REPO", "/repo")
VCACHE = os.path.join(ROOT, ".cache", "variants")
WORKERS = 4
_wt_lock = threading.Lock()


class _wt_flock:
    """cross-process lock around `git worktree add / remove / prune`: a prune of one process
    removes the half-created administrative directory of another process's add"""
    def __enter__(self):
        import fcntl
        os.makedirs(os.path.join(ROOT, ".cache"), exist_ok=True)
        self.f = open(os.path.join(ROOT, ".cache", "worktree.lock"), "w")
        fcntl.flock(self.f, fcntl.LOCK_EX)
        return self

    def __exit__(self, *a):
        import fcntl
        fcntl.flock(self.f, fcntl.LOCK_UN)
        self.f.close()
        return False


def variants_for(prop):
    out = []
    for base in ("selftest", "seeded"):
        d = os.path.join(ROOT, base)
        if not os.path.isdir(d):
            continue
        for name in sorted(os.listdir(d)):
            meta = os.path.join(d, name, "meta.json")
            if os.path.exists(meta) and os.path.exists(os.path.join(d, name, "patch.diff")):
                m = json.load(open(meta))
                if prop in m.get("properties", []):
                    if base == "seeded" and not m.get("detected", True):
                        continue  # recorded miss: nothing to assert
                    m["name"] = "%s/%s" % (base, name)
                    m["dir"] = os.path.join(d, name)
                    out.append(m)
    return out


def _state_key():
    head = subprocess.run(["git", "-C", REPO, "rev-parse", "HEAD"], capture_output=True, text=True).stdout.strip()
    diff = subprocess.run(["git", "-C", REPO, "diff", "HEAD"], capture_output=True, text=True).stdout
    return head, diff


def _driver_id():
    """identity of the fact extractor (source of the driver and of the normaliser-independent
    fact format): facts extracted by another version of it are not reused"""
    h = hashlib.sha256()
    for f in ("hcfacts/src/main.rs", "hcfacts/Cargo.toml"):
        try:
            h.update(open(os.path.join(ROOT, f), "rb").read())
        except OSError:
            pass
    return h.hexdigest()[:16]


def _worker_target(k):
    """a private cargo target directory for worker k, seeded from the warmed main one"""
    main_t = os.path.join(ROOT, ".cache", "target")
    t = os.path.join(ROOT, ".cache", "target-st%d" % k)
    if not os.path.isdir(t) and os.path.isdir(main_t):
        subprocess.run(["cp", "-a", main_t, t], capture_output=True)
    return t


def variant_facts(m, extract, worker=0, state=None):
    """(path of the fact file of the variant, '') or (None, (status, why))"""
    head, diff = state or _state_key()
    patch = open(os.path.join(m["dir"], "patch.diff"), "rb").read()
    cfg = m.get("config", "all")
    key = hashlib.sha256(b"\0".join([head.encode(), diff.encode(), patch, cfg.encode(), _driver_id().encode()])).hexdigest()[:24]
    os.makedirs(VCACHE, exist_ok=True)
    out = os.path.join(VCACHE, key + ".json")
    if os.path.exists(out) and os.path.getsize(out) > 0:
        return out, ""
    tmp = tempfile.mkdtemp(prefix="hcsa-selftest-")
    work = os.path.join(tmp, "repo")
    try:
        with _wt_lock, _wt_flock():
            for attempt in range(4):
                p = subprocess.run(["git", "-C", REPO, "worktree", "add", "--detach", "-q", work], capture_output=True, text=True)
                if p.returncode == 0:
                    break
                time.sleep(0.5 * (attempt + 1))
            else:
                return None, ("skipped", "could not create a scratch worktree of /repo: %s" % p.stderr.strip()[:200])
        # bring over uncommitted edits of /repo's working tree as well
        if diff.strip():
            p = subprocess.run(["git", "-C", work, "apply"], input=diff, text=True, capture_output=True)
            if p.returncode != 0:
                return None, ("skipped", "working-tree diff of /repo does not apply to a fresh worktree")
        if os.path.exists(os.path.join(REPO, "Cargo.lock")) and not os.path.exists(os.path.join(work, "Cargo.lock")):
            shutil.copy(os.path.join(REPO, "Cargo.lock"), os.path.join(work, "Cargo.lock"))
        p = subprocess.run(["git", "-C", work, "apply", os.path.join(m["dir"], "patch.diff")], capture_output=True, text=True)
        if p.returncode != 0:
            return None, ("skipped", "variant patch no longer applies to the current /repo: %s" % p.stderr.strip()[:200])
        try:
            part = out + ".part%d" % os.getpid()
            extract(cfg, repo=work, out=part, target=_worker_target(worker))
            os.replace(part, out)
        except Exception as e:
            return None, ("fail", "variant does not type-check / extract: %r" % (e,))
        return out, ""
    finally:
        with _wt_lock, _wt_flock():
            subprocess.run(["git", "-C", REPO, "worktree", "remove", "--force", work], capture_output=True)
            subprocess.run(["git", "-C", REPO, "worktree", "prune"], capture_output=True)
        shutil.rmtree(tmp, ignore_errors=True)


def judge(m, prop, path):
    from .facts import Crate
    from .engine import Ctx
    crate = Crate(path)
    mod = importlib.import_module("hcsa.rules." + prop.lower())
    ctx = Ctx(crate, "selftest")
    for r in mod.RULES:
        feat = getattr(r, "needs_feature", None)
        if feat and feat not in crate.features:
            continue
        try:
            r(ctx)
        except Exception as e:
            ctx.fail(prop, getattr(r, "__name__", "rule"), "rule evaluation", "internal error: %r" % (e,))
    fails = [i for i in ctx.insts if i.verdict != "pass"]
    problems = []
    exp = m.get("expect", {}).get(prop)
    if exp:
        for needle in exp:
            if not any(needle in i.key or needle in i.anchor or needle in i.rule for i in fails):
                problems.append("%s: expected a violation matching %r, got %s" % (prop, needle, [i.key for i in fails][:4]))
    elif fails and not m.get("tolerated", {}).get(prop):
        problems.append("%s: unexpected violations %s" % (prop, [i.key for i in fails][:4]))
    if problems:
        return {"name": m["name"], "status": "fail", "why": "; ".join(problems)}
    return {"name": m["name"], "status": "ok", "why": ("fired: %s" % sorted(set(i.rule for i in fails))) if fails else "silent, as expected"}


def run(prop, extract):
    vs = variants_for(prop)
    state = _state_key()
    results = [None] * len(vs)
    slots = list(range(WORKERS))
    slot_lock = threading.Lock()

    def job(k):
        m = vs[k]
        with slot_lock:
            w = slots.pop() if slots else 0
        try:
            path, err = variant_facts(m, extract, worker=w, state=state)
        except Exception as e:
            path, err = None, ("fail", "selftest crashed: %r" % (e,))
        finally:
            with slot_lock:
                slots.append(w)
        return k, path, err

    with ThreadPoolExecutor(WORKERS) as ex:
        done = list(ex.map(job, range(len(vs))))
    # rule evaluation: one process per variant (the analysis keeps per-process caches), 12 at a time
    from concurrent.futures import ProcessPoolExecutor
    jobs = []
    for k, path, err in done:
        m = vs[k]
        if path is None:
            results[k] = {"name": m["name"], "status": err[0], "why": err[1]}
        else:
            jobs.append((k, m, prop, path))
    with ProcessPoolExecutor(12) as ex:
        for k, res in ex.map(_judge_job, jobs):
            results[k] = res
    return results


def _judge_job(a):
    k, m, prop, path = a
    try:
        return k, judge(m, prop, path)
    except Exception as e:
        return k, {"name": m["name"], "status": "fail", "why": "selftest crashed: %r" % (e,)}
