"""Compile-fail witnesses (thorough tier): rustdoc doctests of /verif/witness against
/repo's current source; every `compile_fail,E0xxx` must fail with that code and every
twin must compile."""
import os, re, subprocess

ROOT = os.path.dirname(os.path.dirname(os.path.abspath(__file__)))

# witness item -> properties it serves
SERVES = {
    "AppendNeedsMut": ["C15"], "MutatorsNeedMut": ["C15"], "NoAliasing": ["C15"],
    "KeyPairReadOnly": ["C12"], "HeaderIsPrivate": ["C12"], "FieldsArePrivate": ["C12", "C15"], "EventsSenderIsPrivate": ["C13"],
}
_cache = {}


def run_all():
    if "res" in _cache:
        return _cache["res"]
    env = dict(os.environ, CARGO_NET_OFFLINE="true", CARGO_TARGET_DIR=os.path.join(ROOT, ".cache", "target-witness"))
    env.pop("RUSTC_WORKSPACE_WRAPPER", None)
    # Cargo.lock must match /repo's
    try:
        import shutil
        shutil.copy(os.path.join(os.environ.get("HC_REPO", "/repo"), "Cargo.lock"), os.path.join(ROOT, "witness", "Cargo.lock"))
    except Exception:
        pass
    p = subprocess.run(["cargo", "+nightly", "test", "--doc", "--offline"], cwd=os.path.join(ROOT, "witness"), env=env, capture_output=True, text=True)
    out = p.stdout + p.stderr
    res = []
    for m in re.finditer(r"^test src/lib\.rs - (\w+) \(line (\d+)\)( - compile fail)? \.\.\. (\w+)", out, re.M):
        res.append({"item": m.group(1), "line": int(m.group(2)), "compile_fail": bool(m.group(3)), "result": m.group(4)})
    if not res:
        res.append({"item": "witness crate", "line": 0, "compile_fail": False, "result": "could not run: " + out[-600:]})
    _cache["res"] = res
    return res


def run(prop):
    """[{name, status ok|fail, why}] for the witnesses serving `prop`"""
    out = []
    rs = run_all()
    for r in rs:
        if r["item"] not in SERVES:
            if r["result"] != "ok":
                out.append({"name": "witness:%s" % r["item"], "status": "fail", "why": r["result"]})
            continue
        if prop not in SERVES[r["item"]]:
            continue
        kind = "compile_fail" if r["compile_fail"] else "twin compiles"
        out.append({"name": "witness:%s@%d (%s)" % (r["item"], r["line"], kind), "status": "ok" if r["result"] == "ok" else "fail",
                    "why": "rustdoc: %s" % r["result"] if r["result"] == "ok" else "witness %s line %d: expected %s, rustdoc reports %s" % (r["item"], r["line"], kind, r["result"])})
    return out
