#!/bin/bash
# Build the driver and warm the dependency cache (offline).
set -e
cd "$(dirname "$0")"
export CARGO_NET_OFFLINE=true
(cd hcfacts && cargo build --release --offline 2>&1 | tail -2)
/usr/bin/python3 - <<'PY'
import sys
sys.path.insert(0, '.')
from hcsa import main
import os
for cfg in ("all", "default", "asyncstd"):
    p = main.extract(cfg)
    print("warmed", cfg, os.path.getsize(p), "bytes of facts")
    os.unlink(p)
PY
