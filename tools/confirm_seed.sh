#!/bin/bash
# usage: [OUTNAME=<dir name under /verif/seeded>] confirm_seed.sh <PROPERTY-ID> [extra cargo test args, e.g. --features shared-core]
# Re-confirms a seeded change in its scratch worktree /tmp/seed_<ID>:
#   demo fails with the change, passes without it, existing suite passes with it.
# Stores patch, demo and the confirmation log under /verif/seeded/<ID>/.
ID=$1; shift
EXTRA="$@"
W=${WORKTREE:-/tmp/seed_$ID}
OUT=/verif/seeded/${OUTNAME:-$ID}
mkdir -p $OUT
export CARGO_NET_OFFLINE=true
cd $W || exit 2
git diff -- src > $OUT/patch.diff
[ -s $OUT/patch.diff ] || { echo "no source change in $W" > $OUT/confirm.log; exit 2; }
cp tests/seed_demo.rs $OUT/seed_demo.rs
{
echo "== worktree $W @ $(git rev-parse --short HEAD); patch sha1 $(sha1sum < $OUT/patch.diff | cut -c1-12); extra cargo args: [$EXTRA]"
echo "== [1] demo WITH the change (expected: fails)"
timeout 900 cargo test --offline $EXTRA --test seed_demo 2>&1 | grep -E "^test |test result|panicked at" | head -20
echo "demo_with_exit=${PIPESTATUS[0]}"
echo "== [2] existing suite WITH the change (expected: passes; seed_demo excluded)"
mv tests/seed_demo.rs /tmp/seed_demo_$ID.rs
timeout 1800 cargo test --workspace --no-fail-fast --offline $EXTRA 2>&1 | grep -E "^test result|FAILED|failed|error(\[|:)" | head -20
echo "suite_with_exit=${PIPESTATUS[0]}"
mv /tmp/seed_demo_$ID.rs tests/seed_demo.rs
echo "== [3] demo WITHOUT the change (expected: passes)"
# (no `git stash`: the stash is shared by all worktrees of a repository)
git checkout -- src
timeout 900 cargo test --offline $EXTRA --test seed_demo 2>&1 | grep -E "^test |test result|panicked at" | head -20
echo "demo_without_exit=${PIPESTATUS[0]}"
git apply $OUT/patch.diff
git diff -- src | cmp -s - $OUT/patch.diff && echo "== change restored in worktree" || echo "!! worktree differs from stored patch"
} > $OUT/confirm.log 2>&1
grep -E "_exit=|restored|!!" $OUT/confirm.log
