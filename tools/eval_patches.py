#!/usr/bin/env python3
"""Evaluates arbitrary patches (behaviour-preserving refactorings, candidate seeds)
against all 15 rule sets; prints the rules that fire.  Fact files are cached under
.work/refs/facts so that rule changes can be re-evaluated without recompiling.
usage: eval_patches.py [-v] [-j N] [--refresh] [--only C01,C02] patch ..."""
import os, sys, json, subprocess, tempfile, shutil, importlib
from concurrent.futures import ProcessPoolExecutor
ROOT = os.path.dirname(os.path.dirname(os.path.abspath(__file__)))
sys.path.insert(0, ROOT)
FACTS = os.path.join(ROOT, ".work", "refs", "facts")
REPO = "/repo"
ONLY = None


def facts_for(patch, refresh=False):
    from hcsa import main as M
    os.makedirs(FACTS, exist_ok=True)
    import hashlib
    base = os.path.basename(patch).replace(".patch", "").replace(".diff", "")
    if base == "patch":   # <dir>/patch.diff: name the cache entry after the directory
        base = os.path.basename(os.path.dirname(os.path.abspath(patch))) + "-" + hashlib.sha1(os.path.abspath(patch).encode()).hexdigest()[:6]
    out = os.path.join(FACTS, base + ".json")
    head = subprocess.run(["git", "-C", REPO, "rev-parse", "HEAD"], capture_output=True, text=True).stdout.strip()
    stamp = out + ".stamp"
    from hcsa.selftest import _driver_id
    want = head + " " + str(os.path.getmtime(patch)) + " " + _driver_id()
    if not refresh and os.path.exists(out) and os.path.exists(stamp) and open(stamp).read() == want:
        return out, ""
    tmp = tempfile.mkdtemp(prefix="hcsa-ev-")
    work = os.path.join(tmp, "repo")
    from hcsa.selftest import _wt_flock
    with _wt_flock():
        subprocess.run(["git", "-C", REPO, "worktree", "add", "--detach", "-q", work, "HEAD"], check=True)
    try:
        if os.path.exists(os.path.join(REPO, "Cargo.lock")) and not os.path.exists(os.path.join(work, "Cargo.lock")):
            shutil.copy(os.path.join(REPO, "Cargo.lock"), os.path.join(work, "Cargo.lock"))
        p = subprocess.run(["git", "-C", work, "apply", patch], capture_output=True, text=True)
        if p.returncode != 0:
            return None, "patch does not apply: " + p.stderr[:200]
        try:
            M.extract("all", repo=work, out=out)
        except Exception as e:
            return None, "does not compile: %r" % e
        open(stamp, "w").write(want)
        return out, ""
    finally:
        with _wt_flock():
            subprocess.run(["git", "-C", REPO, "worktree", "remove", "--force", work], capture_output=True)
            subprocess.run(["git", "-C", REPO, "worktree", "prune"], capture_output=True)
        shutil.rmtree(tmp, ignore_errors=True)


def run_rules(path, only=None):
    from hcsa import main as M
    from hcsa.facts import Crate
    from hcsa.engine import Ctx
    crate = Crate(path)
    out = {}
    for prop in M.PROPS:
        if only and prop not in only:
            continue
        mod = importlib.import_module("hcsa.rules." + prop.lower())
        ctx = Ctx(crate, "selftest")
        for r in mod.RULES:
            feat = getattr(r, "needs_feature", None)
            if feat and feat not in crate.features:
                continue
            try:
                r(ctx)
            except Exception as e:
                import traceback
                ctx.fail(prop, r.__name__, "rule crashed", repr(e) + traceback.format_exc()[-600:])
        fails = [i for i in ctx.insts if i.verdict != "pass"]
        if fails:
            out[prop] = [(i.rule, i.anchor, i.key, i.why[:400]) for i in fails]
    return out


def one(a):
    patch, refresh, only = a
    path, err = facts_for(patch, refresh)
    if path is None:
        return patch, None, err
    return patch, run_rules(path, only), ""


def main():
    args = [a if a.startswith("-") or a.isdigit() or "," in a or not os.path.exists(a) else os.path.abspath(a) for a in sys.argv[1:]]
    v = "-v" in args
    if v:
        args.remove("-v")
    refresh = "--refresh" in args
    if refresh:
        args.remove("--refresh")
    j = 6
    if "-j" in args:
        k = args.index("-j")
        j = int(args[k + 1])
        del args[k:k + 2]
    only = None
    if "--only" in args:
        k = args.index("--only")
        only = args[k + 1].split(",")
        del args[k:k + 2]
    bad = 0
    with ProcessPoolExecutor(j) as ex:
        for patch, out, err in ex.map(one, [(a, refresh, only) for a in args]):
            nm = os.path.basename(patch)
            if out is None:
                print("%-22s ERROR %s" % (nm, err))
                bad += 1
                continue
            fired = {p: sorted(set(x[0] for x in f)) for p, f in out.items()}
            print("%-22s %s" % (nm, "silent" if not fired else json.dumps(fired)))
            if fired:
                bad += 1
            if v:
                for p, f in out.items():
                    for r, a, k, w in f[:8]:
                        print("      %s %s :: %s" % (r, a[:70], w))
    print("patches with alarms: %d / %d" % (bad, len(args)))
    return 1 if bad else 0


if __name__ == "__main__":
    sys.exit(main())
