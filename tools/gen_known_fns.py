#!/usr/bin/env python3
"""Regenerates rules/known_fns.json: the functions of the reviewed tree (all three feature
configurations).  Run by hand after reviewing a new upstream tree; the checks only read it.
A crate-local function that is NOT in this list is a helper introduced after the review: the
normaliser splices it into its callers (hcsa/normalize.py)."""
import os, sys, json
ROOT = os.path.dirname(os.path.dirname(os.path.abspath(__file__)))
sys.path.insert(0, ROOT)
from hcsa import main as M
names = set()
params = {}
sigs = {}
for cfg in M.CONFIGS:
    p = M.extract(cfg)
    j = json.load(open(p))
    for b in j["bodies"]:
        if b["kind"] in ("Fn", "AssocFn"):
            names.add(b["name"])
            params[b["name"]] = {"args": [b["locals"][i]["name"] for i in range(1, b["arg_count"] + 1)]}
            sigs[b["name"]] = {"parent": b.get("parent"), "inputs": b.get("inputs"), "output": b.get("output"), "async": bool(b.get("asyncness")), "impl_trait": b.get("impl_trait")}
        elif b["is_coroutine"] and b["name"].endswith("::{closure#0}") and "::{closure" not in b["name"][:-len("::{closure#0}")]:
            # the coroutine of an async fn captures exactly the fn's parameters, in order
            params[b["name"]] = {"upvars": [u["name"] for u in b["upvars"]]}
    os.unlink(p)
import subprocess
head = subprocess.run(["git", "-C", "/repo", "rev-parse", "HEAD"], capture_output=True, text=True).stdout.strip()
json.dump({"reviewed_tree": head, "functions": sorted(names), "params": {k: params[k] for k in sorted(params)}, "sigs": {k: sigs[k] for k in sorted(sigs)}}, open(os.path.join(ROOT, "rules", "known_fns.json"), "w"), indent=0)
print(len(names), "functions")
