#!/usr/bin/env python3
"""Regenerates MANIFEST.json from the rule modules that exist (CLAIMED below)."""
import json, os, sys, importlib
ROOT = os.path.dirname(os.path.dirname(os.path.abspath(__file__)))
sys.path.insert(0, ROOT)
ALL = ["C%02d" % i for i in range(1, 16)]
NA_REASON = {}
claimed = []
for p in ALL:
    path = os.path.join(ROOT, "hcsa", "rules", p.lower() + ".py")
    if os.path.exists(path):
        m = importlib.import_module("hcsa.rules." + p.lower())
        if getattr(m, "CLAIMED", True):
            claimed.append((p, m))
            continue
        NA_REASON[p] = getattr(m, "NA_REASON", "rules exist but are not armed")
    else:
        NA_REASON[p] = "no static rule wired into ./check yet for this property (see DESIGN.md section 5 for the planned clauses)"
checks = []
for p, m in claimed:
    checks.append({
        "property_id": p,
        "quick_cmd": "./check %s" % p,
        "thorough_cmd": "./check %s --tier thorough" % p,
        "evidence_file": "/verif/evidence/%s.json" % p,
        "replay_cmd_template": "cat {path}",
        "engine": "hcsa",
        "level_claimed": {
            "category": "other",
            "text": "Static analysis of the type-checked program (rustc MIR): " + m.EXPLANATION + " It decides these structural clauses, not the behaviour: each clause is a necessary condition of the property, so a violated clause breaks the property, but all clauses passing does not establish it.",
            "design_ref": "DESIGN.md section 5 / %s" % p,
        },
        "level_note": "Trusted base: rustc nightly front end (type check, MIR build, trait resolution, const eval), the hcfacts driver and hcsa rule engine; dependency crates are call-graph leaves. Not decided: " + m.NOT_DECIDED,
        "technique": getattr(m, "TECHNIQUE", "custom rustc_private MIR fact extractor + dominance / ordering / provenance rules over the CFG and call graph (static analysis)"),
    })
man = {
    "version": 1,
    "setup_cmd": "./setup.sh",
    "hooks": {
        "guard": "hypercore_verif",
        "enable": "none needed: the rustc_private driver observes the unmodified build (RUSTC_WORKSPACE_WRAPPER under cargo +nightly check); no source hooks exist",
        "baseline_off_cmd": "cd /repo && cargo test --workspace --no-fail-fast --offline",
        "source_commits": [],
        "add_only": True,
    },
    "engines": [
        {"name": "hcfacts", "path": "/verif/hcfacts", "serves_properties": [p for p, _ in claimed], "kind_free_text": "rustc_private driver: dumps built MIR, resolved callees, constants, ADT/impl tables of crate hypercore as JSON facts"},
        {"name": "hcsa", "path": "/verif/hcsa", "serves_properties": [p for p, _ in claimed], "kind_free_text": "python rule engine: CFG, dominators, reaching definitions, origin terms, call graph; per-property structural rules; controls and self-tests"},
    ],
    "checks": checks,
    "not_applicable": [{"property_id": p, "reason": NA_REASON[p]} for p in ALL if p in NA_REASON],
    "notes": "Technique family: static analysis only. Every verdict is computed from /repo's current source through the compiler's MIR; nothing is executed. Known findings: /verif/known-findings.txt.",
}
json.dump(man, open(os.path.join(ROOT, "MANIFEST.json"), "w"), indent=1)
print("claimed:", [p for p, _ in claimed], "n/a:", sorted(NA_REASON))
