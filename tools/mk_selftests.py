#!/usr/bin/env python3
"""(Re)generates /verif/selftest/<name>/{patch.diff,meta.json}: one-instance-broken
variants of /repo used by the thorough tier to validate the rules both ways.
Each variant is produced by exact-string replacements on a scratch worktree."""
import os, sys, json, subprocess, tempfile, shutil
ROOT = os.path.dirname(os.path.dirname(os.path.abspath(__file__)))
REPO = "/repo"

V = []
def variant(name, props, expect, desc, edits):
    V.append(dict(name=name, properties=props, expect=expect, description=desc, edits=edits))

CORE = "src/core.rs"; OPLOG = "src/oplog/mod.rs"; MT = "src/tree/merkle_tree.rs"; CS = "src/tree/merkle_tree_changeset.rs"
ENC = "src/encoding.rs"; HASH = "src/crypto/hash.rs"; KP = "src/crypto/key_pair.rs"; SC = "src/replication/shared_core.rs"; ST = "src/storage/mod.rs"

variant("c02_commit_before_entry", ["C02", "C10", "C13", "C01"], {"C02": ["C02.R1"], "C10": ["C10.R4"]},
        "append_batch commits the tree before the oplog entry is written",
        [(CORE, """            self.storage.flush_infos(&outcome.infos_to_flush).await?;
            self.header = outcome.header;

            // Write to bitfield
            self.bitfield.update(&bitfield_update);

            // Contiguous length is known only now
            update_contiguous_length(&mut self.header, &self.bitfield, &bitfield_update);

            // Commit changeset to in-memory tree
            self.tree.commit(changeset)?;
""", """            // Commit changeset to in-memory tree
            let infos_to_flush = outcome.infos_to_flush;
            let new_header = outcome.header;
            self.tree.commit(changeset)?;
            self.storage.flush_infos(&infos_to_flush).await?;
            self.header = new_header;

            // Write to bitfield
            self.bitfield.update(&bitfield_update);

            // Contiguous length is known only now
            update_contiguous_length(&mut self.header, &self.bitfield, &bitfield_update);
""")])
variant("c02_header_before_tree", ["C02", "C12"], {"C02": ["C02.R4"]},
        "the periodic flush writes the oplog header before the tree nodes",
        [(CORE, """        let infos = self.tree.flush();
        self.storage.flush_infos(&infos).await?;
        let infos = self.oplog.flush(&self.header, clear_traces)?;
        self.storage.flush_infos(&infos).await?;
""", """        let infos = self.oplog.flush(&self.header, clear_traces)?;
        self.storage.flush_infos(&infos).await?;
        let infos = self.tree.flush();
        self.storage.flush_infos(&infos).await?;
""")])
variant("c02_truncate_before_header", ["C02", "C12", "C06"], {"C02": ["C02.R5"], "C12": ["C12.R3"], "C06": ["C06.R9"]},
        "insert_header returns the truncate before the header content write",
        [(OPLOG, """                StoreInfo::new_content(Store::Oplog, oplog_slot as u64, &buffer),
                StoreInfo::new_truncate(Store::Oplog, truncate_index),
""", """                StoreInfo::new_truncate(Store::Oplog, truncate_index),
                StoreInfo::new_content(Store::Oplog, oplog_slot as u64, &buffer),
""")])
variant("c02_clear_delete_first", ["C02", "C10"], {"C02": ["C02.R3"]},
        "clear deletes the data before the drop entry is logged",
        [(CORE, """        // Write to oplog
        let infos_to_flush = self.oplog.clear(start, end)?;
        self.storage.flush_infos(&infos_to_flush).await?;

        // Set bitfield
        self.bitfield.set_range(start, end - start, false);
""", """        // Set bitfield
        self.bitfield.set_range(start, end - start, false);
        let (log_start, log_end) = (start, end);
"""), (CORE, """        self.storage.flush_info(info_to_flush).await?;

        // Now ready to flush
        if self.should_flush_bitfield_and_tree_and_oplog() {
            self.flush_bitfield_and_tree_and_oplog(false).await?;
        }

        Ok(())
    }

    /// Access the key pair.""", """        self.storage.flush_info(info_to_flush).await?;

        // Write to oplog
        let infos_to_flush = self.oplog.clear(log_start, log_end)?;
        self.storage.flush_infos(&infos_to_flush).await?;

        // Now ready to flush
        if self.should_flush_bitfield_and_tree_and_oplog() {
            self.flush_bitfield_and_tree_and_oplog(false).await?;
        }

        Ok(())
    }

    /// Access the key pair.""")])
variant("c04_no_commitable_gate", ["C04", "C13", "C02"], {"C04": ["C04.R1"]},
        "verify_and_apply_proof no longer refuses a non-commitable changeset",
        [(CORE, """        if !self.tree.commitable(&changeset) {
            return Ok(false);
        }
""", "")])
variant("c04_signature_before_additional", ["C04", "C09"], {"C04": ["C04.R4"]},
        "verify_upgrade checks the signature before the additional nodes are appended",
        [(MT, """    changeset.fork = fork;
    changeset.verify_and_set_signature(&upgrade.signature, public_key)?;
    Ok(q.extra.is_none())""", """    Ok(q.extra.is_none())"""),
         (MT, """    iter.seek(last_root_index);
    i = 0;
""", """    iter.seek(last_root_index);
    i = 0;
    changeset.fork = fork;
    changeset.verify_and_set_signature(&upgrade.signature, public_key)?;
""")])
variant("c04_root_hash_not_compared", ["C04", "C09"], {"C04": ["C04.R3"]},
        "an un-upgraded proof root is no longer compared with the stored node",
        [(MT, """                    if verified_block_root_node.hash != unverified_block_root_node.hash {""", """                    if verified_block_root_node.index != unverified_block_root_node.index {""")])
variant("c04_verify_accepts_missing_sig", ["C04"], {"C04": ["C04.R5"]},
        "crypto::verify treats a missing signature as valid",
        [(KP, """        None => Err(HypercoreError::InvalidSignature {
            context: "No signature provided.".to_string(),
        }),""", """        None => Ok(()),""")])
variant("c04_foreign_key", ["C04"], {"C04": ["C04.R2"]},
        "the second verification round uses the key carried in the header copy instead of the core's key",
        [(CORE, """                match self
                    .tree
                    .verify_proof(proof, &self.key_pair.public, Some(&infos))?""", """                match self
                    .tree
                    .verify_proof(proof, &self.header.key_pair.public, Some(&infos))?""")])
variant("c10_result_dropped", ["C10", "C02"], {"C10": ["C10.R1"], "C02": ["C02.R3"]},
        "clear ignores the result of the data delete",
        [(CORE, """        let info_to_flush = self.block_store.clear(clear_offset, clear_length);
        self.storage.flush_info(info_to_flush).await?;""", """        let info_to_flush = self.block_store.clear(clear_offset, clear_length);
        let _ = self.storage.flush_info(info_to_flush).await;""")])
variant("c10_continue_after_error", ["C10"], {"C10": ["C10.R3"]},
        "flush_infos keeps going after a failed write",
        [(ST, """                            storage
                                .write(info.index, data)
                                .await
                                .map_err(map_random_access_err)?;""", """                            if let Err(e) = storage.write(info.index, data).await {
                                storage
                                    .truncate(info.index)
                                    .await
                                    .map_err(map_random_access_err)?;
                                return Err(map_random_access_err(e));
                            }""")])
variant("c12_no_clear_traces", ["C12"], {"C12": ["C12.R2"]},
        "make_read_only flushes without clearing traces",
        [(CORE, "            self.flush_bitfield_and_tree_and_oplog(true).await?;", "            self.flush_bitfield_and_tree_and_oplog(false).await?;")])
variant("c12_header_secret_kept", ["C12"], {"C12": ["C12.R2"]},
        "make_read_only forgets the header's copy of the secret key",
        [(CORE, "            self.header.key_pair.secret = None;\n", "")])
variant("c12_no_padding", ["C12", "C02"], {"C12": ["C12.R3"]},
        "the trace-clearing header write is no longer padded to the whole slot",
        [(OPLOG, """        if clear_traces {
            size = HEADER_SIZE;
        }""", """        if clear_traces && size > HEADER_SIZE {
            size = HEADER_SIZE;
        }""")])
variant("c13_event_before_flush", ["C13", "C10"], {"C13": ["C13.R4"]},
        "append emits its events before the (fallible) periodic flush",
        [(CORE, """            // Now ready to flush
            if self.should_flush_bitfield_and_tree_and_oplog() {
                self.flush_bitfield_and_tree_and_oplog(false).await?;
            }

            #[cfg(feature = "replication")]
            {
                let _ = self.events.send(crate::replication::events::DataUpgrade {});
                let _ = self
                    .events
                    .send(crate::replication::events::Have::from(&bitfield_update));
            }
""", """            #[cfg(feature = "replication")]
            {
                let _ = self.events.send(crate::replication::events::DataUpgrade {});
                let _ = self
                    .events
                    .send(crate::replication::events::Have::from(&bitfield_update));
            }

            // Now ready to flush
            if self.should_flush_bitfield_and_tree_and_oplog() {
                self.flush_bitfield_and_tree_and_oplog(false).await?;
            }
""")])
variant("c13_upgrade_event_unconditional", ["C13"], {"C13": ["C13.R3"]},
        "an accepted proof always emits an upgrade event",
        [(CORE, """            if proof.upgrade.is_some() {
                // Notify replicator if we receieved an upgrade
                let _ = self.events.send(crate::replication::events::DataUpgrade {});
            }""", """            {
                // Notify replicator if we receieved an upgrade
                let _ = self.events.send(crate::replication::events::DataUpgrade {});
            }""")])
variant("c15_check_then_act", ["C15"], {"C15": ["C15.R1"]},
        "SharedCore::append reads the length under one lock and appends under another",
        [(SC, """            let mut core = self.0.lock().await;
            Ok(core.append(data).await?)""", """            let before = self.0.lock().await.info().length;
            let mut core = self.0.lock().await;
            let outcome = core.append(data).await?;
            debug_assert!(outcome.length > before);
            Ok(outcome)""")])
variant("c11_swapped_fields", ["C11"], {"C11": ["C11.R1-R3"]},
        "DataUpgrade::decode swaps nodes and additional_nodes",
        [(ENC, """        let ((start, length, nodes, additional_nodes, signature), rest) =
            map_decode!(buffer, [u64, u64, Vec<Node>, Vec<Node>, Vec<u8>]);""", """        let ((start, length, additional_nodes, nodes, signature), rest) =
            map_decode!(buffer, [u64, u64, Vec<Node>, Vec<Node>, Vec<u8>]);""")])
variant("c11_size_short", ["C11", "C06"], {"C11": ["C11.R1-R3"], "C06": ["C06.R1"]},
        "Node::encoded_size announces 31 hash bytes",
        [(ENC, "        Ok(sum_encoded_size!(self.index, self.length) + 32)", "        Ok(sum_encoded_size!(self.index, self.length) + 31)")])
variant("c06_partial_mask", ["C06", "C07"], {"C06": ["C06.R3"]},
        "validate_leader reads the partial bit from bit 0",
        [(OPLOG, "        let partial_bit = combined & 2 == 2;", "        let partial_bit = combined & 1 == 1;")])
variant("c06_tree_offset", ["C06", "C05"], {"C06": ["C06.R6"], "C05": ["C05.R6"]},
        "MerkleTree::node requests a record at index*32",
        [(MT, "        let offset = 40 * index;", "        let offset = 32 * index;")])
variant("c05_children_swapped", ["C05"], {"C05": ["C05.R1"]},
        "Hash::parent hashes the higher-index child first",
        [(HASH, """        hasher.update(node1.hash());
        hasher.update(node2.hash());

        Self {
            hash: hasher.finalize(),
        }
    }

    /// Hash a tree""", """        hasher.update(node2.hash());
        hasher.update(node1.hash());

        Self {
            hash: hasher.finalize(),
        }
    }

    /// Hash a tree""")])
variant("c05_signable_order", ["C05", "C04"], {"C05": ["C05.R3"]},
        "signable_tree encodes fork before length",
        [(HASH, """            length.as_fixed_width(),
            fork.as_fixed_width()""", """            fork.as_fixed_width(),
            length.as_fixed_width()""")])
variant("c08_no_hint_update", ["C08"], {"C08": ["C08.R3"]},
        "verify_and_apply_proof no longer maintains the contiguous length",
        [(CORE, """            // Contiguous length is known only now
            update_contiguous_length(&mut self.header, &self.bitfield, bitfield_update);
        }""", """        }""")])
variant("c08_page_divisor", ["C08", "C06"], {"C08": ["C08.R1"]},
        "DynamicBitfield::get derives the page index with the wrong constant",
        [("src/bitfield/dynamic.rs", """    pub(crate) fn get(&self, index: u64) -> bool {
        let j = index & (DYNAMIC_BITFIELD_PAGE_SIZE as u64 - 1);
        let i = (index - j) / DYNAMIC_BITFIELD_PAGE_SIZE as u64;""", """    pub(crate) fn get(&self, index: u64) -> bool {
        let j = index & (DYNAMIC_BITFIELD_PAGE_SIZE as u64 - 1);
        let i = (index - j) / FIXED_BITFIELD_BYTES_LENGTH as u64;""")])
variant("c09_cursor_unchecked", ["C09", "C04"], {"C09": ["C09.R1", "C09.R4"]},
        "NodeQueue::shift indexes without checking the cursor",
        [(MT, """        if self.i >= self.nodes.len() {
            return Err(HypercoreError::InvalidOperation {
                context: format!("Expected node {index}, got (nil)"),
            });
        }
""", "")])
variant("c09_head_check_dropped", ["C09"], {"C09": ["C09.R4"]},
        "nodes_to_root no longer bounds the climb by the tree head",
        [(MT, """        iter.parent();
        if iter.contains(head) {
            return Err(HypercoreError::InvalidOperation {
                context: format!(
                    "Nodes is out of bounds, index: {index}, nodes: {nodes}, head {head}"
                ),
            });
        }""", """        iter.parent();
        let _ = head;""")])
variant("c14_cache_committed_nodes", ["C14"], {"C14": ["C14.R1"]},
        "MerkleTree::commit also puts the changeset's nodes into the node cache",
        [(MT, """        for node in changeset.nodes {
            self.unflushed.insert(node.index, node);
        }
""", """        for node in changeset.nodes {
            #[cfg(feature = "cache")]
            if let Some(node_cache) = &self.node_cache {
                node_cache.insert(node.index, node.clone());
            }
            self.unflushed.insert(node.index, node);
        }
""")])
variant("c01_replay_skips_bitfield", ["C01", "C08"], {"C01": ["C01.R2"], "C08": ["C08.R3"]},
        "replay on open no longer applies bitfield updates",
        [(CORE, """                if let Some(bitfield_update) = &entry.bitfield {
                    bitfield.update(bitfield_update);
                    update_contiguous_length(""", """                if let Some(bitfield_update) = &entry.bitfield {
                    update_contiguous_length(""")])
variant("c01_get_ungated", ["C01", "C08", "C13"], {"C01": ["C01.R3"], "C08": ["C08.R4"], "C13": ["C13.R5"]},
        "get consults the bitfield for index + 1",
        [(CORE, """        if !self.bitfield.get(index) {
            #[cfg(feature = "replication")]""", """        if !self.bitfield.get(index + 1) {
            #[cfg(feature = "replication")]""")])
variant("c03_proof_without_value", ["C03", "C09"], {"C03": ["C03.R1"]},
        "create_proof no longer returns None when the block is not held",
        [(CORE, """            let value = self.get(block.index).await?;
            if value.is_none() {
                // The data value requested in the proof can not be read, we return None here
                // and let the party requesting figure out what to do.
                return Ok(None);
            }
            value""", """            self.get(block.index).await?""")])
variant("c07_checksum_ignored", ["C07", "C06"], {"C07": ["C07.R2"]},
        "validate_leader accepts a frame whose checksum differs when the length looks plausible",
        [(OPLOG, """        if calculated_checksum != stored_checksum {""", """        if calculated_checksum != stored_checksum && len > HEADER_SIZE {""")])
variant("c07_short_leader", ["C07", "C09"], {"C07": ["C07.R1"]},
        "validate_leader only treats an empty buffer as the end of the log",
        [(OPLOG, """        if buffer.len() < 8 {
            return Ok(None);
        }""", """        if buffer.is_empty() {
            return Ok(None);
        }""")])

# ---------------------------------------------------------------------------------------------
# NEGATIVE variants: behaviour-preserving rewrites.  No rule of the listed properties may fire.
ALLP = ["C01", "C02", "C03", "C04", "C05", "C06", "C07", "C08", "C09", "C10", "C11", "C12", "C13", "C14", "C15"]
variant("neg_explicit_match_instead_of_question_mark", ALLP, {},
        "append_batch handles the entry write's error with an explicit if-let + return instead of `?`",
        [(CORE, """            self.storage.flush_infos(&outcome.infos_to_flush).await?;
            self.header = outcome.header;

            // Write to bitfield
            self.bitfield.update(&bitfield_update);""", """            if let Err(err) = self.storage.flush_infos(&outcome.infos_to_flush).await {
                return Err(err);
            }
            self.header = outcome.header;

            // Write to bitfield
            self.bitfield.update(&bitfield_update);""")])
variant("neg_renamed_locals", ALLP, {},
        "local variables renamed in append_batch, verify_upgrade and create_valueless_proof",
        [(CORE, """            let mut changeset = self.tree.changeset();
            let mut batch_length: usize = 0;
            for data in batch.as_ref().iter() {
                batch_length += changeset.append(data.as_ref());
            }
            changeset.hash_and_sign(secret_key);""", """            let mut pending = self.tree.changeset();
            let mut batch_length: usize = 0;
            for data in batch.as_ref().iter() {
                batch_length += pending.append(data.as_ref());
            }
            pending.hash_and_sign(secret_key);
            let changeset = pending;"""),
         (MT, """    let mut q = if let Some(block_root) = block_root {
        NodeQueue::new(upgrade.nodes.clone(), Some(block_root.clone()))
    } else {
        NodeQueue::new(upgrade.nodes.clone(), None)
    };""", """    let mut queue = if let Some(block_root) = block_root {
        NodeQueue::new(upgrade.nodes.clone(), Some(block_root.clone()))
    } else {
        NodeQueue::new(upgrade.nodes.clone(), None)
    };
    let q = &mut queue;""")])
variant("neg_constructor_helper", ALLP, {},
        "the BitfieldUpdate of an append is built by a small constructor function",
        [("src/common/mod.rs", """#[derive(Debug, Clone, PartialEq, Eq)]
pub(crate) struct BitfieldUpdate {""", """impl BitfieldUpdate {
    pub(crate) fn set(start: u64, length: u64) -> Self {
        Self {
            drop: false,
            start,
            length,
        }
    }
}

#[derive(Debug, Clone, PartialEq, Eq)]
pub(crate) struct BitfieldUpdate {"""),
         (CORE, """            let bitfield_update = BitfieldUpdate {
                drop: false,
                start: changeset.ancestors,
                length: changeset.batch_length,
            };""", """            let bitfield_update = BitfieldUpdate::set(changeset.ancestors, changeset.batch_length);""")])
variant("neg_reordered_independent_statements", ALLP, {},
        "independent statements reordered: header assignment after the bitfield update in append_batch; key cleared in the other order in make_read_only",
        [(CORE, """            self.header = outcome.header;

            // Write to bitfield
            self.bitfield.update(&bitfield_update);

            // Contiguous length is known only now
            update_contiguous_length(&mut self.header, &self.bitfield, &bitfield_update);""", """            // Write to bitfield
            self.bitfield.update(&bitfield_update);
            self.header = outcome.header;

            // Contiguous length is known only now
            update_contiguous_length(&mut self.header, &self.bitfield, &bitfield_update);"""),
         (CORE, """            self.key_pair.secret = None;
            self.header.key_pair.secret = None;""", """            self.header.key_pair.secret = None;
            self.key_pair.secret = None;""")])
variant("neg_two_calls_under_one_lock", ["C15", "C10", "C13"], {},
        "SharedCore::append performs two Hypercore calls under one guard",
        [(SC, """            let mut core = self.0.lock().await;
            Ok(core.append(data).await?)""", """            let mut core = self.0.lock().await;
            let before = core.info().length;
            let outcome = core.append(data).await?;
            debug_assert!(outcome.length > before);
            Ok(outcome)""")])
variant("neg_while_let_loop", ALLP, {},
        "flush_infos iterates with an explicit iterator and while-let",
        [(ST, """        for info in infos.iter() {
            if info.store != current_store {""", """        let mut remaining = infos.iter();
        while let Some(info) = remaining.next() {
            if info.store != current_store {""")])
variant("neg_guard_rewritten", ALLP, {},
        "NodeQueue::shift's cursor guard written as `!(i < len)`; verify_and_apply_proof's fork gate as `==` with swapped arms",
        [(MT, """        if self.i >= self.nodes.len() {
            return Err(HypercoreError::InvalidOperation {
                context: format!("Expected node {index}, got (nil)"),
            });
        }""", """        if !(self.i < self.nodes.len()) {
            return Err(HypercoreError::InvalidOperation {
                context: format!("Expected node {index}, got (nil)"),
            });
        }"""),
         (CORE, """        if proof.fork != self.tree.fork {
            return Ok(false);
        }
        let changeset = self.verify_proof(proof).await?;""", """        if self.tree.fork == proof.fork {
        } else {
            return Ok(false);
        }
        let changeset = self.verify_proof(proof).await?;""")])


def main():
    only = sys.argv[1:]
    made = 0
    for v in V:
        if only and v["name"] not in only:
            continue
        tmp = tempfile.mkdtemp(prefix="hcsa-mk-")
        work = os.path.join(tmp, "repo")
        subprocess.run(["git", "-C", REPO, "worktree", "add", "--detach", "-q", work, "HEAD"], check=True)
        try:
            ok = True
            for path, old, new in v["edits"]:
                p = os.path.join(work, path)
                t = open(p).read()
                if t.count(old) != 1:
                    print("!! %s: anchor text occurs %d times in %s" % (v["name"], t.count(old), path))
                    ok = False
                    break
                open(p, "w").write(t.replace(old, new))
            if not ok:
                continue
            diff = subprocess.run(["git", "-C", work, "diff"], capture_output=True, text=True).stdout
            d = os.path.join(ROOT, "selftest", v["name"])
            os.makedirs(d, exist_ok=True)
            open(os.path.join(d, "patch.diff"), "w").write(diff)
            json.dump({"properties": v["properties"], "expect": v["expect"], "description": v["description"], "config": "all"}, open(os.path.join(d, "meta.json"), "w"), indent=1)
            made += 1
        finally:
            subprocess.run(["git", "-C", REPO, "worktree", "remove", "--force", work], capture_output=True)
            shutil.rmtree(tmp, ignore_errors=True)
    subprocess.run(["git", "-C", REPO, "worktree", "prune"])
    print("wrote", made, "variants")


if __name__ == "__main__":
    main()
