#!/usr/bin/env python3
"""Lists (and with --write removes) reviewed panic-table entries that no rule run uses any more on
the current /repo tree, in any of the three feature configurations (an entry becomes unused when
its site is discharged automatically, e.g. after the engine learnt a new A1/A2 argument)."""
import os, sys, json, importlib
ROOT = os.path.dirname(os.path.dirname(os.path.abspath(__file__)))
sys.path.insert(0, ROOT)
from hcsa import main as M
from hcsa.facts import Crate
from hcsa.engine import Ctx
from hcsa.rules import c09
for cfg in M.CONFIGS:
    p = M.extract(cfg)
    crate = Crate(p)
    os.unlink(p)
    for prop in ("C03", "C07", "C09", "C11"):
        mod = importlib.import_module("hcsa.rules." + prop.lower())
        ctx = Ctx(crate, cfg)
        for r in mod.RULES:
            feat = getattr(r, "needs_feature", None)
            if feat and feat not in crate.features:
                continue
            r(ctx)
path = os.path.join(ROOT, "rules", "panic_sites.json")
t = json.load(open(path))
unused = [e for e in t if e["key"] not in c09.USED_KEYS]
for e in unused:
    print("unused:", e["key"])
print(len(t), "entries,", len(unused), "unused")
if "--write" in sys.argv:
    json.dump([e for e in t if e["key"] in c09.USED_KEYS], open(path, "w"), indent=1)
