#!/usr/bin/env python3
"""Runs every selftest variant (or seeded change) against ALL properties and prints
which rules fire: the "which checks catch which changes" matrix.
usage: run_selftests.py [--seeded] [name ...]"""
import os, sys, json, subprocess, tempfile, shutil, importlib
ROOT = os.path.dirname(os.path.dirname(os.path.abspath(__file__)))
sys.path.insert(0, ROOT)
from hcsa import main as M
from hcsa.facts import Crate
from hcsa.engine import Ctx
REPO = "/repo"


def evaluate(patch, config="all"):
    tmp = tempfile.mkdtemp(prefix="hcsa-st-")
    work = os.path.join(tmp, "repo")
    subprocess.run(["git", "-C", REPO, "worktree", "add", "--detach", "-q", work, "HEAD"], check=True)
    try:
        if os.path.exists(os.path.join(REPO, "Cargo.lock")) and not os.path.exists(os.path.join(work, "Cargo.lock")):
            shutil.copy(os.path.join(REPO, "Cargo.lock"), os.path.join(work, "Cargo.lock"))
        p = subprocess.run(["git", "-C", work, "apply", patch], capture_output=True, text=True)
        if p.returncode != 0:
            return None, "patch does not apply: " + p.stderr[:200]
        try:
            path = M.extract(config, repo=work, out=os.path.join(tmp, "facts.json"))
        except Exception as e:
            return None, "does not compile: %r" % e
        crate = Crate(path)
        out = {}
        for prop in M.PROPS:
            mod = importlib.import_module("hcsa.rules." + prop.lower())
            ctx = Ctx(crate, "selftest")
            for r in mod.RULES:
                feat = getattr(r, "needs_feature", None)
                if feat and feat not in crate.features:
                    continue
                try:
                    r(ctx)
                except Exception as e:
                    ctx.fail(prop, r.__name__, "rule crashed", repr(e))
            fails = [i for i in ctx.insts if i.verdict != "pass"]
            if fails:
                out[prop] = fails
        return out, ""
    finally:
        subprocess.run(["git", "-C", REPO, "worktree", "remove", "--force", work], capture_output=True)
        subprocess.run(["git", "-C", REPO, "worktree", "prune"], capture_output=True)
        shutil.rmtree(tmp, ignore_errors=True)


def main():
    args = sys.argv[1:]
    base = "selftest"
    if args and args[0] == "--seeded":
        base = "seeded"
        args = args[1:]
    d = os.path.join(ROOT, base)
    rows = []
    for name in sorted(os.listdir(d)):
        if args and name not in args:
            continue
        patch = os.path.join(d, name, "patch.diff")
        if not os.path.exists(patch):
            continue
        meta = json.load(open(os.path.join(d, name, "meta.json")))
        res, err = evaluate(patch)
        if res is None:
            print("%-34s ERROR %s" % (name, err))
            continue
        fired = {p: sorted(set(i.rule for i in f)) for p, f in res.items()}
        exp = meta.get("expect", {})
        verdict = "ok"
        for p, needles in exp.items():
            for n in needles:
                if not any(n in i.key or n in i.anchor or n in i.rule for i in res.get(p, [])):
                    verdict = "MISSED %s/%s" % (p, n)
        print("%-34s %-22s %s" % (name, verdict, json.dumps(fired)))
        if "-v" in sys.argv:
            for p, f in res.items():
                for i in f[:3]:
                    print("      %s %s :: %s" % (i.rule, i.anchor[:70], i.why[:160]))
        rows.append((name, fired))
    return rows


if __name__ == "__main__":
    main()
