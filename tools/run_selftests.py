#!/usr/bin/env python3
"""Runs every selftest variant (or seeded change) against ALL properties and prints
which rules fire: the "which checks catch which changes" matrix.  Fact files are cached
(.work/refs/facts) keyed by /repo HEAD and patch mtime.
usage: run_selftests.py [--seeded] [-v] [-j N] [name ...]"""
import os, sys, json
from concurrent.futures import ProcessPoolExecutor
ROOT = os.path.dirname(os.path.dirname(os.path.abspath(__file__)))
sys.path.insert(0, ROOT)
sys.path.insert(0, os.path.join(ROOT, "tools"))
import eval_patches as E


def evaluate(patch, config="all"):
    """kept for callers: {prop: [(rule, anchor, key, why)]} or (None, err)"""
    path, err = E.facts_for(patch)
    if path is None:
        return None, err
    return E.run_rules(path), ""


def job(a):
    base, name = a
    d = os.path.join(ROOT, base, name)
    src = os.path.join(d, "patch.diff")
    # cache key must be unique across selftest/ and seeded/
    link = os.path.join(ROOT, ".work", "refs", "links")
    os.makedirs(link, exist_ok=True)
    alias = os.path.join(link, "%s__%s.patch" % (base, name))
    if not os.path.exists(alias) or os.path.getmtime(alias) < os.path.getmtime(src):
        import shutil
        shutil.copy2(src, alias)
    res, err = evaluate(alias)
    return name, res, err


def main():
    args = sys.argv[1:]
    base = "selftest"
    if "--seeded" in args:
        base = "seeded"
        args.remove("--seeded")
    v = "-v" in args
    if v:
        args.remove("-v")
    j = 8
    if "-j" in args:
        k = args.index("-j")
        j = int(args[k + 1])
        del args[k:k + 2]
    d = os.path.join(ROOT, base)
    names = [n for n in sorted(os.listdir(d)) if (not args or n in args) and os.path.exists(os.path.join(d, n, "patch.diff"))]
    bad = 0
    with ProcessPoolExecutor(j) as ex:
        for name, res, err in ex.map(job, [(base, n) for n in names]):
            meta = json.load(open(os.path.join(d, name, "meta.json")))
            if res is None:
                print("%-34s ERROR %s" % (name, err))
                bad += 1
                continue
            fired = {p: sorted(set(x[0] for x in f)) for p, f in res.items()}
            exp = meta.get("expect", {})
            verdict = "ok"
            for p, needles in exp.items():
                for n in needles:
                    if not any(n in k or n in a or n in r for r, a, k, w in res.get(p, [])):
                        verdict = "MISSED %s/%s" % (p, n)
            if name.startswith("neg_") and fired:
                verdict = "FALSE-ALARM"
            if verdict != "ok":
                bad += 1
            print("%-34s %-22s %s" % (name, verdict, json.dumps(fired)))
            if v:
                for p, f in res.items():
                    for r, a, k, w in f[:3]:
                        print("      %s %s :: %s" % (r, a[:70], w[:160]))
    print("not ok: %d / %d" % (bad, len(names)))
    return 1 if bad else 0


if __name__ == "__main__":
    sys.exit(main())
