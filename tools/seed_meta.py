#!/usr/bin/env python3
"""Writes /verif/seeded/<ID>/meta.json from the table below (facts reported by the
seeding sub-agent and re-confirmed by tools/confirm_seed.sh) plus the detection result."""
import json, os, re, sys
ROOT = os.path.dirname(os.path.dirname(os.path.abspath(__file__)))
SEEDS = {
 "C11": dict(breaks="C11", summary="DataUpgrade::encoded_size counts self.nodes twice and never counts self.additional_nodes; encode/decode untouched",
             needs="an upgrade message whose nodes and additional_nodes lists differ in encoded size (e.g. 3 and 0 nodes): the announced size is then wrong (too large: trailing padding decodes with bytes left over; too small: encode fails)",
             detected_by=["C11.R1-R3 (DataUpgrade: encoded_size sums the fields that encode writes)"], detection="caught by the rules as first written"),
 "C07": dict(breaks="C07", summary="Oplog::open, branch 'only the second header slot is valid': header_bits = [h2, h2] instead of [!h2, h2]",
             needs="a crash that tears a write to the FIRST header slot (written only on every second flush) with unflushed entries in the log: create, 5 appends, tear the header write of the 5th append's flush -> reopen shows length 1 instead of 4/5",
             detected_by=["C07.R5 (remembered header bits match the slot whose header is used)"], detection="MISSED by the rules as first written; C07.R5 was added (relation between the slot whose header is decoded and the header bits stored in the Oplog), silent on the unchanged tree"),
 "C09": dict(breaks="C09", summary="NodeQueue::shift guards with `self.length == 0` instead of `self.i >= self.nodes.len()`; length also counts the pending extra node",
             needs="a peer proof with a block part and an upgrade part whose upgrade node list is too short for a root that precedes the block's root (writer 10 blocks, reader empty, block 8 + upgrade 0..10 with node 7 dropped): index out of bounds panic inside verify_and_apply_proof",
             detected_by=["C09.R1 (shift: index<Vec>(self.nodes, self.i) undischarged)", "C09.R4 (NodeQueue::shift checks the cursor before indexing)"], detection="caught by the rules as first written"),
 "C10": dict(breaks="C10", summary="Storage::read_infos_to_vec: match guard `Err(_) if instruction.allow_miss` turns ANY read error into a recorded miss, not only OutOfBounds",
             needs="one injected I/O error exactly at an allow_miss tree read (missing_nodes / seek walk) of a node that is no longer in the unflushed map (after a flush or reopen): missing_nodes(2) returns Ok(1) instead of an error",
             detected_by=["C10.R3 (read_infos_to_vec: error edge of read: an error other than OutOfBounds is turned into a miss)"], detection="MISSED by the rules as first written (the reviewed allow_miss idiom only re-verified the allow_miss guard); the idiom check now also requires the OutOfBounds variant edge to dominate the miss arm"),
 "C05": dict(breaks="C05", summary="Hash::tree skips roots whose size is 0 (`if node.is_empty() { continue; }`)",
             needs="a root set containing a full root that covers zero bytes (length 3 with an empty third block; a batch of two empty blocks on a 4-block core): the signed root hash differs from the v10 scheme, only an independent verifier notices",
             detected_by=["C05.R1 (every root contributes to the tree hash)"], detection="MISSED by the rules as first written (updates were required to be in the loop, not to be unconditional per iteration); clause added"),
}

def main():
    for sid, m in SEEDS.items():
        d = os.path.join(ROOT, "seeded", sid)
        if not os.path.isdir(d):
            continue
        log = open(os.path.join(d, "confirm.log")).read() if os.path.exists(os.path.join(d, "confirm.log")) else ""
        ex = dict(re.findall(r"(\w+_exit)=(\d+)", log))
        meta = {
            "property": m["breaks"],
            "summary": m["summary"],
            "needs_to_manifest": m["needs"],
            "files": {"patch": "patch.diff", "demonstration": "seed_demo.rs (integration test for /repo/tests/)", "confirmation_log": "confirm.log"},
            "what_i_ran": "tools/confirm_seed.sh %s in the sub-agent's scratch worktree /tmp/seed_%s: [1] cargo test --offline --test seed_demo with the change; [2] cargo test --workspace --no-fail-fast --offline with the change (seed_demo moved aside); [3] seed_demo with src stashed; then checks via HC_REPO=<worktree> ./check <ID> and tools/run_selftests.py --seeded" % (sid, sid),
            "confirmed": {"demo_fails_with_change": ex.get("demo_with_exit") not in (None, "0"), "suite_passes_with_change": ex.get("suite_with_exit") == "0", "demo_passes_without_change": ex.get("demo_without_exit") == "0"},
            "detected_by": m["detected_by"],
            "detection_history": m["detection"],
            "properties": [m["breaks"]],
            "expect": {m["breaks"]: [re.match(r"(C\d+\.R[\d\-R]+)", x).group(1) for x in m["detected_by"]]},
        }
        json.dump(meta, open(os.path.join(d, "meta.json"), "w"), indent=1)
        print(sid, meta["confirmed"])

if __name__ == "__main__":
    main()
