#!/usr/bin/env python3
"""Writes /verif/seeded/<ID>/meta.json from the table below (facts reported by the
seeding sub-agent and re-confirmed by tools/confirm_seed.sh) plus the detection result."""
import json, os, re, sys
ROOT = os.path.dirname(os.path.dirname(os.path.abspath(__file__)))
SEEDS = {
 "C11": dict(breaks="C11", summary="DataUpgrade::encoded_size counts self.nodes twice and never counts self.additional_nodes; encode/decode untouched",
             needs="an upgrade message whose nodes and additional_nodes lists differ in encoded size (e.g. 3 and 0 nodes): the announced size is then wrong (too large: trailing padding decodes with bytes left over; too small: encode fails)",
             detected_by=["C11.R1-R3 (DataUpgrade: encoded_size sums the fields that encode writes)"], detection="caught by the rules as first written"),
 "C07": dict(breaks="C07", summary="Oplog::open, branch 'only the second header slot is valid': header_bits = [h2, h2] instead of [!h2, h2]",
             needs="a crash that tears a write to the FIRST header slot (written only on every second flush) with unflushed entries in the log: create, 5 appends, tear the header write of the 5th append's flush -> reopen shows length 1 instead of 4/5",
             detected_by=["C07.R5 (remembered header bits match the slot whose header is used)"], detection="MISSED by the rules as first written; C07.R5 was added (relation between the slot whose header is decoded and the header bits stored in the Oplog), silent on the unchanged tree"),
 "C09": dict(breaks="C09", summary="NodeQueue::shift guards with `self.length == 0` instead of `self.i >= self.nodes.len()`; length also counts the pending extra node",
             needs="a peer proof with a block part and an upgrade part whose upgrade node list is too short for a root that precedes the block's root (writer 10 blocks, reader empty, block 8 + upgrade 0..10 with node 7 dropped): index out of bounds panic inside verify_and_apply_proof",
             detected_by=["C09.R1 (shift: index<Vec>(self.nodes, self.i) undischarged)", "C09.R4 (NodeQueue::shift checks the cursor before indexing)"], detection="caught by the rules as first written"),
 "C10": dict(breaks="C10", summary="Storage::read_infos_to_vec: match guard `Err(_) if instruction.allow_miss` turns ANY read error into a recorded miss, not only OutOfBounds",
             needs="one injected I/O error exactly at an allow_miss tree read (missing_nodes / seek walk) of a node that is no longer in the unflushed map (after a flush or reopen): missing_nodes(2) returns Ok(1) instead of an error",
             detected_by=["C10.R3 (read_infos_to_vec: error edge of read: an error other than OutOfBounds is turned into a miss)"], detection="MISSED by the rules as first written (the reviewed allow_miss idiom only re-verified the allow_miss guard); the idiom check now also requires the OutOfBounds variant edge to dominate the miss arm"),
 "C05": dict(breaks="C05", summary="Hash::tree skips roots whose size is 0 (`if node.is_empty() { continue; }`)",
             needs="a root set containing a full root that covers zero bytes (length 3 with an empty third block; a batch of two empty blocks on a 4-block core): the signed root hash differs from the v10 scheme, only an independent verifier notices",
             detected_by=["C05.R1 (every root contributes to the tree hash)"], detection="MISSED by the rules as first written (updates were required to be in the loop, not to be unconditional per iteration); clause added"),
 "C13": dict(breaks="C13", summary="append_batch sends DataUpgrade / Have before the periodic flush instead of after it (verify_and_apply_proof untouched)",
             needs="a write fault in the bitfield / tree store or the oplog header write, on an append that actually flushes (1st, then every 4th): the append returns Err but both subscribers were already told DataUpgrade + Have",
             detected_by=["C13.R4 (append_batch: nothing can fail after the DataUpgrade / Have event)"], detection="caught by the rules as first written (same shape as self-test c13_event_before_flush)"),
 "C04": dict(breaks="C04", summary="verify_upgrade returns `q.i == q.nodes.len()` (all upgrade nodes consumed) instead of `q.extra.is_none()` (block root consumed)",
             needs="replica at length L>0 without block i<L; writer grows; a proof for block i with ALTERED bytes plus a genuine signed upgrade L..N: the block root is exempted from the comparison with the stored node and the forged block is stored",
             detected_by=["C04.R3 (verify_upgrade reports 'root consumed' only when the queue's extra node is gone)"], detection="MISSED by the rules as first written; clause added to C04.R3: the flag is `is_none(queue.extra)`, the queue is seeded with the block root exactly when there is one, shift hands the extra out only for its own index"),
 "C03": dict(breaks="C03", summary="verify_upgrade starts the climb that merges old roots at changeset.roots[i] (first root that stops being a root) instead of the last root",
             needs="a replica already upgraded to a length with two or more roots (3, 5, 6, 7, ..) and a writer that grew so that two or more trailing roots fold into one (3 -> 4): the honest upgrade proof is rejected ('Expected node 5, got node 6')",
             detected_by=[], detection="NOT DETECTED. The two start indices differ only through flat-tree arithmetic; acceptance of honest proofs is in C03's declared 'not decided' remainder (DESIGN 5/C03). No structural clause that is a necessary condition (and not a frozen fragment of this line) was found"),
 "C02": dict(breaks="C02", summary="Oplog::open records each entry's START offset in entry_ends (two lines swapped), so the restored entries_byte_length points at the start of the last unflushed entry",
             needs="reopen with >= 1 unflushed entry, then the next mutating call's entry is written over the last unflushed entry, then a crash before that call's flush (a window of a few storage operations): an acknowledged append is lost, state is neither before nor after",
             detected_by=["C02.R8 (the restored log length counts each accepted entry up to the end of its payload)"], detection="MISSED by the rules as first written (R8 only required a non-literal value); clause added: every contribution to entries_byte_length must derive, within the same loop iteration (back edges cut), from the remainder returned by that entry's decode"),
 "C14": dict(breaks="C14", summary="infos_to_nodes caches blank nodes too, and MerkleTree::node answers optional reads from a cached blank node with 'missing'",
             needs="feature cache with a node cache configured; a sparse replica with zero-filled tree slots; order: missing_nodes probe of a hole, then a proof filling it, then missing_nodes again: cache-on and cache-off cores report different counts and request different proofs",
             detected_by=["C14.R2 (blank nodes are not cached)", "C14.R3 (a cache hit returns the cached node)"], detection="caught by the rules as first written"),
 "C01": dict(breaks="C01", summary="FixedBitfield::from_data loops `while i < limit` instead of `<=`: the last u32 word of every reloaded bitfield page stays zero",
             needs="a core with blocks at in-page indices 32736..32767 (>= 32737 blocks) whose bitfield was flushed, then close and reopen: has() false / get() None for 32 stored blocks per page",
             detected_by=["C01.R7 / C06.R5 / C08.R2 (reader: a complete page yields all 1024 words)"], detection="MISSED by the rules as first written; an affine trip-count clause for the reader's word loop was added to the page-layout rule (shared by C01, C06, C08)"),
 "C08": dict(breaks="C08", summary="same change as seeded C01 (independently produced): FixedBitfield::from_data `while i < limit`",
             needs="40000 one-byte blocks on disk, flushed, reopened: first index reported missing is 32736 while contiguous_length says 40000",
             detected_by=["C08.R2 (reader: a complete page yields all 1024 words)"], detection="MISSED by the rules as first written; caught by the trip-count clause added for seeded C01"),
 "C06": dict(breaks="C06", summary="same change as seeded C07 (independently produced): header bits [h2, h2] in the 'only second slot valid' branch of Oplog::open",
             needs="current header in slot 2 (odd number of flushes) and slot 1 failing validation (JS-valid file with an empty first slot, or a torn rewrite of slot 1): the three live entries are skipped, length 1 instead of 4",
             detected_by=["C06.R7 (remembered header bits match the slot whose header is used)"], detection="MISSED by the rules as first written; caught by the clause added for seeded C07, shared into C06.R7"),
 "C15": dict(breaks="C15", summary="SharedCore::append appends under a temporary guard and then builds the AppendOutcome from self.info(), i.e. under a second acquisition",
             needs="another task's append winning the mutex between the two acquisitions (starved waiter hand-over after 500 us, or true parallelism): two appends report the same length; blocks are not at the index implied by the outcome",
             detected_by=["C15.R1 (no nested SharedCore operation)"], detection="MISSED by the rules as first written (one textual lock() site, the second acquisition hidden in self.info()); clause added: a SharedCore method calls no other SharedCore operation", extra="--features shared-core"),
}

def main():
    for sid, m in SEEDS.items():
        d = os.path.join(ROOT, "seeded", sid)
        if not os.path.isdir(d):
            continue
        log = open(os.path.join(d, "confirm.log")).read() if os.path.exists(os.path.join(d, "confirm.log")) else ""
        ex = dict(re.findall(r"(\w+_exit)=(\d+)", log))
        meta = {
            "property": m["breaks"],
            "summary": m["summary"],
            "needs_to_manifest": m["needs"],
            "files": {"patch": "patch.diff", "demonstration": "seed_demo.rs (integration test for /repo/tests/)", "confirmation_log": "confirm.log"},
            "what_i_ran": "tools/confirm_seed.sh %s in the sub-agent's scratch worktree /tmp/seed_%s: [1] cargo test --offline --test seed_demo with the change; [2] cargo test --workspace --no-fail-fast --offline with the change (seed_demo moved aside); [3] seed_demo with src stashed; then checks via HC_REPO=<worktree> ./check <ID> and tools/run_selftests.py --seeded" % (sid, sid),
            "confirmed": {"demo_fails_with_change": ex.get("demo_with_exit") not in (None, "0"), "suite_passes_with_change": ex.get("suite_with_exit") == "0", "demo_passes_without_change": ex.get("demo_without_exit") == "0"},
            "detected_by": m["detected_by"],
            "detection_history": m["detection"],
            "properties": [m["breaks"]],
            "expect": ({m["breaks"]: [re.match(r"(C\d+\.R[\d\-R]+)", x).group(1) for x in m["detected_by"]]} if m["detected_by"] else {}),
            "detected": bool(m["detected_by"]),
        }
        json.dump(meta, open(os.path.join(d, "meta.json"), "w"), indent=1)
        print(sid, meta["confirmed"])

if __name__ == "__main__":
    main()
