#!/usr/bin/env python3
"""Regenerates the seeded-changes table of DESIGN.md (between the SEEDED_TABLE markers)
from /verif/seeded/*/meta.json."""
import json, os, re
ROOT = os.path.dirname(os.path.dirname(os.path.abspath(__file__)))
rows = []
for name in sorted(os.listdir(os.path.join(ROOT, "seeded"))):
    mp = os.path.join(ROOT, "seeded", name, "meta.json")
    if not os.path.exists(mp):
        continue
    m = json.load(open(mp))
    conf = m.get("confirmed", {})
    okc = all(conf.values()) if conf else False
    rows.append("| `%s` | %s | %s | %s | %s | %s |" % (name, m["property"], m["summary"].replace("|", "\\|"), m["needs_to_manifest"].replace("|", "\\|")[:260],
                                              ("; ".join(m["detected_by"]) or "**not detected**").replace("|", "\\|"), m["detection_history"].replace("|", "\\|")))
    if not okc:
        rows[-1] += "  <!-- confirmation incomplete: %s -->" % conf
n = len(rows)
det = sum(1 for r in rows if "**not detected**" not in r)
table = ("<!-- SEEDED_TABLE_BEGIN -->\n%d seeded changes kept, %d detected by the checks as they are now (%d of those only after a rule was strengthened; see the last column), %d not detected.\n\n"
         "| seed | property | change | needs, to manifest | detected by | history |\n|---|---|---|---|---|---|\n%s\n<!-- SEEDED_TABLE_END -->") % (
    n, det, sum(1 for r in rows if "MISSED" in r and "**not detected**" not in r), n - det, "\n".join(rows))
p = os.path.join(ROOT, "DESIGN.md")
t = open(p).read()
if "SEEDED_TABLE_PLACEHOLDER" in t:
    t = t.replace("SEEDED_TABLE_PLACEHOLDER", table)
else:
    t = re.sub(r"<!-- SEEDED_TABLE_BEGIN -->.*?<!-- SEEDED_TABLE_END -->", lambda m_: table, t, flags=re.S)
open(p, "w").write(t)
print(n, "rows,", det, "detected")
