//! Crash / fault simulating storage backend over RandomAccessMemory.
use async_trait::async_trait;
use hypercore::{Storage, StorageTraits, Store};
use random_access_memory::RandomAccessMemory;
use random_access_storage::{RandomAccess, RandomAccessError};
use std::sync::{Arc, Mutex};

#[derive(Debug, Default)]
pub struct Ctl {
    /// number of mutating operations (write/del/truncate) issued so far
    pub ops: usize,
    /// the mutating operation with this ordinal (0-based) and all later ones fail without effect
    pub crash_at: Option<usize>,
    /// (ordinal, prefix length): that write applies only its first n bytes, then fails
    pub tear: Option<(usize, usize)>,
    pub log: Vec<String>,
}

#[derive(Debug, Clone)]
pub struct Disk {
    pub files: [Arc<tokio::sync::Mutex<RandomAccessMemory>>; 4],
    pub ctl: Arc<Mutex<Ctl>>,
}

fn slot(s: &Store) -> usize {
    match s {
        Store::Tree => 0,
        Store::Data => 1,
        Store::Bitfield => 2,
        Store::Oplog => 3,
    }
}

impl Disk {
    pub fn new() -> Self {
        Disk {
            files: [
                Arc::new(tokio::sync::Mutex::new(RandomAccessMemory::default())),
                Arc::new(tokio::sync::Mutex::new(RandomAccessMemory::default())),
                Arc::new(tokio::sync::Mutex::new(RandomAccessMemory::default())),
                Arc::new(tokio::sync::Mutex::new(RandomAccessMemory::default())),
            ],
            ctl: Arc::new(Mutex::new(Ctl::default())),
        }
    }
    pub async fn storage(&self) -> Storage {
        let me = self.clone();
        Storage::open(
            move |store: Store| {
                let b = Backend { file: me.files[slot(&store)].clone(), ctl: me.ctl.clone(), name: format!("{store}") };
                Box::pin(async move { Ok(Box::new(b) as Box<dyn StorageTraits + Send>) })
            },
            false,
        )
        .await
        .unwrap()
    }
    pub fn ops(&self) -> usize {
        self.ctl.lock().unwrap().ops
    }
    pub fn crash_after(&self, more_ops: usize) {
        let mut c = self.ctl.lock().unwrap();
        c.crash_at = Some(c.ops + more_ops);
    }
    pub fn heal(&self) {
        let mut c = self.ctl.lock().unwrap();
        c.crash_at = None;
        c.tear = None;
    }
    pub async fn read_all(&self, s: Store) -> Vec<u8> {
        let mut f = self.files[slot(&s)].lock().await;
        let n = f.len().await.unwrap();
        f.read(0, n).await.unwrap()
    }
    pub async fn write_raw(&self, s: Store, offset: u64, data: &[u8]) {
        let mut f = self.files[slot(&s)].lock().await;
        f.write(offset, data).await.unwrap();
    }
    pub async fn truncate_raw(&self, s: Store, len: u64) {
        let mut f = self.files[slot(&s)].lock().await;
        f.truncate(len).await.unwrap();
    }
}

#[derive(Debug)]
pub struct Backend {
    file: Arc<tokio::sync::Mutex<RandomAccessMemory>>,
    ctl: Arc<Mutex<Ctl>>,
    name: String,
}

fn io_err(what: &str) -> RandomAccessError {
    RandomAccessError::IO { return_code: None, context: Some(what.to_string()), source: std::io::Error::new(std::io::ErrorKind::Other, "injected") }
}

enum Gate {
    Go,
    Fail,
    Tear(usize),
}

impl Backend {
    fn gate(&self, what: String) -> Gate {
        let mut c = self.ctl.lock().unwrap();
        let k = c.ops;
        c.ops += 1;
        c.log.push(format!("{k}: {} {what}", self.name));
        if let Some(at) = c.crash_at {
            if k >= at {
                return Gate::Fail;
            }
        }
        if let Some((at, n)) = c.tear {
            if k == at {
                c.crash_at = Some(k + 1);
                return Gate::Tear(n);
            }
        }
        Gate::Go
    }
}

#[async_trait]
impl RandomAccess for Backend {
    async fn write(&mut self, offset: u64, data: &[u8]) -> Result<(), RandomAccessError> {
        match self.gate(format!("write {offset}+{}", data.len())) {
            Gate::Go => self.file.lock().await.write(offset, data).await,
            Gate::Fail => Err(io_err("crash")),
            Gate::Tear(n) => {
                let n = n.min(data.len());
                self.file.lock().await.write(offset, &data[..n]).await?;
                Err(io_err("torn"))
            }
        }
    }
    async fn read(&mut self, offset: u64, length: u64) -> Result<Vec<u8>, RandomAccessError> {
        self.file.lock().await.read(offset, length).await
    }
    async fn del(&mut self, offset: u64, length: u64) -> Result<(), RandomAccessError> {
        match self.gate(format!("del {offset}+{length}")) {
            Gate::Go => self.file.lock().await.del(offset, length).await,
            _ => Err(io_err("crash")),
        }
    }
    async fn truncate(&mut self, length: u64) -> Result<(), RandomAccessError> {
        match self.gate(format!("truncate {length}")) {
            Gate::Go => self.file.lock().await.truncate(length).await,
            _ => Err(io_err("crash")),
        }
    }
    async fn len(&mut self) -> Result<u64, RandomAccessError> {
        self.file.lock().await.len().await
    }
    async fn is_empty(&mut self) -> Result<bool, RandomAccessError> {
        self.file.lock().await.is_empty().await
    }
    async fn sync_all(&mut self) -> Result<(), RandomAccessError> {
        Ok(())
    }
}
