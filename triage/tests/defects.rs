//! One test per defect found by the static rules; each fails on the unrepaired
//! tree and passes once the corresponding `fix:` commit is in /repo.
use hc_triage::Disk;
use hypercore::{
    generate_signing_key, DataUpgrade, Hypercore, HypercoreBuilder, PartialKeypair, Proof, RequestBlock, RequestUpgrade, Store,
};

fn keys() -> PartialKeypair {
    let k = generate_signing_key();
    PartialKeypair { public: k.verifying_key(), secret: Some(k) }
}
async fn create(d: &Disk, kp: PartialKeypair) -> Hypercore {
    HypercoreBuilder::new(d.storage().await).key_pair(kp).build().await.unwrap()
}
async fn reopen(d: &Disk) -> Result<Hypercore, hypercore::HypercoreError> {
    HypercoreBuilder::new(d.storage().await).open(true).build().await
}

/// D1 (C01.R1 / C06.R2): a clear that is only in the oplog is lost on reopen.
#[tokio::test]
async fn d1_unflushed_clear_survives_reopen() {
    let d = Disk::new();
    let mut c = create(&d, keys()).await;
    c.append(b"a").await.unwrap();
    c.append(b"b").await.unwrap();
    c.clear(0, 1).await.unwrap();
    assert!(!c.has(0));
    drop(c);
    let mut c = reopen(&d).await.unwrap();
    assert!(!c.has(0), "cleared block 0 is reported as held again after reopen");
    assert_eq!(c.get(0).await.unwrap(), None);
    assert_eq!(c.get(1).await.unwrap(), Some(b"b".to_vec()));
    assert_eq!(c.info().length, 2);
}

fn set_partial_bit(oplog: &mut [u8], at: usize) {
    let combined = u32::from_le_bytes(oplog[at + 4..at + 8].try_into().unwrap());
    let len = (combined >> 2) as usize;
    oplog[at + 4..at + 8].copy_from_slice(&(combined | 2).to_le_bytes());
    let crc = crc32fast::hash(&oplog[at + 4..at + 8 + len]);
    oplog[at..at + 4].copy_from_slice(&crc.to_le_bytes());
}

/// D2 (C06.R8): a log that ends in an entry flagged partial (unfinished atomic batch, as the
/// JavaScript writer produces) must open, ignoring that entry.
#[tokio::test(flavor = "multi_thread", worker_threads = 2)]
async fn d2_trailing_partial_entry_is_ignored() {
    let d = Disk::new();
    let mut c = create(&d, keys()).await;
    c.append(b"a").await.unwrap(); // flushed
    c.append(b"b").await.unwrap(); // entry 1 in the log
    c.append(b"c").await.unwrap(); // entry 2 in the log
    drop(c);
    let mut oplog = d.read_all(Store::Oplog).await;
    // find the second entry: skip the first
    let first_len = (u32::from_le_bytes(oplog[8192 + 4..8192 + 8].try_into().unwrap()) >> 2) as usize;
    let second = 8192 + 8 + first_len;
    set_partial_bit(&mut oplog, second);
    d.write_raw(Store::Oplog, 0, &oplog).await;
    // open on its own thread: an endless loop inside open must not block the test harness
    let (tx, rx) = std::sync::mpsc::channel();
    let d2 = d.clone();
    std::thread::spawn(move || {
        let rt = tokio::runtime::Builder::new_current_thread().enable_all().build().unwrap();
        let r = rt.block_on(async move { reopen(&d2).await.map(|c| c.info().length) });
        let _ = tx.send(r);
    });
    let len = rx
        .recv_timeout(std::time::Duration::from_secs(10))
        .expect("Oplog::open does not terminate on a trailing partial entry")
        .unwrap();
    assert_eq!(len, 2, "the complete entry is applied, the trailing partial one ignored");
}

/// D3 + D4 + D12 (C02.R7, C02.R8, C07.R3): crash in the middle of a flush (header written, log not
/// yet truncated), reopen, then crash right after the next entry write.  The stale entries of the
/// previous header generation must not be replayed over the new entry.
#[tokio::test]
async fn d3_stale_entries_are_not_replayed() {
    let d = Disk::new();
    let mut c = create(&d, keys()).await;
    for i in 0..4u8 {
        c.append(&[b'a' + i]).await.unwrap(); // op1 flushes, ops 2-4 stay in the log
    }
    // fifth append: data write, entry write, then the flush: bitfield, tree(+), header, truncate.
    // Let everything through except the final truncate.
    let before = d.ops();
    let mut probe = Disk::new();
    std::mem::swap(&mut probe, &mut Disk::new());
    // count the operations of that append on a twin run to find the truncate's ordinal
    let twin = Disk::new();
    {
        let mut t = create(&twin, keys()).await;
        for i in 0..4u8 {
            t.append(&[b'a' + i]).await.unwrap();
        }
        let b = twin.ops();
        t.append(b"e").await.unwrap();
        let n = twin.ops() - b;
        assert!(twin.ctl.lock().unwrap().log.last().unwrap().contains("truncate"));
        d.crash_after(n - 1);
    }
    let r = c.append(b"e").await;
    assert!(r.is_err(), "the append whose flush was cut must report the failure");
    assert!(d.ops() > before);
    drop(c);
    d.heal();
    // recovered: either 4 or 5 blocks
    let mut c = reopen(&d).await.expect("reopen after a crash before the truncate");
    let len = c.info().length;
    assert!(len == 4 || len == 5, "before-or-after, got {len}");
    // next append: data + entry written, crash before its flush
    d.crash_after(2);
    let _ = c.append(b"f").await;
    drop(c);
    d.heal();
    let mut c = reopen(&d).await.expect("reopen after a crash right after an entry write");
    let len2 = c.info().length;
    assert!(len2 == len || len2 == len + 1, "before-or-after of the interrupted append: was {len}, now {len2}");
    for i in 0..len2 {
        assert!(c.has(i), "block {i} below length {len2} must be held");
        assert!(c.get(i).await.unwrap().is_some());
    }
    assert!(!c.has(len2), "no block at or beyond the length ({len2})");
}

/// D4 (C02.R8): entries written after a reopen must not overwrite acknowledged, unflushed ones.
#[tokio::test]
async fn d4_acknowledged_append_survives_reopen_then_crash() {
    let d = Disk::new();
    let mut c = create(&d, keys()).await;
    c.append(b"a").await.unwrap(); // flushed
    c.append(b"b").await.unwrap(); // acknowledged, only in the log
    c.append(b"c").await.unwrap(); // acknowledged, only in the log
    drop(c);
    let mut c = reopen(&d).await.unwrap();
    assert_eq!(c.info().length, 3);
    // the next append gets its data and entry written, then the process dies
    d.crash_after(2);
    let _ = c.append(b"d").await;
    drop(c);
    d.heal();
    let mut c = reopen(&d).await.expect("reopen");
    let len = c.info().length;
    assert!(len == 3 || len == 4, "acknowledged appends b and c must survive: length {len}");
    assert_eq!(c.get(1).await.unwrap(), Some(b"b".to_vec()));
    assert_eq!(c.get(2).await.unwrap(), Some(b"c".to_vec()));
}

/// D5 (C06.R5 / C08.R2): a bitfield of more than one 4096-byte page must load.
#[tokio::test]
async fn d5_two_page_bitfield_reopens() {
    let d = Disk::new();
    let mut c = create(&d, keys()).await;
    let blocks: Vec<Vec<u8>> = (0..40000u32).map(|i| vec![(i % 251) as u8]).collect();
    c.append_batch(&blocks).await.unwrap(); // first op: flushed
    drop(c);
    let c = reopen(&d).await.unwrap();
    assert_eq!(c.info().length, 40000);
    for i in [0u64, 1, 8191, 8192, 32767, 32768, 39999] {
        assert!(c.has(i), "block {i} is held");
    }
    for i in [40000u64, 40965, 65535, 65536, 70000] {
        assert!(!c.has(i), "block {i} was never written");
    }
    assert_eq!(c.info().contiguous_length, 40000);
}

async fn writer_with(n: u8) -> (Hypercore, PartialKeypair) {
    let kp = keys();
    let d = Disk::new();
    let mut w = create(&d, kp.clone()).await;
    for i in 0..n {
        w.append(&[b'a' + i]).await.unwrap();
    }
    (w, kp)
}
async fn replica(kp: &PartialKeypair) -> Hypercore {
    let d = Disk::new();
    HypercoreBuilder::new(d.storage().await).key_pair(PartialKeypair { public: kp.public, secret: None }).build().await.unwrap()
}

/// D6 (C03.R2 / C09.R1): honest proof of block 2 with upgrade 0..3 on an empty replica.
#[tokio::test]
async fn d6_block_beyond_first_root_on_empty_replica() {
    let (mut w, kp) = writer_with(3).await;
    let mut r = replica(&kp).await;
    let proof = w
        .create_proof(Some(RequestBlock { index: 2, nodes: 0 }), None, None, Some(RequestUpgrade { start: 0, length: 3 }))
        .await
        .unwrap()
        .unwrap();
    assert!(r.verify_and_apply_proof(&proof).await.unwrap());
    assert_eq!(r.get(2).await.unwrap(), Some(b"c".to_vec()));
    assert_eq!(r.info().length, 3);
    // and the rest, in any order, lands at the writer's offsets
    for i in [0u64, 1] {
        let nodes = r.missing_nodes(i).await.unwrap();
        let p = w.create_proof(Some(RequestBlock { index: i, nodes }), None, None, None).await.unwrap().unwrap();
        assert!(r.verify_and_apply_proof(&p).await.unwrap());
    }
    for i in 0..3u64 {
        assert_eq!(r.get(i).await.unwrap(), w.get(i).await.unwrap());
    }
}

/// D7 (C09.R1): an upgrade to length 0 on an empty replica must be an error, not a panic.
#[tokio::test]
async fn d7_empty_upgrade_is_an_error() {
    let (_w, kp) = writer_with(1).await;
    let mut r = replica(&kp).await;
    let proof = Proof {
        fork: 0,
        block: None,
        hash: None,
        seek: None,
        upgrade: Some(DataUpgrade { start: 0, length: 0, nodes: vec![], additional_nodes: vec![], signature: vec![0; 64] }),
    };
    let res = r.verify_and_apply_proof(&proof).await;
    assert!(matches!(res, Err(_) | Ok(false)), "refused");
    assert_eq!(r.info().length, 0);
}

/// D8 (C09.R1): a request for a block beyond the requested upgrade range must be an error.
#[tokio::test]
async fn d8_block_beyond_upgrade_range_is_an_error() {
    let (mut w, _kp) = writer_with(10).await;
    let res = w
        .create_proof(Some(RequestBlock { index: 9, nodes: 0 }), None, None, Some(RequestUpgrade { start: 0, length: 5 }))
        .await;
    assert!(res.is_err(), "invalid request is refused with an error");
    // the core is still usable
    assert!(w.create_proof(Some(RequestBlock { index: 4, nodes: 2 }), None, None, None).await.unwrap().is_some());
}

/// D12 (C07.R3): a torn header write falls back to the other slot.
#[tokio::test]
async fn d12_torn_header_falls_back() {
    let d = Disk::new();
    let mut c = create(&d, keys()).await;
    // flushes happen at operations 1, 5, 9: three header writes alternate the slots, so the
    // third overwrites the slot of the first; tear it.
    for i in 0..8u8 {
        c.append(&[i]).await.unwrap();
    }
    // ninth append flushes: data, entry, bitfield, tree.., header (torn), truncate (never)
    let twin = Disk::new();
    let k = {
        let mut t = create(&twin, keys()).await;
        for i in 0..8u8 {
            t.append(&[i]).await.unwrap();
        }
        let b = twin.ops();
        t.append(b"x").await.unwrap();
        let log = twin.ctl.lock().unwrap().log.clone();
        let hdr = log.iter().rposition(|l| l.contains("oplog write")).unwrap();
        hdr - b
    };
    {
        let mut ctl = d.ctl.lock().unwrap();
        let at = ctl.ops + k;
        ctl.tear = Some((at, 20));
    }
    let _ = c.append(b"x").await;
    drop(c);
    d.heal();
    let mut c = reopen(&d).await.expect("a half-written header slot falls back to the other slot");
    let len = c.info().length;
    assert!(len == 8 || len == 9, "before-or-after, got {len}");
    for i in 0..len {
        assert!(c.get(i).await.unwrap().is_some());
    }
}

/// D13 (C08.R3): a clear in the middle of the contiguous range that is only in the oplog must
/// lower the contiguous length when it is replayed on reopen, as it did in memory.
#[tokio::test]
async fn d13_replayed_clear_lowers_contiguous_length() {
    let d = Disk::new();
    let mut c = create(&d, keys()).await;
    let blocks: Vec<Vec<u8>> = (0..10u8).map(|i| vec![i]).collect();
    c.append_batch(&blocks).await.unwrap(); // first operation: flushed, header hint = 10
    assert_eq!(c.info().contiguous_length, 10);
    c.clear(2, 5).await.unwrap(); // entry only in the oplog
    assert_eq!(c.info().contiguous_length, 2);
    drop(c);
    let c = reopen(&d).await.unwrap();
    assert!(!c.has(2));
    assert_eq!(c.info().contiguous_length, 2, "contiguous length must equal the smallest index that is not held");
}

/// D14 (C12 / C02, reported as a side finding by a seeding sub-agent): a crash inside
/// make_read_only — whose flush rewrites BOTH header slots and then truncates the log — must
/// recover a core (writable or read-only) with all data, whatever the number of entries that were
/// only in the oplog.
#[tokio::test]
async fn d14_crash_during_make_read_only_recovers() {
    for n in 1..=8u8 {
        // how many mutating storage operations does make_read_only issue for this history?
        let total = {
            let d = Disk::new();
            let mut c = create(&d, keys()).await;
            for i in 0..n {
                c.append(&[i]).await.unwrap();
            }
            let b = d.ops();
            assert!(c.make_read_only().await.unwrap());
            d.ops() - b
        };
        for k in 0..total {
            let d = Disk::new();
            let mut c = create(&d, keys()).await;
            for i in 0..n {
                c.append(&[i]).await.unwrap();
            }
            {
                let mut ctl = d.ctl.lock().unwrap();
                ctl.crash_at = Some(ctl.ops + k);
            }
            let _ = c.make_read_only().await;
            drop(c);
            d.heal();
            let mut c = match reopen(&d).await {
                Ok(c) => c,
                Err(e) => panic!("{n} appends, crash before operation {k} of {total} of make_read_only: reopen fails: {e}"),
            };
            assert_eq!(c.info().length, n as u64, "{n} appends, crash before operation {k} of {total}: length after recovery");
            for i in 0..n as u64 {
                assert_eq!(c.get(i).await.unwrap(), Some(vec![i as u8]), "{n} appends, crash before operation {k}: block {i}");
            }
        }
    }
}

/// D15 (C09, reported as a side finding by a seeding sub-agent in round 6): a request with a hash
/// node BELOW the upgrade start whose span reaches INTO the upgrade range, together with a seek and
/// an upgrade, passes the "seek + block/hash inside the upgrade range" refusal (its index is below
/// `from`) but is not treated as trusted either (its last index is not below upgrade.start); the
/// upgrade proof then asks block_and_seek_proof to climb from that node to a root that is not its
/// ancestor.  The climb never ends (debug: multiply overflow panic in node()).
#[test]
fn d15_hash_seek_upgrade_request_returns() {
    use hypercore::RequestSeek;
    let (tx, rx) = std::sync::mpsc::channel();
    std::thread::spawn(move || {
        let rt = tokio::runtime::Builder::new_current_thread().enable_all().build().unwrap();
        let r = std::panic::catch_unwind(std::panic::AssertUnwindSafe(|| {
            rt.block_on(async {
                let d = Disk::new();
                let mut c = create(&d, keys()).await;
                for i in 0..8u8 {
                    c.append(&[i]).await.unwrap();
                }
                let r = c
                    .create_proof(None, Some(RequestBlock { index: 3, nodes: 0 }), Some(RequestSeek { bytes: 3 }), Some(RequestUpgrade { start: 2, length: 6 }))
                    .await;
                // whatever the answer, the core must still serve an ordinary request
                let ok = c.create_proof(Some(RequestBlock { index: 1, nodes: 0 }), None, None, Some(RequestUpgrade { start: 0, length: 8 })).await;
                (r.map(|p| p.is_some()).map_err(|e| e.to_string()), ok.is_ok())
            })
        }));
        let _ = tx.send(r.map_err(|e| e.downcast_ref::<String>().cloned().or_else(|| e.downcast_ref::<&str>().map(|s| s.to_string())).unwrap_or_default()));
    });
    match rx.recv_timeout(std::time::Duration::from_secs(60)) {
        Ok(Ok((answer, usable))) => {
            assert!(usable, "the core is not usable after the request (answer was {answer:?})");
        }
        Ok(Err(panic)) => panic!("create_proof panicked: {panic}"),
        Err(_) => panic!("create_proof did not return within 60 s"),
    }
}
