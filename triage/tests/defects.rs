//! One test per defect found by the static rules; each fails on the unrepaired
//! tree and passes once the corresponding `fix:` commit is in /repo.
use hc_triage::Disk;
use hypercore::{
    generate_signing_key, DataUpgrade, Hypercore, HypercoreBuilder, PartialKeypair, Proof, RequestBlock, RequestUpgrade, Store,
};

fn keys() -> PartialKeypair {
    let k = generate_signing_key();
    PartialKeypair { public: k.verifying_key(), secret: Some(k) }
}
async fn create(d: &Disk, kp: PartialKeypair) -> Hypercore {
    HypercoreBuilder::new(d.storage().await).key_pair(kp).build().await.unwrap()
}
async fn reopen(d: &Disk) -> Result<Hypercore, hypercore::HypercoreError> {
    HypercoreBuilder::new(d.storage().await).open(true).build().await
}

/// D1 (C01.R1 / C06.R2): a clear that is only in the oplog is lost on reopen.
#[tokio::test]
async fn d1_unflushed_clear_survives_reopen() {
    let d = Disk::new();
    let mut c = create(&d, keys()).await;
    c.append(b"a").await.unwrap();
    c.append(b"b").await.unwrap();
    c.clear(0, 1).await.unwrap();
    assert!(!c.has(0));
    drop(c);
    let mut c = reopen(&d).await.unwrap();
    assert!(!c.has(0), "cleared block 0 is reported as held again after reopen");
    assert_eq!(c.get(0).await.unwrap(), None);
    assert_eq!(c.get(1).await.unwrap(), Some(b"b".to_vec()));
    assert_eq!(c.info().length, 2);
}

fn set_partial_bit(oplog: &mut [u8], at: usize) {
    let combined = u32::from_le_bytes(oplog[at + 4..at + 8].try_into().unwrap());
    let len = (combined >> 2) as usize;
    oplog[at + 4..at + 8].copy_from_slice(&(combined | 2).to_le_bytes());
    let crc = crc32fast::hash(&oplog[at + 4..at + 8 + len]);
    oplog[at..at + 4].copy_from_slice(&crc.to_le_bytes());
}

/// D2 (C06.R8): a log that ends in an entry flagged partial (unfinished atomic batch, as the
/// JavaScript writer produces) must open, ignoring that entry.
#[tokio::test(flavor = "multi_thread", worker_threads = 2)]
async fn d2_trailing_partial_entry_is_ignored() {
    let d = Disk::new();
    let mut c = create(&d, keys()).await;
    c.append(b"a").await.unwrap(); // flushed
    c.append(b"b").await.unwrap(); // entry 1 in the log
    c.append(b"c").await.unwrap(); // entry 2 in the log
    drop(c);
    let mut oplog = d.read_all(Store::Oplog).await;
    // find the second entry: skip the first
    let first_len = (u32::from_le_bytes(oplog[8192 + 4..8192 + 8].try_into().unwrap()) >> 2) as usize;
    let second = 8192 + 8 + first_len;
    set_partial_bit(&mut oplog, second);
    d.write_raw(Store::Oplog, 0, &oplog).await;
    // open on its own thread: an endless loop inside open must not block the test harness
    let (tx, rx) = std::sync::mpsc::channel();
    let d2 = d.clone();
    std::thread::spawn(move || {
        let rt = tokio::runtime::Builder::new_current_thread().enable_all().build().unwrap();
        let r = rt.block_on(async move { reopen(&d2).await.map(|c| c.info().length) });
        let _ = tx.send(r);
    });
    let len = rx
        .recv_timeout(std::time::Duration::from_secs(10))
        .expect("Oplog::open does not terminate on a trailing partial entry")
        .unwrap();
    assert_eq!(len, 2, "the complete entry is applied, the trailing partial one ignored");
}

/// D3 + D4 + D12 (C02.R7, C02.R8, C07.R3): crash in the middle of a flush (header written, log not
/// yet truncated), reopen, then crash right after the next entry write.  The stale entries of the
/// previous header generation must not be replayed over the new entry.
#[tokio::test]
async fn d3_stale_entries_are_not_replayed() {
    let d = Disk::new();
    let mut c = create(&d, keys()).await;
    for i in 0..4u8 {
        c.append(&[b'a' + i]).await.unwrap(); // op1 flushes, ops 2-4 stay in the log
    }
    // fifth append: data write, entry write, then the flush: bitfield, tree(+), header, truncate.
    // Let everything through except the final truncate.
    let before = d.ops();
    let mut probe = Disk::new();
    std::mem::swap(&mut probe, &mut Disk::new());
    // count the operations of that append on a twin run to find the truncate's ordinal
    let twin = Disk::new();
    {
        let mut t = create(&twin, keys()).await;
        for i in 0..4u8 {
            t.append(&[b'a' + i]).await.unwrap();
        }
        let b = twin.ops();
        t.append(b"e").await.unwrap();
        let n = twin.ops() - b;
        assert!(twin.ctl.lock().unwrap().log.last().unwrap().contains("truncate"));
        d.crash_after(n - 1);
    }
    let r = c.append(b"e").await;
    assert!(r.is_err(), "the append whose flush was cut must report the failure");
    assert!(d.ops() > before);
    drop(c);
    d.heal();
    // recovered: either 4 or 5 blocks
    let mut c = reopen(&d).await.expect("reopen after a crash before the truncate");
    let len = c.info().length;
    assert!(len == 4 || len == 5, "before-or-after, got {len}");
    // next append: data + entry written, crash before its flush
    d.crash_after(2);
    let _ = c.append(b"f").await;
    drop(c);
    d.heal();
    let mut c = reopen(&d).await.expect("reopen after a crash right after an entry write");
    let len2 = c.info().length;
    assert!(len2 == len || len2 == len + 1, "before-or-after of the interrupted append: was {len}, now {len2}");
    for i in 0..len2 {
        assert!(c.has(i), "block {i} below length {len2} must be held");
        assert!(c.get(i).await.unwrap().is_some());
    }
    assert!(!c.has(len2), "no block at or beyond the length ({len2})");
}

/// D4 (C02.R8): entries written after a reopen must not overwrite acknowledged, unflushed ones.
#[tokio::test]
async fn d4_acknowledged_append_survives_reopen_then_crash() {
    let d = Disk::new();
    let mut c = create(&d, keys()).await;
    c.append(b"a").await.unwrap(); // flushed
    c.append(b"b").await.unwrap(); // acknowledged, only in the log
    c.append(b"c").await.unwrap(); // acknowledged, only in the log
    drop(c);
    let mut c = reopen(&d).await.unwrap();
    assert_eq!(c.info().length, 3);
    // the next append gets its data and entry written, then the process dies
    d.crash_after(2);
    let _ = c.append(b"d").await;
    drop(c);
    d.heal();
    let mut c = reopen(&d).await.expect("reopen");
    let len = c.info().length;
    assert!(len == 3 || len == 4, "acknowledged appends b and c must survive: length {len}");
    assert_eq!(c.get(1).await.unwrap(), Some(b"b".to_vec()));
    assert_eq!(c.get(2).await.unwrap(), Some(b"c".to_vec()));
}

/// D5 (C06.R5 / C08.R2): a bitfield of more than one 4096-byte page must load.
#[tokio::test]
async fn d5_two_page_bitfield_reopens() {
    let d = Disk::new();
    let mut c = create(&d, keys()).await;
    let blocks: Vec<Vec<u8>> = (0..40000u32).map(|i| vec![(i % 251) as u8]).collect();
    c.append_batch(&blocks).await.unwrap(); // first op: flushed
    drop(c);
    let c = reopen(&d).await.unwrap();
    assert_eq!(c.info().length, 40000);
    for i in [0u64, 1, 8191, 8192, 32767, 32768, 39999] {
        assert!(c.has(i), "block {i} is held");
    }
    for i in [40000u64, 40965, 65535, 65536, 70000] {
        assert!(!c.has(i), "block {i} was never written");
    }
    assert_eq!(c.info().contiguous_length, 40000);
}

async fn writer_with(n: u8) -> (Hypercore, PartialKeypair) {
    let kp = keys();
    let d = Disk::new();
    let mut w = create(&d, kp.clone()).await;
    for i in 0..n {
        w.append(&[b'a' + i]).await.unwrap();
    }
    (w, kp)
}
async fn replica(kp: &PartialKeypair) -> Hypercore {
    let d = Disk::new();
    HypercoreBuilder::new(d.storage().await).key_pair(PartialKeypair { public: kp.public, secret: None }).build().await.unwrap()
}

/// D6 (C03.R2 / C09.R1): honest proof of block 2 with upgrade 0..3 on an empty replica.
#[tokio::test]
async fn d6_block_beyond_first_root_on_empty_replica() {
    let (mut w, kp) = writer_with(3).await;
    let mut r = replica(&kp).await;
    let proof = w
        .create_proof(Some(RequestBlock { index: 2, nodes: 0 }), None, None, Some(RequestUpgrade { start: 0, length: 3 }))
        .await
        .unwrap()
        .unwrap();
    assert!(r.verify_and_apply_proof(&proof).await.unwrap());
    assert_eq!(r.get(2).await.unwrap(), Some(b"c".to_vec()));
    assert_eq!(r.info().length, 3);
    // and the rest, in any order, lands at the writer's offsets
    for i in [0u64, 1] {
        let nodes = r.missing_nodes(i).await.unwrap();
        let p = w.create_proof(Some(RequestBlock { index: i, nodes }), None, None, None).await.unwrap().unwrap();
        assert!(r.verify_and_apply_proof(&p).await.unwrap());
    }
    for i in 0..3u64 {
        assert_eq!(r.get(i).await.unwrap(), w.get(i).await.unwrap());
    }
}

/// D7 (C09.R1): an upgrade to length 0 on an empty replica must be an error, not a panic.
#[tokio::test]
async fn d7_empty_upgrade_is_an_error() {
    let (_w, kp) = writer_with(1).await;
    let mut r = replica(&kp).await;
    let proof = Proof {
        fork: 0,
        block: None,
        hash: None,
        seek: None,
        upgrade: Some(DataUpgrade { start: 0, length: 0, nodes: vec![], additional_nodes: vec![], signature: vec![0; 64] }),
    };
    let res = r.verify_and_apply_proof(&proof).await;
    assert!(matches!(res, Err(_) | Ok(false)), "refused");
    assert_eq!(r.info().length, 0);
}

/// D8 (C09.R1): a request for a block beyond the requested upgrade range must be an error.
#[tokio::test]
async fn d8_block_beyond_upgrade_range_is_an_error() {
    let (mut w, _kp) = writer_with(10).await;
    let res = w
        .create_proof(Some(RequestBlock { index: 9, nodes: 0 }), None, None, Some(RequestUpgrade { start: 0, length: 5 }))
        .await;
    assert!(res.is_err(), "invalid request is refused with an error");
    // the core is still usable
    assert!(w.create_proof(Some(RequestBlock { index: 4, nodes: 2 }), None, None, None).await.unwrap().is_some());
}

/// D12 (C07.R3): a torn header write falls back to the other slot.
#[tokio::test]
async fn d12_torn_header_falls_back() {
    let d = Disk::new();
    let mut c = create(&d, keys()).await;
    // flushes happen at operations 1, 5, 9: three header writes alternate the slots, so the
    // third overwrites the slot of the first; tear it.
    for i in 0..8u8 {
        c.append(&[i]).await.unwrap();
    }
    // ninth append flushes: data, entry, bitfield, tree.., header (torn), truncate (never)
    let twin = Disk::new();
    let k = {
        let mut t = create(&twin, keys()).await;
        for i in 0..8u8 {
            t.append(&[i]).await.unwrap();
        }
        let b = twin.ops();
        t.append(b"x").await.unwrap();
        let log = twin.ctl.lock().unwrap().log.clone();
        let hdr = log.iter().rposition(|l| l.contains("oplog write")).unwrap();
        hdr - b
    };
    {
        let mut ctl = d.ctl.lock().unwrap();
        let at = ctl.ops + k;
        ctl.tear = Some((at, 20));
    }
    let _ = c.append(b"x").await;
    drop(c);
    d.heal();
    let mut c = reopen(&d).await.expect("a half-written header slot falls back to the other slot");
    let len = c.info().length;
    assert!(len == 8 || len == 9, "before-or-after, got {len}");
    for i in 0..len {
        assert!(c.get(i).await.unwrap().is_some());
    }
}

/// D13 (C08.R3): a clear in the middle of the contiguous range that is only in the oplog must
/// lower the contiguous length when it is replayed on reopen, as it did in memory.
#[tokio::test]
async fn d13_replayed_clear_lowers_contiguous_length() {
    let d = Disk::new();
    let mut c = create(&d, keys()).await;
    let blocks: Vec<Vec<u8>> = (0..10u8).map(|i| vec![i]).collect();
    c.append_batch(&blocks).await.unwrap(); // first operation: flushed, header hint = 10
    assert_eq!(c.info().contiguous_length, 10);
    c.clear(2, 5).await.unwrap(); // entry only in the oplog
    assert_eq!(c.info().contiguous_length, 2);
    drop(c);
    let c = reopen(&d).await.unwrap();
    assert!(!c.has(2));
    assert_eq!(c.info().contiguous_length, 2, "contiguous length must equal the smallest index that is not held");
}

/// D14 (C12 / C02, reported as a side finding by a seeding sub-agent): a crash inside
/// make_read_only — whose flush rewrites BOTH header slots and then truncates the log — must
/// recover a core (writable or read-only) with all data, whatever the number of entries that were
/// only in the oplog.
#[tokio::test]
async fn d14_crash_during_make_read_only_recovers() {
    for n in 1..=8u8 {
        // how many mutating storage operations does make_read_only issue for this history?
        let total = {
            let d = Disk::new();
            let mut c = create(&d, keys()).await;
            for i in 0..n {
                c.append(&[i]).await.unwrap();
            }
            let b = d.ops();
            assert!(c.make_read_only().await.unwrap());
            d.ops() - b
        };
        for k in 0..total {
            let d = Disk::new();
            let mut c = create(&d, keys()).await;
            for i in 0..n {
                c.append(&[i]).await.unwrap();
            }
            {
                let mut ctl = d.ctl.lock().unwrap();
                ctl.crash_at = Some(ctl.ops + k);
            }
            let _ = c.make_read_only().await;
            drop(c);
            d.heal();
            let mut c = match reopen(&d).await {
                Ok(c) => c,
                Err(e) => panic!("{n} appends, crash before operation {k} of {total} of make_read_only: reopen fails: {e}"),
            };
            assert_eq!(c.info().length, n as u64, "{n} appends, crash before operation {k} of {total}: length after recovery");
            for i in 0..n as u64 {
                assert_eq!(c.get(i).await.unwrap(), Some(vec![i as u8]), "{n} appends, crash before operation {k}: block {i}");
            }
        }
    }
}

/// D15 (C09, reported as a side finding by a seeding sub-agent in round 6): a request with a hash
/// node BELOW the upgrade start whose span reaches INTO the upgrade range, together with a seek and
/// an upgrade, passes the "seek + block/hash inside the upgrade range" refusal (its index is below
/// `from`) but is not treated as trusted either (its last index is not below upgrade.start); the
/// upgrade proof then asks block_and_seek_proof to climb from that node to a root that is not its
/// ancestor.  The climb never ends (debug: multiply overflow panic in node()).
#[test]
fn d15_hash_seek_upgrade_request_returns() {
    use hypercore::RequestSeek;
    let (tx, rx) = std::sync::mpsc::channel();
    std::thread::spawn(move || {
        let rt = tokio::runtime::Builder::new_current_thread().enable_all().build().unwrap();
        let r = std::panic::catch_unwind(std::panic::AssertUnwindSafe(|| {
            rt.block_on(async {
                let d = Disk::new();
                let mut c = create(&d, keys()).await;
                for i in 0..8u8 {
                    c.append(&[i]).await.unwrap();
                }
                let r = c
                    .create_proof(None, Some(RequestBlock { index: 3, nodes: 0 }), Some(RequestSeek { bytes: 3 }), Some(RequestUpgrade { start: 2, length: 6 }))
                    .await;
                // whatever the answer, the core must still serve an ordinary request
                let ok = c.create_proof(Some(RequestBlock { index: 1, nodes: 0 }), None, None, Some(RequestUpgrade { start: 0, length: 8 })).await;
                (r.map(|p| p.is_some()).map_err(|e| e.to_string()), ok.is_ok())
            })
        }));
        let _ = tx.send(r.map_err(|e| e.downcast_ref::<String>().cloned().or_else(|| e.downcast_ref::<&str>().map(|s| s.to_string())).unwrap_or_default()));
    });
    match rx.recv_timeout(std::time::Duration::from_secs(60)) {
        Ok(Ok((answer, usable))) => {
            assert!(usable, "the core is not usable after the request (answer was {answer:?})");
        }
        Ok(Err(panic)) => panic!("create_proof panicked: {panic}"),
        Err(_) => panic!("create_proof did not return within 60 s"),
    }
}

/// D16 (C11, found by a defect-hunting sub-agent): a node whose index has 62 or more trailing
/// one-bits — 2^64-1 is one of the varint boundaries C11 quantifies over — is a valid encoding;
/// decoding it must give the value back, not panic inside flat_tree::parent (Node::new computed the
/// parent index eagerly, and that function is not defined for such depths).
#[test]
fn d16_node_with_maximal_index_round_trips() {
    use compact_encoding::CompactEncoding;
    use hypercore::Node;
    for index in [u64::MAX, (1u64 << 62) - 1, (1u64 << 63) - 1, (1u64 << 63) + (1u64 << 62) - 1, 7, 0] {
        let mut bytes: Vec<u8> = Vec::new();
        if index <= 0xfc {
            bytes.push(index as u8);
        } else {
            bytes.push(0xff);
            bytes.extend_from_slice(&index.to_le_bytes());
        }
        bytes.push(0); // length
        bytes.extend_from_slice(&[9u8; 32]); // hash
        let r = std::panic::catch_unwind(|| Node::decode(&bytes).map(|(n, rest)| (n, rest.len())));
        let (node, left) = r.unwrap_or_else(|_| panic!("Node::decode panicked for index {index}")).expect("a valid encoding decodes");
        assert_eq!(left, 0);
        let mut out = vec![0u8; node.encoded_size().unwrap()];
        node.encode(&mut out).unwrap();
        assert_eq!(out, bytes, "index {index}");
    }
}

/// D25 (C11, found by a defect-hunting sub-agent in round 3): decoding the encoding of a node gives
/// the node back — also for the blank nodes the crate builds itself.  `Node::new_blank` filled the
/// fields that are not on the wire differently from `Node::new` (parent 0 for every index, no data
/// vector), so a blank node was not equal to its own decoding and reported 0 as its parent.
#[test]
fn d25_blank_node_equals_its_decoding() {
    use compact_encoding::CompactEncoding;
    use hypercore::Node;
    for index in [0u64, 1, 2, 3, 7, 252, 253, 65535, 65536, (1u64 << 32) - 1, 1u64 << 32, u64::MAX] {
        let node = Node::new_blank(index);
        let mut out = vec![0u8; node.encoded_size().unwrap()];
        node.encode(&mut out).unwrap();
        let (back, rest) = Node::decode(&out).unwrap();
        assert!(rest.is_empty());
        assert_eq!(back, node, "blank node {index}");
        assert_eq!(node, Node::new(index, vec![0; 32], 0), "blank node {index} vs Node::new");
    }
}

/// D17 (C06 "a store written by the JavaScript implementation opens and is operated on", C11; the
/// 2-byte hash was noticed early and wrongly judged unreachable): `Node::new_blank` built its hash as
/// `vec![0, 32]` (two bytes) instead of 32 zero bytes.  A blank node announces 34 bytes and cannot be
/// encoded; commit_truncation puts blank nodes into `unflushed` whenever a replayed truncation cuts
/// through a subtree (JS `core.truncate(3)` of a 4-block core, entry still in the log), and the next
/// flush panicked in flush_nodes ("Encoding u64 should not fail").
#[tokio::test]
async fn d17_replayed_truncation_through_a_subtree_flushes() {
    use blake2::{digest::typenum::U32, Blake2b, Digest};
    use compact_encoding::CompactEncoding;
    let n = hypercore::Node::new_blank(4);
    let mut buf = vec![0u8; n.encoded_size().unwrap()];
    assert!(n.encode(&mut buf).is_ok(), "a blank node announces {} bytes but cannot be encoded", buf.len());

    const TREE: [u8; 32] = [
        0x9F, 0xAC, 0x70, 0xB5, 0x0C, 0xA1, 0x4E, 0xFC, 0x4E, 0x91, 0xC8, 0x33, 0xB2, 0x04, 0xE7, 0x5B, 0x8B, 0x5A, 0xAD, 0x8B, 0x58, 0x81, 0xBF, 0xC0, 0xAD, 0xB5, 0xEF, 0x38, 0xA3, 0x27,
        0x5B, 0x9C,
    ];
    let d = Disk::new();
    let kp = keys();
    let secret = kp.secret.clone().unwrap();
    let mut c = create(&d, kp).await;
    c.append_batch([b"a", b"b", b"c", b"d"]).await.unwrap(); // flushed: 7 tree nodes, no log entries
    drop(c);
    let mut oplog = d.read_all(Store::Oplog).await;
    assert_eq!(oplog.len(), 8192);
    let tree = d.read_all(Store::Tree).await;
    // JS core.truncate(3): roots 1 (blocks 0, 1) and 4 (block 2), fork 1
    let mut h = Blake2b::<U32>::new();
    h.update([2u8]);
    for idx in [1u64, 4u64] {
        let rec = &tree[idx as usize * 40..idx as usize * 40 + 40];
        h.update(&rec[8..]);
        h.update(idx.to_le_bytes());
        h.update(&rec[..8]);
    }
    let tree_hash = h.finalize();
    let mut signable = TREE.to_vec();
    signable.extend_from_slice(&tree_hash);
    signable.extend_from_slice(&3u64.to_le_bytes());
    signable.extend_from_slice(&1u64.to_le_bytes());
    let signature = hypercore::sign(&secret, &signable);
    let mut entry: Vec<u8> = vec![2 | 4 | 8, 0, 1, 3, 3, 64];
    entry.extend_from_slice(&signature.to_bytes());
    entry.extend_from_slice(&[1, 3, 1]); // bitfield: drop, start 3, length 1
    // current header bit, the way oplog.js decides it
    let slot_bit = |s: usize| {
        let b = &oplog[s * 4096..(s + 1) * 4096];
        let combined = u32::from_le_bytes(b[4..8].try_into().unwrap());
        let len = (combined >> 2) as usize;
        (len != 0 && 8 + len <= 4096 && crc32fast::hash(&b[4..8 + len]) == u32::from_le_bytes(b[0..4].try_into().unwrap())).then_some(combined & 1 == 1)
    };
    let bit = match (slot_bit(0), slot_bit(1)) {
        (Some(a), Some(b)) => a != b,
        (Some(_), None) => false,
        (None, Some(_)) => true,
        _ => panic!("no valid header"),
    };
    let combined: u32 = ((entry.len() as u32) << 2) | bit as u32;
    let mut zone = combined.to_le_bytes().to_vec();
    zone.extend_from_slice(&entry);
    let mut framed = crc32fast::hash(&zone).to_le_bytes().to_vec();
    framed.extend_from_slice(&zone);
    oplog.extend_from_slice(&framed);
    d.write_raw(Store::Oplog, 0, &oplog).await;

    let mut c = reopen(&d).await.unwrap();
    assert_eq!(c.info().length, 3);
    assert_eq!(c.get(2).await.unwrap(), Some(b"c".to_vec()));
    // the first operation of the session flushes the tree: blank node 5 has to be written as zeros
    let d2 = d.clone();
    let r = tokio::spawn(async move {
        let _keep = d2;
        c.append(b"e").await.map(|_| c)
    })
    .await;
    let c = r.expect("the flush after a replayed truncation panicked").unwrap();
    assert_eq!(c.info().length, 4);
    drop(c);
    let mut c = reopen(&d).await.unwrap();
    assert_eq!(c.info().length, 4);
    assert_eq!(c.get(2).await.unwrap(), Some(b"c".to_vec()));
    assert_eq!(c.get(3).await.unwrap(), Some(b"e".to_vec()));
    assert_eq!(c.get(0).await.unwrap(), Some(b"a".to_vec()));
}

/// D18 (C01, found by four defect-hunting sub-agents independently): an empty block stays present
/// and readable whatever is cleared around it.  `clear` punches its hole up to the next held block;
/// when that is an empty block at the end of the data, the delete reaches the end of the file and
/// both backends truncate it — the empty block's offset then lies beyond the end, and the
/// zero-length read `get` still issued (and the zero-length delete a later `clear` issued) failed.
#[tokio::test]
async fn d18_empty_block_behind_a_cleared_tail() {
    for disk in [false, true] {
        let dir = tempdir_path("d18");
        let mut c = if disk {
            HypercoreBuilder::new(hypercore::Storage::new_disk(&dir, true).await.unwrap()).key_pair(keys()).build().await.unwrap()
        } else {
            HypercoreBuilder::new(hypercore::Storage::new_memory().await.unwrap()).key_pair(keys()).build().await.unwrap()
        };
        c.append(b"x").await.unwrap();
        c.append(b"").await.unwrap();
        assert_eq!(c.get(1).await.unwrap(), Some(vec![]));
        c.clear(0, 1).await.unwrap();
        assert!(c.has(1));
        assert_eq!(c.get(1).await.expect("an empty block that is held must be readable"), Some(vec![]), "disk = {disk}");
        assert_eq!(c.get(0).await.unwrap(), None);
        // second manifestation: a zero-length delete beyond the truncated end
        let mut c = HypercoreBuilder::new(hypercore::Storage::new_memory().await.unwrap()).key_pair(keys()).build().await.unwrap();
        c.append_batch([&b"a"[..], &b"b"[..], &b""[..], &b""[..]]).await.unwrap();
        c.clear(1, 2).await.unwrap();
        c.clear(3, 4).await.expect("clearing an empty block behind a cleared tail");
        assert_eq!(c.get(2).await.unwrap(), Some(vec![]));
        assert_eq!(c.get(3).await.unwrap(), None);
        assert_eq!(c.get(0).await.unwrap(), Some(b"a".to_vec()));
        let _ = std::fs::remove_dir_all(&dir);
    }
}

/// D22 (C01, found by a defect-hunting sub-agent in round 2): clearing a range again is a no-op,
/// not an error.  The data store shrinks when a hole reaches its end (both backends turn such a
/// delete into a truncate); a later clear of a block whose offset now lies beyond the end asked
/// the backend to delete past the end of the file, which both backends refuse.
#[tokio::test]
async fn d22_clearing_again_beyond_the_shrunk_store() {
    for disk in [false, true] {
        let dir = tempdir_path("d22");
        let mut c = if disk {
            HypercoreBuilder::new(hypercore::Storage::new_disk(&dir, true).await.unwrap()).key_pair(keys()).build().await.unwrap()
        } else {
            HypercoreBuilder::new(hypercore::Storage::new_memory().await.unwrap()).key_pair(keys()).build().await.unwrap()
        };
        c.append_batch([&b"a"[..], &b""[..], &b"b"[..]]).await.unwrap();
        c.clear(2, 3).await.unwrap(); // data store: 2 -> 1 bytes
        c.clear(0, 1).await.unwrap(); // data store: 1 -> 0 bytes
        c.clear(2, 3).await.expect("clearing a cleared block again");
        assert_eq!(c.get(0).await.unwrap(), None);
        assert_eq!(c.get(1).await.unwrap(), Some(vec![]), "disk = {disk}");
        assert_eq!(c.get(2).await.unwrap(), None);
        assert_eq!(c.info().length, 3);
        assert_eq!(c.info().byte_length, 2);
        let _ = std::fs::remove_dir_all(&dir);
    }
}

/// D23 (C14, found by a defect-hunting sub-agent in round 2): a node cache of a few nodes changes
/// no observation.  Four call sites gave the tree exactly two passes (clear's byte offset, the byte
/// offset of an applied block, verify_proof, the truncate of a replayed entry): the first pass found
/// a node in the cache and asked for the others, the cache evicted that node, and the second pass
/// asked for it — which those call sites answered with "Could not read offset ... from tree".
#[tokio::test]
async fn d23_a_tiny_node_cache_changes_no_observation() {
    use hypercore::CacheOptionsBuilder;
    // writer: clear after k gets (moka applies pending evictions every so many operations)
    for cap in [1u64, 84, 168, 252] {
        for k in 0..100u64 {
            let d = Disk::new();
            let kp = fixed_keys();
            let mut c = create(&d, kp).await;
            for i in 0..9u8 {
                c.append(&[i]).await.unwrap();
            }
            drop(c);
            let mut c = HypercoreBuilder::new(d.storage().await)
                .open(true)
                .node_cache_options(CacheOptionsBuilder::new().max_capacity(cap))
                .build()
                .await
                .unwrap();
            for j in 0..k {
                c.get((j * 5 + 4) % 8).await.unwrap();
            }
            c.clear(7, 8).await.unwrap_or_else(|e| panic!("capacity {cap}, clear after {k} gets: {e:?}"));
            assert_eq!(c.get(7).await.unwrap(), None);
            assert_eq!(c.get(6).await.unwrap(), Some(vec![6]));
        }
    }
    // replica: applying a block after k gets
    let mut w = create(&Disk::new(), fixed_keys()).await;
    for i in 0..9u8 {
        w.append(&[i]).await.unwrap();
    }
    let public = PartialKeypair { public: fixed_keys().public, secret: None };
    let rd = Disk::new();
    let mut r = create(&rd, public.clone()).await;
    let mut last = None;
    for (step, i) in [4u64, 0, 1, 2, 3, 7].iter().enumerate() {
        let nodes = r.missing_nodes(*i).await.unwrap();
        let upgrade = if step == 0 { Some(RequestUpgrade { start: 0, length: 9 }) } else { None };
        let p = w.create_proof(Some(RequestBlock { index: *i, nodes }), None, None, upgrade).await.unwrap().unwrap();
        if *i == 7 {
            last = Some(p);
        } else {
            assert!(r.verify_and_apply_proof(&p).await.unwrap());
        }
    }
    drop(r);
    let last = last.unwrap();
    let stores: Vec<Vec<u8>> = {
        let mut v = vec![];
        for st in [Store::Tree, Store::Data, Store::Bitfield, Store::Oplog] {
            v.push(rd.read_all(st).await);
        }
        v
    };
    for cap in [1u64, 84, 168, 252] {
        for k in 0..100u64 {
            let d = Disk::new();
            for (st, bytes) in [Store::Tree, Store::Data, Store::Bitfield, Store::Oplog].into_iter().zip(&stores) {
                if !bytes.is_empty() {
                    d.write_raw(st, 0, bytes).await;
                }
            }
            let mut r = HypercoreBuilder::new(d.storage().await)
                .open(true)
                .node_cache_options(CacheOptionsBuilder::new().max_capacity(cap))
                .build()
                .await
                .unwrap();
            for j in 0..k {
                r.get((j * 3 + 4) % 5).await.unwrap();
            }
            let applied = r.verify_and_apply_proof(&last).await.unwrap_or_else(|e| panic!("capacity {cap}, block applied after {k} gets: {e:?}"));
            assert!(applied);
            assert_eq!(r.get(7).await.unwrap(), Some(vec![7]));
        }
    }
}

fn tempdir_path(tag: &str) -> std::path::PathBuf {
    let mut p = std::env::temp_dir();
    p.push(format!("hc_triage_{tag}_{}", std::process::id()));
    let _ = std::fs::remove_dir_all(&p);
    std::fs::create_dir_all(&p).unwrap();
    p
}

/// D21 (C14 / C03, found by a defect-hunting sub-agent): the answer to a request with a seek must not
/// depend on which tree nodes happen to be in memory (node cache on or off, flushed or not).
/// seek_untrusted_tree and seek_from_head went on computing with an unadjusted byte count when a
/// node was missing in the first pass, and returned a position while read instructions were
/// pending — so cache-off cores served a different proof (or a proof where cache-on cores refuse).
#[tokio::test]
async fn d21_seek_answers_do_not_depend_on_the_node_cache() {
    use hypercore::{CacheOptionsBuilder, RequestSeek};
    async fn run(cache: bool, which: u8) -> String {
        let d = Disk::new();
        let mut b = HypercoreBuilder::new(d.storage().await).key_pair(fixed_keys());
        if cache {
            b = b.node_cache_options(CacheOptionsBuilder::new());
        }
        let mut c = b.build().await.unwrap();
        match which {
            0 => {
                c.append(b"a").await.unwrap();
                c.get(0).await.unwrap();
                format!("{:?}", c.create_proof(Some(RequestBlock { index: 0, nodes: 0 }), None, Some(RequestSeek { bytes: 1 }), None).await.map(|p| p.map(|p| (p.block.map(|b| b.nodes.len()), p.seek.map(|s| s.nodes.iter().map(|n| format!("{n:?}")).collect::<Vec<_>>())))))
            }
            1 => {
                c.append_batch([b"a", b"b", b"c", b"d"]).await.unwrap();
                c.append_batch([b"e", b"f", b"g", b"h"]).await.unwrap();
                c.get(4).await.unwrap();
                format!("{:?}", c.create_proof(Some(RequestBlock { index: 4, nodes: 2 }), None, Some(RequestSeek { bytes: 6 }), None).await.map(|p| p.map(|p| (p.block.map(|b| b.nodes.len()), p.seek.map(|s| s.nodes.len())))))
            }
            _ => {
                c.append_batch([b"a", b"b", b"c", b"d"]).await.unwrap();
                c.append(b"e").await.unwrap();
                c.create_proof(None, None, None, Some(RequestUpgrade { start: 0, length: 5 })).await.unwrap();
                format!("{:?}", c.create_proof(None, None, Some(RequestSeek { bytes: 1 }), Some(RequestUpgrade { start: 4, length: 1 })).await.map(|p| p.map(|p| (p.seek.map(|s| s.nodes.len()), p.upgrade.map(|u| u.nodes.len())))))
            }
        }
    }
    for which in 0..3u8 {
        let off = run(false, which).await;
        let on = run(true, which).await;
        assert_eq!(off, on, "scenario {which}: node cache off vs on");
    }
}

fn fixed_keys() -> PartialKeypair {
    let k = ed25519_dalek::SigningKey::from_bytes(&[7u8; 32]);
    PartialKeypair { public: k.verifying_key(), secret: Some(k) }
}

/// D19 (C12, found by a defect-hunting sub-agent): after make_read_only returns — for any prior
/// history, crashes inside an earlier make_read_only included — no storage file contains the secret
/// key.  A crash between the two header writes of the trace-clearing flush recovers a read-only core
/// (the newer slot has no secret) while the other slot still holds the previous header with the key;
/// make_read_only on the recovered core saw no secret in memory, returned Ok(false) and touched
/// nothing, so no call could ever scrub the key.
#[tokio::test]
async fn d19_make_read_only_scrubs_a_stale_slot() {
    fn contains(hay: &[u8], needle: &[u8]) -> bool {
        hay.windows(needle.len()).any(|w| w == needle)
    }
    for n in 0..3u8 {
        for k in 1..3usize {
            let d = Disk::new();
            let kp = keys();
            let seed = kp.secret.as_ref().unwrap().to_bytes();
            let mut c = create(&d, kp).await;
            for i in 0..n {
                c.append(&[i]).await.unwrap();
            }
            d.crash_after(k);
            let _ = c.make_read_only().await;
            drop(c);
            d.heal();
            let mut c = reopen(&d).await.unwrap();
            let first = c.make_read_only().await.unwrap();
            let second = c.make_read_only().await.unwrap();
            assert!(!second, "a repeated call reports that nothing changed");
            let _ = first;
            assert!(!c.info().writeable);
            drop(c);
            for st in [Store::Oplog, Store::Tree, Store::Bitfield, Store::Data] {
                let bytes = d.read_all(st.clone()).await;
                assert!(!contains(&bytes, &seed), "{n} appends, crash after {k} operations of make_read_only: store {st} still contains the secret key after make_read_only returned");
            }
            let mut c = reopen(&d).await.unwrap();
            assert!(!c.info().writeable);
            for i in 0..n as u64 {
                assert_eq!(c.get(i).await.unwrap(), Some(vec![i as u8]));
            }
        }
    }
}

/// D20 (C09 "after such a call the core is still usable", found by three defect-hunting sub-agents):
/// a proof whose hash section is the single node the replica already holds, with the genuine hash
/// and a forged length, was accepted — verify_proof compared the recomputed (here: the supplied)
/// node with the stored one by hash only — and the forged node replaced the stored one: every
/// later read of that block, and the byte offsets of all blocks to its right, were wrong.
#[tokio::test]
async fn d20_single_node_hash_proof_with_a_forged_length_is_refused() {
    use compact_encoding::CompactEncoding;
    use hypercore::{DataHash, Node};
    let w = Disk::new();
    let kp = keys();
    let public = kp.public;
    let mut writer = create(&w, kp).await;
    writer.append(b"abc").await.unwrap();
    writer.append(b"de").await.unwrap();
    let r = Disk::new();
    let mut replica = HypercoreBuilder::new(r.storage().await).key_pair(PartialKeypair { public, secret: None }).build().await.unwrap();
    for i in 0..2u64 {
        let p = writer.create_proof(Some(RequestBlock { index: i, nodes: 0 }), None, None, Some(RequestUpgrade { start: 0, length: 2 })).await.unwrap().unwrap();
        // the second proof repeats the upgrade, which is accepted as a no-op
        let _ = replica.verify_and_apply_proof(&p).await;
    }
    assert_eq!(replica.get(0).await.unwrap(), Some(b"abc".to_vec()));
    assert_eq!(replica.get(1).await.unwrap(), Some(b"de".to_vec()));
    // the genuine leaf 0, with its length changed from 3 to 2
    let honest = writer.create_proof(None, Some(RequestBlock { index: 0, nodes: 0 }), None, None).await.unwrap().unwrap();
    let leaf = honest.hash.as_ref().unwrap().nodes[0].clone();
    let mut bytes = vec![0u8; leaf.encoded_size().unwrap()];
    leaf.encode(&mut bytes).unwrap();
    assert_eq!(&bytes[..2], &[0, 3]);
    bytes[1] = 2;
    let (forged, _) = Node::decode(&bytes).unwrap();
    let proof = Proof { fork: 0, block: None, hash: Some(DataHash { index: 0, nodes: vec![forged] }), seek: None, upgrade: None };
    let res = replica.verify_and_apply_proof(&proof).await;
    assert!(!matches!(res, Ok(true)), "a node with a forged length was accepted");
    assert_eq!(replica.get(0).await.expect("block 0 must still be readable"), Some(b"abc".to_vec()));
    assert_eq!(replica.get(1).await.expect("block 1 must still be readable"), Some(b"de".to_vec()));
    // and the honest node is still accepted
    assert!(replica.verify_and_apply_proof(&honest).await.is_ok());
}

/// D24 (C12 / C02, found by defect-hunting sub-agents in two rounds): log entries that a crashed flush
/// left behind (header written, truncate not reached) are ignored at open because they carry the
/// previous header bit, but nothing removed them — and an entry's generation is one bit, so the
/// next header write that is not preceded by an entry write (make_read_only's, which after fix D19
/// also runs on an already read-only core) made them current again.  Interrupted there once more,
/// the next open replayed entries the header already contained, as a truncation of the tree.
#[tokio::test]
async fn d24_stale_entries_are_cut_off_at_open() {
    for big in [false, true] {
        let d = Disk::new();
        let mut c = create(&d, keys()).await;
        c.append(b"a").await.unwrap(); // flushed
        if big {
            let blocks: Vec<Vec<u8>> = (0..300u32).map(|i| i.to_le_bytes().to_vec()).collect();
            c.append_batch(&blocks).await.unwrap(); // one pending entry
        } else {
            c.append(b"b").await.unwrap(); // one pending entry
        }
        let len = c.info().length;
        for _round in 0..2 {
            // how many mutating operations does make_read_only issue from here?  (the last three
            // are: header write, log truncate, header write)
            let total = {
                let twin = Disk::new();
                for st in [Store::Tree, Store::Data, Store::Bitfield, Store::Oplog] {
                    let bytes = d.read_all(st.clone()).await;
                    if !bytes.is_empty() {
                        twin.write_raw(st, 0, &bytes).await;
                    }
                }
                let mut t = reopen(&twin).await.unwrap();
                let before = twin.ops();
                let _ = t.make_read_only().await.unwrap();
                twin.ops() - before
            };
            assert!(total >= 3);
            // the state on disk is what `c` has written so far; interrupt its call before the truncate
            d.crash_after(total - 2);
            let _ = c.make_read_only().await;
            drop(c);
            d.heal();
            c = reopen(&d).await.expect("reopen after a crash inside make_read_only");
            assert_eq!(c.info().length, len);
        }
        let _ = c.make_read_only().await.unwrap();
        drop(c);
        let mut c = reopen(&d).await.expect("reopen after make_read_only completed");
        assert_eq!(c.info().length, len);
        assert_eq!(c.get(0).await.unwrap(), Some(b"a".to_vec()));
        let last = c.get(len - 1).await.expect("the last block must be readable after the interrupted calls");
        assert!(last.is_some());
        // and the log holds nothing beyond what open accepts
        let oplog = d.read_all(Store::Oplog).await;
        assert_eq!(oplog.len(), 8192, "stale bytes left in the log");
    }
}
