//! Compile-fail witnesses: type-level facts about hypercore's public surface that the
//! structural rules of C12 and C15 rely on.  Each `compile_fail,E0xxx` example is paired
//! with a compiling twin that differs only by the offending line, so that a witness whose
//! path is merely wrong cannot pass.  Run with `cargo +nightly test --doc --offline`
//! (the error code is only checked on nightly).

/// C15.R4 — appending needs exclusive access: a shared reference cannot append.
/// ```compile_fail,E0596
/// fn f(core: &hypercore::Hypercore) {
///     let _fut = core.append(b"x"); // `append` takes &mut self
/// }
/// ```
/// Twin (compiles): the same call through `&mut`.
/// ```
/// fn f(core: &mut hypercore::Hypercore) {
///     let _fut = core.append(b"x");
/// }
/// ```
pub struct AppendNeedsMut;

/// C15.R4 — clear, make_read_only and verify_and_apply_proof need exclusive access too.
/// ```compile_fail,E0596
/// fn f(core: &hypercore::Hypercore, p: &hypercore::Proof) {
///     let _a = core.verify_and_apply_proof(p);
/// }
/// ```
/// ```compile_fail,E0596
/// fn f(core: &hypercore::Hypercore) {
///     let _a = core.clear(0, 1);
/// }
/// ```
/// ```compile_fail,E0596
/// fn f(core: &hypercore::Hypercore) {
///     let _a = core.make_read_only();
/// }
/// ```
/// Twin (compiles):
/// ```
/// fn f(core: &mut hypercore::Hypercore, p: &hypercore::Proof) {
///     drop(core.verify_and_apply_proof(p));
///     drop(core.clear(0, 1));
///     drop(core.make_read_only());
/// }
/// ```
pub struct MutatorsNeedMut;

/// C15 — a Hypercore cannot be duplicated: the only way to share one is SharedCore.
/// ```compile_fail,E0599
/// fn f(core: hypercore::Hypercore) {
///     let _copy = core.clone(); // Hypercore is not Clone
/// }
/// ```
/// Twin (compiles): the shared wrapper is Clone.
/// ```
/// fn f(core: hypercore::Hypercore) {
///     let shared = hypercore::replication::SharedCore::from(core);
///     let _copy = shared.clone();
/// }
/// ```
pub struct NoAliasing;

/// C12.R2 — the key pair accessor cannot be used to change writability.
/// ```compile_fail,E0594
/// fn f(core: &mut hypercore::Hypercore) {
///     core.key_pair().secret = None; // `key_pair()` hands out a shared reference
/// }
/// ```
/// Twin (compiles): reading through the accessor.
/// ```
/// fn f(core: &mut hypercore::Hypercore) -> bool {
///     core.key_pair().secret.is_none()
/// }
/// ```
pub struct KeyPairReadOnly;

/// C12.R4 — the oplog header (the only serialiser of the key pair) is not reachable from outside.
/// ```compile_fail,E0603
/// use hypercore::oplog::Header; // private module
/// fn f(_h: Header) {}
/// ```
/// Twin (compiles): a public item of the same crate.
/// ```
/// use hypercore::PartialKeypair;
/// fn f(_h: PartialKeypair) {}
/// ```
pub struct HeaderIsPrivate;

/// C12.R1 / C15 — the fields of a Hypercore (key pair, storage, oplog, tree, bitfield) are crate-private.
/// ```compile_fail,E0616
/// fn f(core: &mut hypercore::Hypercore) {
///     core.key_pair.secret = None;
/// }
/// ```
/// ```compile_fail,E0616
/// fn f(core: &mut hypercore::Hypercore) {
///     let _ = &mut core.bitfield;
/// }
/// ```
/// Twin (compiles): public accessor.
/// ```
/// fn f(core: &mut hypercore::Hypercore) -> bool {
///     core.info().writeable
/// }
/// ```
pub struct FieldsArePrivate;

/// C13.R1 — the event sender is crate-private: only the library can emit events.
/// ```compile_fail,E0603
/// use hypercore::replication::events::Events;
/// fn f(_e: Events) {}
/// ```
/// Twin (compiles): the public event type.
/// ```
/// use hypercore::replication::events::Event;
/// fn f(_e: Event) {}
/// ```
pub struct EventsSenderIsPrivate;
